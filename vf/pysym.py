"""E4 `pysym`: a tiny symbolic executor for plain Python functions (the REAL functions of /repo run on proxies).

* `SInt` wraps a signed z3 bit-vector of `Engine.width` bits and stands for an unbounded Python int.  Bitwise operators
  and `>>` are exact on the sign-extended representation; every operator that could leave the representable range
  (`+ - * << unary- abs **`) records a *side condition* ("no overflow") on the engine.  A path is only meaningful if
  its side conditions are valid under the path condition (`Engine.side_ok`), so bit-vectors never silently stand in
  for Python's unbounded integers.
* `SBool` wraps a z3 Bool.  `__bool__` on a proxy asks the solver which outcomes are feasible under the current
  path condition and forks: `Engine.run` re-executes the function depth-first with a decision prefix until every
  feasible path has been explored (`if c:`, `while v:`, `a and b`, `any(...)`, `sorted` comparisons, ...).
* `__index__ / __int__ / __hash__ / __float__` on a proxy raise `Unsupported` (never a silent concretisation).  The
  engine also remembers that it raised, so code under test that swallows exceptions cannot hide it.

Typical use::

    eng = Engine(width=128)
    def body(e):
        x = e.int("x", lo=0, hi=255)            # fresh symbolic int, bounds go into the path condition
        return x, real_function(x, 8)
    for p in eng.run(body):                      # one Path per feasible path
        (x, r) = p.result
        assert eng.side_ok(p)                    # no-overflow side conditions hold on this path
        ... z3 query:  And(p.pc) => goal(term(x), term(r)) ...

`concrete_result(paths, {"x": 5})` evaluates the explored paths on concrete inputs (translator validation against a
concrete run of the same function).
"""
import time
import z3

try:  # share the framework's exception class so that the driver files it as "unsupported", not as a crash
    from .nir2smt import Unsupported as _BaseUnsupported
except Exception:  # pragma: no cover - pysym is usable stand-alone
    _BaseUnsupported = Exception

__all__ = ["Engine", "Path", "SInt", "SBool", "Unsupported", "term", "ite", "all_of", "any_of", "implies",
           "model_int", "concrete_result", "subst_ints"]


class Unsupported(_BaseUnsupported):
    """The executor cannot follow the code soundly (concretisation, unknown solver answer, path explosion)."""


class _Abort(BaseException):
    """Current path is infeasible."""


class Path:
    """One explored path: `result` of the function, path condition `pc`, side conditions `side` [(what, z3 Bool)],
    fork `decisions`, `exc` = exception instance raised by the function (result is None then)."""

    def __init__(self, result, pc, side, decisions, exc=None):
        self.result, self.pc, self.side, self.decisions, self.exc = result, pc, side, decisions, exc

    def __repr__(self):
        return f"Path(decisions={self.decisions}, pc={len(self.pc)}, side={len(self.side)}, exc={self.exc!r})"


class Engine:
    def __init__(self, width=96, max_paths=4096, timeout_ms=60000, catch=()):
        """width: bits of the signed bit-vector behind an SInt.  catch: exception classes raised by the function under
        test that end a path normally (stored in Path.exc) instead of propagating."""
        self.W = width
        self.max_paths = max_paths
        self.timeout_ms = timeout_ms
        self.catch = tuple(catch)
        self.paths = 0
        self.queries = 0
        self.solver_time = 0.0
        self.pc, self.side, self.vars = [], [], {}
        self._pending, self._pos = [], 0
        self._unsupported = None

    # ---- exploration -------------------------------------------------------------------------------------------
    def run(self, fn, on_path=None):
        """Re-execute fn(engine) for every feasible path; returns the list of Paths (on_path(path) is called on each)."""
        out = []
        stack = []  # [decision, other outcome still to be explored]
        while True:
            self.pc, self.side, self.vars = [], [], {}
            self._pending, self._pos = stack, 0
            self._unsupported = None
            path = None
            try:
                try:
                    res = fn(self)
                    path = Path(res, list(self.pc), list(self.side), [d for d, _ in stack[:self._pos]])
                except self.catch as e:  # type: ignore[misc]
                    if isinstance(e, Unsupported):
                        raise
                    path = Path(None, list(self.pc), list(self.side), [d for d, _ in stack[:self._pos]], exc=e)
                if self._unsupported is not None:  # raised earlier and swallowed by the code under test
                    raise Unsupported(self._unsupported)
            except _Abort:
                path = None
            if path is not None:
                self.paths += 1
                if self.paths > self.max_paths:
                    raise Unsupported(f"more than {self.max_paths} paths")
                out.append(path)
                if on_path is not None:
                    on_path(path)
            stack = self._pending
            while stack and not stack[-1][1]:
                stack.pop()
            if not stack:
                return out
            stack[-1] = [not stack[-1][0], False]

    def _check(self, *conds):
        s = z3.SolverFor("QF_BV")
        s.set("timeout", self.timeout_ms)
        s.add(*conds)
        t = time.time()
        r = s.check()
        self.solver_time += time.time() - t
        self.queries += 1
        if r == z3.unknown:
            self.unsupported("solver answered unknown on a feasibility query")
        return r == z3.sat

    def feasible(self, extra):
        return self._check(*self.pc, extra)

    def decide(self, cond):
        """Fork on a z3 Bool; returns the Python bool chosen on this path."""
        cond = z3.simplify(cond)
        if z3.is_true(cond):
            return True
        if z3.is_false(cond):
            return False
        if self._pos < len(self._pending):
            d = self._pending[self._pos][0]
        else:
            t = self.feasible(cond)
            f = self.feasible(z3.Not(cond))
            if not t and not f:
                raise _Abort()
            d = t
            self._pending.append([d, t and f])
        self._pos += 1
        self.pc.append(cond if d else z3.Not(cond))
        return d

    def assume(self, cond):
        """Add a constraint to the current path (inputs' preconditions)."""
        cond = _as_bool_term(self, cond)
        self.pc.append(cond)

    def require(self, cond, what):
        """Record a side condition that must be VALID under the path condition for the path to be meaningful."""
        cond = z3.simplify(cond)
        if z3.is_true(cond):
            return
        self.side.append((what, cond))

    def unsupported(self, why):
        self._unsupported = why
        raise Unsupported(why)

    def side_ok(self, path):
        """True iff every side condition of the path is valid under its path condition (decided by the solver)."""
        if not path.side:
            return True
        return not self._check(*path.pc, z3.Not(z3.And(*[c for _, c in path.side])))

    # ---- symbolic inputs ---------------------------------------------------------------------------------------
    def int(self, name, lo=None, hi=None):
        v = z3.BitVec(name, self.W)
        self.vars[name] = v
        if lo is not None:
            self.pc.append(v >= self.const(lo))
        if hi is not None:
            self.pc.append(v <= self.const(hi))
        return SInt(self, v)

    def bool(self, name):
        v = z3.Bool(name)
        self.vars[name] = v
        return SBool(self, v)

    def const(self, x):
        x = int(x)
        if not -(1 << (self.W - 1)) <= x < (1 << (self.W - 1)):
            self.unsupported(f"constant {x} does not fit {self.W} bits; widen the engine")
        return z3.BitVecVal(x, self.W)

    def lift(self, x):
        """Python int/bool or proxy -> bit-vector term (None if x is something else)."""
        if isinstance(x, SInt):
            return x.e
        if isinstance(x, SBool):
            return z3.If(x.e, z3.BitVecVal(1, self.W), z3.BitVecVal(0, self.W))
        if isinstance(x, bool):
            return z3.BitVecVal(int(x), self.W)
        if isinstance(x, int):
            return self.const(x)
        return None


# ---- proxies -----------------------------------------------------------------------------------------------------
def _as_bool_term(eng, x):
    if isinstance(x, SBool):
        return x.e
    if isinstance(x, SInt):
        return x.e != 0
    if z3.is_expr(x):
        return x
    return z3.BoolVal(bool(x))


def _concretise(self, *a, **k):
    self.eng.unsupported(f"concretisation of a symbolic {type(self).__name__}")


def _ovf_add(a, b, r):
    # signed overflow iff operands have the same sign and the result a different one
    W = a.size()
    sa, sb, sr = z3.Extract(W - 1, W - 1, a), z3.Extract(W - 1, W - 1, b), z3.Extract(W - 1, W - 1, r)
    return z3.Or(sa != sb, sa == sr)


def _ovf_sub(a, b, r):
    W = a.size()
    sa, sb, sr = z3.Extract(W - 1, W - 1, a), z3.Extract(W - 1, W - 1, b), z3.Extract(W - 1, W - 1, r)
    return z3.Or(sa == sb, sa == sr)


def _binop(name):
    def apply(eng, a, b):
        W = eng.W
        if name == "add":
            r = a + b
            eng.require(_ovf_add(a, b, r), "no overflow in +")
        elif name == "sub":
            r = a - b
            eng.require(_ovf_sub(a, b, r), "no overflow in -")
        elif name == "mul":
            r = a * b
            eng.require(z3.And(z3.BVMulNoOverflow(a, b, True), z3.BVMulNoUnderflow(a, b)), "no overflow in *")
        elif name == "and":
            r = a & b
        elif name == "or":
            r = a | b
        elif name == "xor":
            r = a ^ b
        elif name == "lshift":
            if eng.decide(b < 0):
                raise ValueError("negative shift count")
            r = a << b
            # exact iff shifting back (arithmetically) restores the operand and the count is below the width
            eng.require(z3.And(z3.ULT(b, W), (r >> b) == a), "no overflow in <<")
        elif name == "rshift":
            if eng.decide(b < 0):
                raise ValueError("negative shift count")
            r = z3.If(z3.UGE(b, W), z3.If(a < 0, z3.BitVecVal(-1, W), z3.BitVecVal(0, W)), a >> b)
        elif name in ("floordiv", "mod"):
            if eng.decide(b == 0):
                raise ZeroDivisionError("integer division or modulo by zero")
            eng.require(z3.Not(z3.And(a == z3.BitVecVal(1 << (W - 1), W), b == -1)), "no overflow in // or %")
            q = a / b  # bvsdiv: truncates towards zero
            m = z3.SRem(a, b)  # sign follows the dividend
            adj = z3.And(m != 0, (m < 0) != (b < 0))
            r = z3.If(adj, q - 1, q) if name == "floordiv" else z3.If(adj, m + b, m)
        else:  # pragma: no cover
            raise AssertionError(name)
        return SInt(eng, r)

    def fwd(self, o):
        b = self.eng.lift(o)
        if b is None:
            return NotImplemented
        return apply(self.eng, self.eng.lift(self), b)

    def rev(self, o):
        b = self.eng.lift(o)
        if b is None:
            return NotImplemented
        return apply(self.eng, b, self.eng.lift(self))

    return fwd, rev


def _cmp(op):
    def f(self, o):
        b = self.eng.lift(o)
        if b is None:
            return NotImplemented
        return SBool(self.eng, op(self.eng.lift(self), b))

    return f


class _IntLike:
    """Arithmetic shared by SInt and SBool (a Python bool is an int)."""

    __add__, __radd__ = _binop("add")
    __sub__, __rsub__ = _binop("sub")
    __mul__, __rmul__ = _binop("mul")
    __lshift__, __rlshift__ = _binop("lshift")
    __rshift__, __rrshift__ = _binop("rshift")
    __floordiv__, __rfloordiv__ = _binop("floordiv")
    __mod__, __rmod__ = _binop("mod")
    __lt__ = _cmp(lambda a, b: a < b)
    __le__ = _cmp(lambda a, b: a <= b)
    __gt__ = _cmp(lambda a, b: a > b)
    __ge__ = _cmp(lambda a, b: a >= b)
    __index__ = __int__ = __float__ = __hash__ = __trunc__ = __round__ = _concretise

    def __neg__(self):
        a = self.eng.lift(self)
        self.eng.require(a != z3.BitVecVal(1 << (self.eng.W - 1), self.eng.W), "no overflow in unary -")
        return SInt(self.eng, -a)

    def __pos__(self):
        return SInt(self.eng, self.eng.lift(self))

    def __abs__(self):
        a = self.eng.lift(self)
        self.eng.require(a != z3.BitVecVal(1 << (self.eng.W - 1), self.eng.W), "no overflow in abs")
        return SInt(self.eng, z3.If(a < 0, -a, a))

    def __pow__(self, o, mod=None):
        if mod is not None or not isinstance(o, int) or isinstance(o, bool) or o < 0 or o > 8:
            self.eng.unsupported("** with a symbolic base needs a small constant exponent")
        r = 1
        for _ in range(o):
            r = self * r
        return r if o else SInt(self.eng, self.eng.const(1))

    def __rpow__(self, base):
        # base ** self: only powers of two are followed (as a shift); a possibly negative exponent gives a float
        if not isinstance(base, int) or isinstance(base, bool) or base < 2 or base & (base - 1):
            self.eng.unsupported("** with a symbolic exponent needs a constant power-of-two base")
        if self.eng.decide(self.eng.lift(self) < 0):
            self.eng.unsupported("** with a negative symbolic exponent (float result)")
        return 1 << (self * (base.bit_length() - 1))


class SInt(_IntLike):
    def __init__(self, eng, e):
        self.eng, self.e = eng, e

    __and__, __rand__ = _binop("and")
    __or__, __ror__ = _binop("or")
    __xor__, __rxor__ = _binop("xor")
    __eq__ = _cmp(lambda a, b: a == b)
    __ne__ = _cmp(lambda a, b: a != b)
    __hash__ = _concretise

    def __invert__(self):
        return SInt(self.eng, ~self.e)

    def __bool__(self):
        return self.eng.decide(self.e != 0)

    def bit_length(self):
        self.eng.unsupported("bit_length of a symbolic int")

    def __repr__(self):
        return f"SInt({z3.simplify(self.e)})"


class SBool(_IntLike):
    def __init__(self, eng, e):
        self.eng, self.e = eng, e

    def __bool__(self):
        return self.eng.decide(self.e)

    def _logic(op, intop):  # noqa: N805
        def f(self, o):
            if isinstance(o, SBool):
                return SBool(self.eng, op(self.e, o.e))
            if isinstance(o, bool):
                return SBool(self.eng, op(self.e, z3.BoolVal(o)))
            b = self.eng.lift(o)
            if b is None:
                return NotImplemented
            return SInt(self.eng, intop(self.eng.lift(self), b))

        return f

    __and__ = __rand__ = _logic(z3.And, lambda a, b: a & b)
    __or__ = __ror__ = _logic(z3.Or, lambda a, b: a | b)
    __xor__ = __rxor__ = _logic(z3.Xor, lambda a, b: a ^ b)
    del _logic

    def __invert__(self):  # ~True == -2
        return SInt(self.eng, ~self.eng.lift(self))

    def __eq__(self, o):
        if isinstance(o, SBool):
            return SBool(self.eng, self.e == o.e)
        if isinstance(o, bool):
            return SBool(self.eng, self.e if o else z3.Not(self.e))
        b = self.eng.lift(o)
        if b is None:
            return NotImplemented
        return SBool(self.eng, self.eng.lift(self) == b)

    def __ne__(self, o):
        r = self.__eq__(o)
        return r if r is NotImplemented else SBool(self.eng, z3.Not(r.e))

    __hash__ = _concretise

    def __repr__(self):
        return f"SBool({z3.simplify(self.e)})"


# ---- helpers that work on proxies and on plain Python values alike ----------------------------------------------------
def term(x, width=None):
    """z3 term of a proxy or of a Python int/bool (bit-vector of `width` bits for ints)."""
    if isinstance(x, SInt):
        return x.e
    if isinstance(x, SBool):
        return x.e
    if isinstance(x, bool):
        return z3.BoolVal(x)
    if isinstance(x, int):
        if width is None:
            raise ValueError("width needed for a concrete int")
        if not -(1 << (width - 1)) <= x < (1 << (width - 1)):
            raise Unsupported(f"constant {x} does not fit {width} bits")
        return z3.BitVecVal(x, width)
    raise TypeError(f"no term for {type(x).__name__}")


def _eng_of(*xs):
    for x in xs:
        if isinstance(x, (SInt, SBool)):
            return x.eng
    return None


def ite(c, a, b):
    """`a if c else b` without forking when c is symbolic."""
    eng = _eng_of(c, a, b)
    if eng is None or not isinstance(c, (SInt, SBool)):
        return a if c else b
    ct = _as_bool_term(eng, c)
    if isinstance(a, (SBool, bool)) and isinstance(b, (SBool, bool)):
        return SBool(eng, z3.If(ct, _as_bool_term(eng, a), _as_bool_term(eng, b)))
    return SInt(eng, z3.If(ct, eng.lift(a), eng.lift(b)))


def all_of(*cs):
    eng = _eng_of(*cs)
    if eng is None:
        return all(cs)
    return SBool(eng, z3.And(*[_as_bool_term(eng, c) for c in cs]))


def any_of(*cs):
    eng = _eng_of(*cs)
    if eng is None:
        return any(cs)
    return SBool(eng, z3.Or(*[_as_bool_term(eng, c) for c in cs]))


def implies(a, b):
    eng = _eng_of(a, b)
    if eng is None:
        return (not a) or bool(b)
    return SBool(eng, z3.Implies(_as_bool_term(eng, a), _as_bool_term(eng, b)))


def model_int(m, var):
    """Signed Python int value of a bit-vector variable (or bool of a Bool) in model m."""
    v = m.eval(var, model_completion=True)
    if z3.is_bv_value(v):
        return v.as_signed_long()
    if z3.is_true(v):
        return True
    if z3.is_false(v):
        return False
    raise Unsupported(f"model value not concrete: {v}")


def subst_ints(t, env, width):
    """Substitute {variable name: Python int/bool} into a z3 term and simplify."""
    subs = []
    for n, val in env.items():
        if isinstance(val, bool):
            subs.append((z3.Bool(n), z3.BoolVal(val)))
        else:
            subs.append((z3.BitVec(n, width), z3.BitVecVal(val, width)))
    return z3.simplify(z3.substitute(t, *subs))


def _conc(x, env, width):
    if isinstance(x, (SInt, SBool)):
        v = subst_ints(x.e, env, width)
        if z3.is_bv_value(v):
            return v.as_signed_long()
        if z3.is_true(v) or z3.is_false(v):
            return z3.is_true(v)
        raise Unsupported(f"result not concrete after substitution: {v}")
    if isinstance(x, tuple):
        return tuple(_conc(y, env, width) for y in x)
    if isinstance(x, list):
        return [_conc(y, env, width) for y in x]
    if isinstance(x, dict):
        return {k: _conc(y, env, width) for k, y in x.items()}
    return x


def concrete_result(paths, env, width):
    """Evaluate explored paths on concrete inputs {name: int}: returns (path, concrete result) of the unique path
    whose path condition holds (translator validation: compare with a concrete run of the same function)."""
    hit = []
    for p in paths:
        if all(z3.is_true(subst_ints(c, env, width)) for c in p.pc):
            hit.append(p)
    if len(hit) != 1:
        raise Unsupported(f"{len(hit)} paths cover the concrete input {env} (expected exactly 1)")
    p = hit[0]
    for what, c in p.side:
        if not z3.is_true(subst_ints(c, env, width)):
            raise Unsupported(f"side condition '{what}' fails on {env}")
    return p, _conc(p.result, env, width)
