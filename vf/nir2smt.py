"""E1: Amaranth NIR netlist -> z3 transition system (QF_BV, memories as explicit rows).

The netlist is the one `amaranth.hdl._ir.build_netlist` produces for the design elaborated by the real
code under /repo.  Every cell kind Amaranth emits for synthesizable single-clock designs is translated;
anything else raises `Unsupported`, which the drivers turn into a harness error (never into a verdict).
"""
import z3
from amaranth.hdl import _nir


class Unsupported(Exception):
    pass


def _ext(v, w, signed):
    d = w - v.size()
    if d <= 0:
        return v
    return z3.SignExt(d, v) if signed else z3.ZeroExt(d, v)


def _b1(cond):
    return z3.If(cond, z3.BitVecVal(1, 1), z3.BitVecVal(0, 1))


class Frame:
    """Values of all nets in one clock cycle, for a given state and given inputs."""

    def __init__(self, ts, state, inputs):
        self.ts = ts
        self.state = state
        self.inputs = inputs
        self.cache = {}

    def net(self, net):
        if net.is_const:
            return z3.BitVecVal(int(net), 1)
        v = self.cell(net.cell)
        return z3.Extract(net.bit, net.bit, v)

    def value(self, val):
        """nir.Value (LSB first) -> z3 BV; None for zero width."""
        n = len(val)
        if n == 0:
            return None
        chunks = []
        i = 0
        while i < n:
            net = val[i]
            if net.is_const:
                j = i
                acc = 0
                while j < n and val[j].is_const:
                    acc |= int(val[j]) << (j - i)
                    j += 1
                chunks.append(z3.BitVecVal(acc, j - i))
                i = j
            else:
                c, b = net.cell, net.bit
                j = i + 1
                while j < n and not val[j].is_const and val[j].cell == c and val[j].bit == b + (j - i):
                    j += 1
                cv = self.cell(c)
                hi = b + (j - i) - 1
                if b == 0 and hi == cv.size() - 1:
                    chunks.append(cv)
                else:
                    chunks.append(z3.Extract(hi, b, cv))
                i = j
        if len(chunks) == 1:
            return chunks[0]
        return z3.Concat(*reversed(chunks))

    def cell(self, idx):
        r = self.cache.get(idx)
        if r is None:
            r = self.ts._eval_cell(self, idx)
            self.cache[idx] = r
        return r


class TS:
    """Transition system of a netlist.  State = flip-flops, memory rows, sync read port registers."""

    def __init__(self, netlist):
        self.nl = netlist
        top = netlist.top
        self.in_ports = dict(top.ports_i)  # name -> (start, width)
        self.out_ports = dict(top.ports_o)
        self.top_width = max([s + w for s, w in self.in_ports.values()] + [2])
        self.ffs = []
        self.mems = {}
        self.rports = []
        self.wports = {}
        self.clk = None
        self.ignored_cells = 0
        for i, c in enumerate(netlist.cells):
            if isinstance(c, _nir.FlipFlop):
                self.ffs.append(i)
                self._chk_clk(c)
                if not (c.arst.is_const and int(c.arst) == 0):
                    raise Unsupported("async reset")
            elif isinstance(c, _nir.Memory):
                self.wports[i] = []
                if c.width > 0:  # zero-width memories carry no state
                    self.mems[i] = c
            elif isinstance(c, _nir.SyncReadPort):
                if c.width > 0:
                    self.rports.append(i)
                self._chk_clk(c)
            elif isinstance(c, (_nir.Instance, _nir.IOBuffer, _nir.Initial, _nir.AnyValue)):
                raise Unsupported(type(c).__name__)
            elif isinstance(c, (_nir.AsyncPrint, _nir.SyncPrint, _nir.AsyncProperty, _nir.SyncProperty)):
                self.ignored_cells += 1
        for i, c in enumerate(netlist.cells):
            if isinstance(c, _nir.SyncWritePort):
                self.wports[c.memory].append(i)
                self._chk_clk(c)

    def _chk_clk(self, c):
        if c.clk_edge != "pos":
            raise Unsupported("negedge")
        if self.clk is None:
            self.clk = c.clk
        elif self.clk != c.clk:
            raise Unsupported("multiple clocks")

    # ---- state ----
    def state_keys(self):
        keys = [("ff", i) for i in self.ffs]
        for i, m in self.mems.items():
            keys += [("mem", i, r) for r in range(m.depth)]
        keys += [("rp", i) for i in self.rports]
        return keys

    def state_width(self, key):
        if key[0] == "ff":
            return len(self.nl.cells[key[1]].data)
        if key[0] == "mem":
            return self.mems[key[1]].width
        return self.nl.cells[key[1]].width

    def state_bits(self):
        return sum(self.state_width(k) for k in self.state_keys())

    def init_state(self):
        st = {}
        for i in self.ffs:
            c = self.nl.cells[i]
            st[("ff", i)] = z3.BitVecVal(c.init, len(c.data))
        for i, m in self.mems.items():
            for r in range(m.depth):
                st[("mem", i, r)] = z3.BitVecVal(m.init[r], m.width)
        for i in self.rports:
            st[("rp", i)] = z3.BitVecVal(0, self.nl.cells[i].width)
        return st

    def free_state(self, tag):
        st = {}
        for k in self.state_keys():
            st[k] = z3.BitVec(f"{tag}_" + "_".join(str(x) for x in k), self.state_width(k))
        return st

    def free_inputs(self, tag, fixed=None):
        """dict port name -> z3 BV. clk/rst fixed to 0."""
        fixed = fixed or {}
        ins = {}
        for name, (s, w) in self.in_ports.items():
            if name in fixed:
                ins[name] = z3.BitVecVal(fixed[name], w)
            elif name in ("clk", "rst"):
                ins[name] = z3.BitVecVal(0, w)
            else:
                ins[name] = z3.BitVec(f"{tag}_{name}", w)
        return ins

    def frame(self, state, inputs):
        return Frame(self, state, inputs)

    # ---- combinational semantics ----
    def _eval_cell(self, f, idx):
        c = self.nl.cells[idx]
        if isinstance(c, _nir.Top):
            parts = {}
            for name, (s, w) in self.in_ports.items():
                if w:
                    parts[s] = (w, f.inputs[name])
            pos = 2
            chunks = [z3.BitVecVal(2, 2)]
            for s in sorted(parts):
                w, val = parts[s]
                if s > pos:
                    chunks.append(z3.BitVecVal(0, s - pos))
                chunks.append(val)
                pos = s + w
            return z3.Concat(*reversed(chunks)) if len(chunks) > 1 else chunks[0]
        if isinstance(c, _nir.Operator):
            return self._op(f, c)
        if isinstance(c, _nir.Part):
            val = f.value(c.value)
            off = f.value(c.offset)
            w = c.width
            if val is None:
                return z3.BitVecVal(0, w) if w else None
            total = len(c.value) + w
            v = _ext(val, total, c.value_signed)
            if off is None:
                sh = v
            else:
                ow = off.size() + (c.stride - 1).bit_length() + 1
                amt_w = max(total, ow)
                amt = _ext(off, amt_w, False) * z3.BitVecVal(c.stride, amt_w)
                vv = _ext(v, amt_w, c.value_signed)
                sh = (vv >> amt) if c.value_signed else z3.LShR(vv, amt)
            return z3.Extract(w - 1, 0, sh)
        if isinstance(c, _nir.Matches):
            val = f.value(c.value)
            alts = []
            for p in c.patterns:
                conj = []
                for k, ch in enumerate(reversed(p)):
                    if ch == "-":
                        continue
                    conj.append(z3.Extract(k, k, val) == (1 if ch == "1" else 0))
                alts.append(z3.And(*conj) if conj else z3.BoolVal(True))
            r = z3.Or(*alts) if alts else z3.BoolVal(False)
            return _b1(r)
        if isinstance(c, _nir.PriorityMatch):
            en = f.net(c.en) == 1
            outs = []
            none_before = en
            for net in c.inputs:
                b = f.net(net) == 1
                outs.append(_b1(z3.And(none_before, b)))
                none_before = z3.And(none_before, z3.Not(b))
            return z3.Concat(*reversed(outs)) if len(outs) > 1 else outs[0]
        if isinstance(c, _nir.AssignmentList):
            w = len(c.default)
            cur = f.value(c.default)
            for a in c.assignments:
                cond = f.net(a.cond) == 1
                lo = a.start
                hi = min(a.start + len(a.value), w)
                if hi <= lo:
                    continue
                av = f.value(a.value)
                if hi - lo < len(a.value):
                    av = z3.Extract(hi - lo - 1, 0, av)
                parts = []
                if hi < w:
                    parts.append(z3.Extract(w - 1, hi, cur))
                parts.append(av)
                if lo > 0:
                    parts.append(z3.Extract(lo - 1, 0, cur))
                new = z3.Concat(*parts) if len(parts) > 1 else parts[0]
                cur = z3.If(cond, new, cur)
            return cur
        if isinstance(c, _nir.FlipFlop):
            return f.state[("ff", idx)]
        if isinstance(c, _nir.SyncReadPort):
            return f.state[("rp", idx)]
        if isinstance(c, _nir.AsyncReadPort):
            return self._mem_read(f.state, c.memory, f.value(c.addr))
        raise Unsupported(type(c).__name__)

    def _mem_read(self, state, mi, addr):
        m = self.mems[mi]
        r = z3.BitVecVal(0, m.width)
        if addr is None:
            return state[("mem", mi, 0)]
        for row in reversed(range(m.depth)):
            if row >= (1 << addr.size()):
                continue
            r = z3.If(addr == row, state[("mem", mi, row)], r)
        return r

    def _op(self, f, c):
        op = c.operator
        a = [f.value(v) for v in c.inputs]
        if any(v is None for v in a):
            if op == "r&":
                return z3.BitVecVal(1, 1)
            if op in ("b", "r|", "r^"):
                return z3.BitVecVal(0, 1)
            if op in ("==", "u<=", "u>=", "s<=", "s>="):
                return z3.BitVecVal(1, 1)
            if op in ("!=", "u<", "u>", "s<", "s>"):
                return z3.BitVecVal(0, 1)
            if op in ("<<", "u>>", "s>>") and a[0] is not None:
                return a[0]
            if c.width == 0:
                return None
            raise Unsupported(f"zero-width operand for {op}")
        if len(a) == 1:
            x = a[0]
            if op == "~":
                return ~x
            if op == "-":
                return -x
            if op == "b" or op == "r|":
                return _b1(x != 0)
            if op == "r&":
                return _b1(x == z3.BitVecVal(-1, x.size()))
            if op == "r^":
                r = z3.Extract(0, 0, x)
                for i in range(1, x.size()):
                    r = r ^ z3.Extract(i, i, x)
                return r
        elif len(a) == 2:
            x, y = a
            if op == "+":
                return x + y
            if op == "-":
                return x - y
            if op == "*":
                return x * y
            if op == "&":
                return x & y
            if op == "|":
                return x | y
            if op == "^":
                return x ^ y
            if op == "==":
                return _b1(x == y)
            if op == "!=":
                return _b1(x != y)
            if op == "u<":
                return _b1(z3.ULT(x, y))
            if op == "u>":
                return _b1(z3.UGT(x, y))
            if op == "u<=":
                return _b1(z3.ULE(x, y))
            if op == "u>=":
                return _b1(z3.UGE(x, y))
            if op == "s<":
                return _b1(x < y)
            if op == "s>":
                return _b1(x > y)
            if op == "s<=":
                return _b1(x <= y)
            if op == "s>=":
                return _b1(x >= y)
            if op in ("<<", "u>>", "s>>"):
                w = x.size()
                W = max(w, y.size() + 1)
                xx = _ext(x, W, op == "s>>")
                yy = _ext(y, W, False)
                r = xx << yy if op == "<<" else (z3.LShR(xx, yy) if op == "u>>" else xx >> yy)
                return z3.Extract(w - 1, 0, r)
            if op == "u//":
                return z3.If(y == 0, z3.BitVecVal(0, x.size()), z3.UDiv(x, y))
            if op == "u%":
                return z3.If(y == 0, z3.BitVecVal(0, x.size()), z3.URem(x, y))
            if op in ("s//", "s%"):
                # Python floor semantics, x//0 = x%0 = 0
                w = x.size()
                xe = z3.SignExt(1, x)
                ye = z3.SignExt(1, y)
                q = xe / ye
                r = z3.SRem(xe, ye)
                adj = z3.And(r != 0, (r < 0) != (ye < 0))
                qf = z3.If(adj, q - 1, q)
                rf = z3.If(adj, r + ye, r)
                res = qf if op == "s//" else rf
                return z3.If(y == 0, z3.BitVecVal(0, w), z3.Extract(w - 1, 0, res))
        elif op == "m":
            return z3.If(a[0] == 1, a[1], a[2])
        raise Unsupported(f"operator {op}")

    # ---- sequential semantics ----
    def next_state(self, f):
        st = f.state
        nx = {}
        for i in self.ffs:
            nx[("ff", i)] = f.value(self.nl.cells[i].data)
        wr = {}
        for mi, m in self.mems.items():
            ports = []
            for wi in self.wports[mi]:
                wc = self.nl.cells[wi]
                ports.append((wi, f.value(wc.addr), f.value(wc.data), f.value(wc.en)))
            wr[mi] = ports
            for row in range(m.depth):
                cur = st[("mem", mi, row)]
                for wi, addr, data, en in ports:
                    if addr is None:
                        if row != 0:
                            continue
                        hit = z3.BoolVal(True)
                    elif row >= (1 << addr.size()):
                        continue
                    else:
                        hit = addr == row
                    cur = z3.If(hit, (data & en) | (cur & ~en), cur)
                nx[("mem", mi, row)] = cur
        for i in self.rports:
            rc = self.nl.cells[i]
            mi = rc.memory
            addr = f.value(rc.addr)
            val = self._mem_read(st, mi, addr)
            for wi, waddr, data, en in wr[mi]:
                if wi in rc.transparent_for:
                    if addr is None or waddr is None:
                        same = z3.BoolVal(True)
                    else:
                        ww = max(addr.size(), waddr.size())
                        same = _ext(addr, ww, False) == _ext(waddr, ww, False)
                    # as in amaranth.sim: transparency compares addresses only (also for out-of-range rows)
                    val = z3.If(same, (data & en) | (val & ~en), val)
            nx[("rp", i)] = z3.If(f.net(rc.en) == 1, val, st[("rp", i)])
        return nx

    # ---- helpers ----
    def sig(self, f, signal):
        return f.value(self.nl.signals[signal])

    def ff_signal_map(self):
        """flip-flop cell index -> (Signal, lsb offset within the cell) for replay by forcing registers."""
        out = {}
        for sig, val in self.nl.signals.items():
            if len(val) == 0 or val[0].is_const:
                continue
            c = val[0].cell
            if isinstance(self.nl.cells[c], _nir.FlipFlop):
                if all((not n.is_const) and n.cell == c and n.bit == val[0].bit + k for k, n in enumerate(val)):
                    out.setdefault(c, []).append((sig, val[0].bit))
        return out
