"""Obligations of the core properties (C01-C09, C11) on one generated design.

The real TModule / Method / Transaction / TransactionManager / scheduler code elaborates the design; the netlist
is translated to z3; every obligation is a single-cycle query over all input valuations and all register states
(FSM state registers constrained to declared states, round-robin grant registers to one-hot), so a counterexample is
(register state, inputs) and is replayed on amaranth.sim by forcing the registers.
"""
import itertools
import z3
from amaranth import Const, Value
from transactron.core.manager import TransactionManager
from transactron.core.schedulers import trivial_roundrobin_cc_scheduler, eager_deterministic_cc_scheduler

from .designgen import Design, Oracle
from .harness import Built, HarnessError
from .seq import Unroll
from .util import atmost1, onehot, zx

TRUE = z3.BoolVal(True)
FALSE = z3.BoolVal(False)


def tm_factory(scheduler):
    if scheduler == "rr":
        return lambda: TransactionManager(cc_scheduler=trivial_roundrobin_cc_scheduler)
    return None


class Analysis:
    """Elaborates a spec with the real code; exposes oracle, netlist terms and error (if the code rejected it)."""

    def __init__(self, spec, scheduler="eager", trace_functions=False):
        self.spec = spec
        self.scheduler = scheduler
        holder = []

        def make():
            d = Design(spec)
            holder.append(d)
            return d

        self.err = None
        self.b = None
        try:
            self.b = Built(make, tm=tm_factory(scheduler), trace_functions=trace_functions)
        except HarnessError:
            raise
        except Exception as e:  # the real code rejected the design
            self.err = f"{type(e).__name__}: {str(e).strip().splitlines()[0][:120] if str(e).strip() else ''}"
        self.d = holder[0]
        self.orc = Oracle(self.d)

    def open(self):
        """symbolic frame from any register state."""
        b = self.b
        self.u = Unroll(b, free_init=True)
        self.o = self.u.cycle()
        d = self.d
        self.g = lambda s: self.o.sig(s)
        self.state_assumes = []
        for data, n in d.fsm_states:
            self.state_assumes.append(z3.ULT(zx(self.g(data["signal"]), 8), n))
        self.grant_regs = []
        for sig, lst in b.paths.items():
            if any(name == "grant_reg" for _, name in lst):
                self.grant_regs.append(sig)
        for sig in self.grant_regs:
            self.state_assumes.append(onehot(self.g(sig)))
        orc = self.orc
        self.tkeys = orc.tkeys()
        self.runT = {k: self.g(self.tobj(k)._body.run) == 1 for k in self.tkeys}
        self.runM = [self.g(m._body.run) == 1 for m in d.M]
        self.cond = {s.idx: z3.And(self.lit_formula(s.lits), (self.g(s.en) == 1) if s.en is not None else TRUE) for s in d.sites}
        self.act = {s.idx: z3.And(self.run_of(s.body), self.cond[s.idx]) for s in d.sites}

    def tobj(self, k):
        return self.d.T[k[1]] if k[0] == "t" else self.d.NT[k][0]

    def treq(self, k):
        return self.d.treq[k[1]] if k[0] == "t" else self.d.NT[k][1]

    def run_of(self, b):
        return self.runT[b] if b[0] in ("t", "n") else self.runM[b[1]]

    def lit_formula(self, lits):
        out = []
        g = self.g
        for lit in lits:
            if lit[0] == "p":
                out.append(g(lit[1]) != 0)  # a condition may be wider than one bit: true iff non-zero
            elif lit[0] == "n":
                out.append(g(lit[1]) == 0)
            elif lit[0] == "eq":
                out.append(g(lit[1]) == lit[2])
            elif lit[0] == "ne":
                out.append(g(lit[1]) != lit[2])
            elif lit[0] == "fsm":
                out.append(g(lit[1]["signal"]) == lit[1]["encoding"][lit[2]])
        return z3.And(*out) if out else TRUE

    def mready(self, mi):
        r = self.d.mready[mi]
        base = TRUE if isinstance(r, Const) else self.g(r) == 1
        j = self.spec["methods"][mi].get("ready_on_run")
        return base if j is None else z3.Or(base, self.runM[j])

    def pred(self, mi, arg):
        v = self.spec["methods"][mi]["validate"]
        if v == "nz":
            return arg != 0
        if v == "bit0":
            return z3.Extract(0, 0, arg) == 1
        return TRUE

    def eligible(self, tk):
        """the right-hand side of C03, computed from the spec's inputs only (plus run of ready-dependencies)."""
        orc, sp = self.orc, self.spec
        tree = orc.static_tree(tk)
        terms = [self.g(self.treq(tk)) == 1, self.lit_formula(self.d.body_lits[tk])]
        for mi in tree:
            terms.append(self.mready(mi))
            terms.append(self.lit_formula(self.d.body_lits[("m", mi)]))
        for body in [tk] + [("m", mi) for mi in tree]:
            for dep in orc.ready_deps(body):
                terms.append(self.run_of(dep))
        for ch in orc.chains(tk):
            s = ch[-1]
            if sp["methods"][s.callee]["validate"]:
                chain_cond = z3.And(*[self.cond[x.idx] for x in ch])
                terms.append(z3.Implies(chain_cond, self.pred(s.callee, self.g(s.arg))))
        return z3.And(*terms)


def same_transaction_conflict(an):
    """some add_conflict relates two bodies reachable from one transaction (C02 known-finding shape; oracle ambiguous)."""
    for r in an.spec["relations"]:
        if r[0] == "conflict" and (an.orc.callers(r[1]) & an.orc.callers(r[2])):
            return True
    return False


def check_design(spec, ctx, props, scheduler="eager"):
    """Runs the obligations of the requested properties on one spec. Returns 'rejected' / 'accepted' / 'toobig'."""
    an = Analysis(spec, scheduler, trace_functions=(getattr(ctx, "index", 1) == 0))
    if an.b is not None and an.b.functions:
        ctx.functions = an.b.functions
    orc = an.orc
    try:
        ill = orc.ill_formed()
    except OverflowError:
        ctx.notes["toobig"] = ctx.notes.get("toobig", 0) + 1
        return "toobig"
    if getattr(orc, "ambiguous", None) and ill is None:
        ctx.notes["skipped_ambiguous"] = ctx.notes.get("skipped_ambiguous", 0) + 1
        return "ambiguous"
    if "C11" in props:
        agree = (an.err is None) == (ill is None)
        ctx._record(f"C11 accept/reject agreement (oracle: {ill or 'well-formed'}; code: {an.err or 'accepted'})", "obligation", "unsat" if agree else "sat", 0.0)
        if not agree:
            # confirm by elaborating once more from scratch
            an2 = Analysis(spec, scheduler)
            if (an2.err is None) != (ill is None):
                ctx.violation("C11 accept/reject disagreement", dict(oracle=ill or "well-formed", code=an.err or "accepted"),
                              "re-elaborated from scratch with the same outcome")
            else:
                ctx.errors.append(f"C11: non-deterministic elaboration outcome for {spec}")
        ctx.notes["rejected" if ill else "accepted"] = ctx.notes.get("rejected" if ill else "accepted", 0) + 1
        if ill:
            ctx.notes["rejected: " + ill] = ctx.notes.get("rejected: " + ill, 0) + 1
    if an.err is None and ill == "double call" and "C01" in props:
        # the oracle expects a rejection (an exclusive method reached twice on non-exclusive paths), the code accepted the design:
        # whether that is right is C11's business, but C01's per-cycle clause must hold on whatever hardware was built
        an.open()
        ctx.frames += 1
        ctx.notes["accepted_although_double_call"] = ctx.notes.get("accepted_although_double_call", 0) + 1
        for mi, ms in enumerate(an.spec["methods"]):
            acts = [an.act[s.idx] for s in orc.sites_of.get(mi, [])]
            if not ms["nonexcl"] and len(acts) > 1:
                ctx.prove(f"C01 exclusive method {ms['name']} serves at most one active call ({len(acts)} call sites; design accepted although the "
                          f"method is reached twice)", an.state_assumes, atmost1(acts), an.u)
        return "accepted-ill"
    if an.err is not None or ill is not None:
        if "C11" not in props:
            ctx.notes["rejected"] = ctx.notes.get("rejected", 0) + 1
        return "rejected"
    if props == {"C11"}:
        return "accepted"
    an.open()
    d, sp, g, u = an.d, an.spec, an.g, an.u
    A = an.state_assumes
    tkeys = an.tkeys
    runT, runM, act = an.runT, an.runM, an.act
    ctx.frames += 1
    same_tr = same_transaction_conflict(an)

    def prove(name, p, detail=None):
        return ctx.prove(name, A, p, u, detail=detail)

    # vacuity: every transaction can run, every call site can be active
    if ctx.tier != "replay":
        # vacuity: a design in which no transaction can ever run (e.g. it needs two methods defined in different
        # alternatives of one If/Else) says nothing; it is counted and skipped, not an error
        sw = z3.SolverFor("QF_BV")
        sw.add(*A, z3.Or(*runT.values()))
        alive = str(sw.check())
        ctx._record("some transaction runs", "witness", "sat" if alive == "sat" else "sat (skipped: no transaction can run)" if False else alive, 0.0)
        if alive != "sat":
            ctx.queries.pop()
            ctx.notes["designs_where_no_transaction_can_run"] = ctx.notes.get("designs_where_no_transaction_can_run", 0) + 1
            return "dead"

    elig = {tk: an.eligible(tk) for tk in tkeys}

    def confl_of(ti):
        return [tj for tj in tkeys if tj != ti and orc.conflict(ti, tj)]

    for mi, ms in enumerate(sp["methods"]):
        sites = orc.sites_of.get(mi, [])
        acts = [act[s.idx] for s in sites]
        if "C01" in props and not ms["nonexcl"] and len(acts) > 1:
            prove(f"C01 exclusive method {ms['name']} serves at most one active call ({len(acts)} call sites)", atmost1(acts))
        if "C04" in props:
            prove(f"C04 method {ms['name']} runs iff one of its {len(acts)} call sites is active", runM[mi] == (z3.Or(*acts) if acts else FALSE))
        if "C05" in props:
            din = g(Value.cast(d.M[mi]._body.data_in)) if ms["iw"] else None
            if ms["iw"] and not ms["nonexcl"]:
                for s in sites:
                    prove(f"C05 exclusive {ms['name']} sees the argument of its active call site {s.idx}", z3.Implies(act[s.idx], din == g(s.arg)))
            if ms["iw"] and ms["nonexcl"] and ms.get("combiner"):
                acc = z3.BitVecVal(0, ms["iw"])
                for s in sites:
                    arg_s = g(s.arg) + 1 if ms["combiner"] == "sumcnt" else g(s.arg)
                    term = z3.If(act[s.idx], arg_s, z3.BitVecVal(0, ms["iw"]))
                    acc = (acc | term) if ms["combiner"] == "or" else (acc + term)
                prove(f"C05 nonexclusive {ms['name']} sees {ms['combiner']}-combination of exactly its active calls", z3.Implies(runM[mi], din == acc))
            if ms["ow"]:
                for s in sites:
                    prove(f"C05 call site {s.idx} receives the output of {ms['name']} of this cycle", g(s.res) == z3.If(act[s.idx], g(d.mout[mi]), 0))
    if "C04" in props:
        for tk in tkeys:
            if tk[0] == "n":
                prove(f"C04 nested transaction {tk} runs only with its enclosing body", z3.Implies(runT[tk], runT[("t", tk[1])]))
        for mi, ms in enumerate(sp["methods"]):
            if ms.get("nested_in") is not None:
                prove(f"C04 nested method {ms['name']} runs only with its enclosing body", z3.Implies(runM[mi], runT[("t", ms["nested_in"][0])]))
    if "C03" in props:
        for tk in tkeys:
            prove(f"C03 transaction {tk} runs only when fully enabled", z3.Implies(runT[tk], elig[tk]))
    if "C01" in props:
        for ti, tj in itertools.combinations(tkeys, 2):
            if orc.implicit_conflict(ti, tj):
                prove(f"C01 transactions {ti},{tj} reaching a common exclusive method never run together", z3.Not(z3.And(runT[ti], runT[tj])))
    if "C02" in props:
        for r in sp["relations"]:
            if r[0] != "conflict":
                continue
            a, b = tuple(r[1]), tuple(r[2])
            ra, rb = an.run_of(a), an.run_of(b)
            ca, cb = orc.callers(a), orc.callers(b)

            def detail(m, ca=ca, cb=cb, a=a, b=b):
                rt = [tk for tk in tkeys if z3.is_true(m.eval(runT[tk], model_completion=True))]
                ra_ = [t for t in rt if t in ca]
                rb_ = [t for t in rt if t in cb]
                single = len(ra_) == 1 and ra_ == rb_
                return {"class": "single common running caller" if single else "distinct running callers",
                        "running": [list(t) for t in rt], "conflict": [list(a), list(b), r[3]]}

            if ca and cb:
                ctx.refute(f"C02 add_conflict({a},{b},{r[3]}): never both running", A + [ra, rb], u, detail)
    if "C06" in props:
        u.advance()
        o2 = u.cycle()
        for k, w in enumerate(d.wits):
            runs = z3.And(*[an.run_of(b) for b in w.bodies]) if w.bodies else TRUE
            conds = an.lit_formula(w.lits)
            prove(f"C06 comb statement #{k} takes effect iff enclosing bodies run and conditions hold", (g(w.comb) == 1) == z3.And(runs, conds))
            prove(f"C06 av_comb statement #{k} takes effect iff enclosing conditions hold (regardless of run)", (g(w.av) == 1) == conds)
            prove(f"C06 top_comb statement #{k} always takes effect", g(w.top) == 1)
            prove(f"C06 sync statement #{k} takes effect iff enclosing bodies run and conditions hold", (o2.sig(w.sync) != g(w.sync)) == z3.And(runs, conds))
    if "C07" in props and scheduler == "eager" and not same_tr:
        for ti in tkeys:
            confl = confl_of(ti)
            prove(f"C07 fully enabled transaction {ti} that does not run has a running conflicting transaction ({len(confl)} conflicts)",
                  z3.Implies(z3.And(elig[ti], z3.Not(runT[ti])), z3.Or(*[runT[j] for j in confl]) if confl else FALSE))
    if "C08" in props and scheduler == "eager" and not same_tr:
        for rel in sp["relations"]:
            if rel[0] == "conflict" and rel[3] in ("L", "R"):
                a, b = tuple(rel[1]), tuple(rel[2])
                hi, lo = (a, b) if rel[3] == "L" else (b, a)
                for th in sorted(orc.callers(hi)):
                    for tl in sorted(orc.callers(lo)):
                        if th == tl or not orc.conflict(th, tl):
                            continue
                        others = [t for t in confl_of(th) if t != tl]
                        prove(f"C08 {th} has priority over {tl}: the lower side runs only if the higher side is blocked by another running conflict",
                              z3.Implies(z3.And(elig[th], elig[tl], runT[tl]), z3.Or(*[runT[t] for t in others]) if others else FALSE))
                        ctx.notes["prioritised_pairs"] = ctx.notes.get("prioritised_pairs", 0) + 1
            if rel[0] == "before":
                a, b = tuple(rel[1]), tuple(rel[2])
                for ta in sorted(orc.callers(a)):
                    for tb in sorted(orc.callers(b)):
                        if ta == tb or orc.conflict(ta, tb):
                            continue
                        for x in (ta, tb):
                            confl = confl_of(x)
                            prove(f"C08 schedule_before({a},{b}) never blocks {x}",
                                  z3.Implies(z3.And(elig[ta], elig[tb], z3.Not(runT[x])), z3.Or(*[runT[j] for j in confl]) if confl else FALSE))
                        ctx.notes["schedule_before_pairs"] = ctx.notes.get("schedule_before_pairs", 0) + 1
    if "C09" in props and scheduler == "rr":
        check_rr(an, ctx, elig)
    return "accepted"


def components(an):
    tkeys = an.tkeys
    parent = {t: t for t in tkeys}

    def find(x):
        while parent[x] != x:
            parent[x] = parent[parent[x]]
            x = parent[x]
        return x

    for a, b in itertools.combinations(tkeys, 2):
        if an.orc.conflict(a, b):
            parent[find(a)] = find(b)
    comps = {}
    for t in tkeys:
        comps.setdefault(find(t), []).append(t)
    return list(comps.values())


def check_rr(an, ctx, elig):
    """C09 on one design elaborated with trivial_roundrobin_cc_scheduler."""
    u, A, g = an.u, an.state_assumes, an.g
    runT = an.runT
    orc = an.orc
    # designs with ready dependencies inside a component or an ambiguous oracle are outside the quantifier
    if same_transaction_conflict(an):
        ctx.notes["c09_skipped_ambiguous"] = ctx.notes.get("c09_skipped_ambiguous", 0) + 1
        return
    comps = components(an)
    for cc in comps:
        for tk in cc:
            for body in orc.bodies_of(tk):
                for dep in orc.ready_deps(body):
                    if dep in cc:
                        ctx.notes["c09_skipped_readydep"] = ctx.notes.get("c09_skipped_readydep", 0) + 1
                        return
    # invariant: grant registers stay one-hot
    u.advance()
    o2 = u.cycle()
    for sig in an.grant_regs:
        ctx.prove("C09 arbiter register stays one-hot (inductive step)", A, onehot(o2.sig(sig)), u)
    u0 = Unroll(an.b)
    o0 = u0.cycle()
    for sig in an.grant_regs:
        ctx.prove("C09 arbiter register one-hot after reset", [], onehot(o0.sig(sig)), u0)
    for cc in comps:
        runs = [runT[t] for t in cc]
        ctx.prove(f"C09 at most one transaction of component {cc} runs", A, atmost1(runs), u)
        ctx.prove(f"C09 some transaction of component {cc} runs whenever one is fully enabled", A,
                  z3.Implies(z3.Or(*[elig[t] for t in cc]), z3.Or(*runs)), u)
    # fairness: BMC(|cc|) from any one-hot state with T continuously enabled
    for cc in comps:
        n = len(cc)
        if n < 2:
            continue
        for tk in cc:
            uf = Unroll(an.b, free_init=True, tag="f")
            pre = []
            got = []
            for t in range(n):
                of = uf.cycle()
                an2 = _Reframe(an, of)
                if t == 0:
                    pre += [onehot(of.sig(s)) for s in an.grant_regs]
                    pre += [z3.ULT(zx(of.sig(data["signal"]), 8), k) for data, k in an.d.fsm_states]
                pre.append(an2.eligible(tk))
                got.append(of.sig(an.tobj(tk)._body.run) == 1)
                uf.advance()
            ctx.frames += n
            ctx.steps += n
            ctx.refute(f"C09 {tk} stays fully enabled for {n} cycles (component size) and is granted in one of them", pre + [z3.Not(z3.Or(*got))], uf)


class _Reframe(Analysis):
    """the same analysis evaluated on another frame (for multi-cycle obligations)."""

    def __init__(self, an, o):
        self.__dict__.update(an.__dict__)
        self.o = o
        self.g = lambda s: o.sig(s)
        self.runT = {k: self.g(self.tobj(k)._body.run) == 1 for k in self.tkeys}
        self.runM = [self.g(m._body.run) == 1 for m in self.d.M]
        self.cond = {s.idx: z3.And(self.lit_formula(s.lits), (self.g(s.en) == 1) if s.en is not None else TRUE) for s in self.d.sites}
