"""Driver: ./check <ID> quick|thorough|canaries [--replay file]

Runs the property's spec module over its configurations in a process pool, aggregates solver verdicts,
replays counterexamples, matches known findings, writes evidence and prints VIOLATION / KNOWN-FINDING lines.
"""
import concurrent.futures as cf
import hashlib
import importlib
import json
import os
import sys
import time
import traceback

VERIF = os.path.dirname(os.path.dirname(os.path.abspath(__file__)))
EXIT_OK, EXIT_VIOLATION, EXIT_HARNESS = 0, 1, 3


def load_spec(prop):
    return importlib.import_module(f"vf.specs.{prop.lower()}")


def _worker(args):
    prop, tier, seed, cfg, idx = args
    from vf.seq import Ctx
    from vf.harness import HarnessError
    from vf.nir2smt import Unsupported

    spec = load_spec(prop)
    if os.environ.get("VERIF_CANARY"):
        from vf.canary import apply_from_env

        apply_from_env(spec)
    ctx = Ctx(prop, cfg, tier, seed, timeout_s=getattr(spec, "QUERY_TIMEOUT_S", 180.0 if tier == "quick" else 900.0))
    ctx.index = idx
    t0 = time.time()
    try:
        spec.run(cfg, ctx)
    except (HarnessError, Unsupported) as e:
        ctx.errors.append(f"{type(e).__name__}: {e} (cfg {cfg})")
    except BaseException as e:  # noqa
        ctx.errors.append(f"exception in harness for cfg {cfg}: {type(e).__name__}: {e}\n" + traceback.format_exc()[-1500:])
    r = ctx.result()
    r["wall"] = time.time() - t0
    return r


def load_known(prop):
    p = os.path.join(VERIF, "known_findings.json")
    if not os.path.exists(p):
        return []
    with open(p) as f:
        data = json.load(f)
    return [e for e in data.get("findings", []) if e.get("property") == prop]


def matches(entry, v):
    """A known entry matches a violation by the concrete shape of the failing case."""
    m = entry.get("match", {})
    if "class" in m and v.get("class") != m["class"]:
        return False
    if "name_contains" in m and m["name_contains"] not in v.get("name", ""):
        return False
    for k, val in m.get("cfg", {}).items():
        if v.get("cfg", {}).get(k) != val:
            return False
    return bool(m)


def main(argv):
    if len(argv) < 2:
        print("usage: check <ID> quick|thorough|canaries [--replay file]")
        return 2
    prop = argv[0].upper()
    tier = argv[1]
    if tier == "--replay":
        tier = "replay"
    seed = int(os.environ.get("VERIF_SEED", "0") or 0)
    spec = load_spec(prop)
    t0 = time.time()

    if tier == "canaries":
        from vf.canary import run_canaries

        return run_canaries(prop, spec, seed)

    if tier == "replay":
        with open(argv[2]) as f:
            rep = json.load(f)
        cfgs = [rep["cfg"]]
        tier_eff = rep.get("tier", "quick")
    else:
        if tier not in ("quick", "thorough"):
            print("tier must be quick or thorough")
            return 2
        cfgs = spec.configs(tier, seed)
        tier_eff = tier
    jobs = int(os.environ.get("VERIF_JOBS", "0") or 0) or min(16, os.cpu_count() or 1)
    work = [(prop, tier_eff, seed, c, i) for i, c in enumerate(cfgs)]
    results = []
    if jobs == 1 or len(work) == 1:
        results = [_worker(w) for w in work]
    else:
        chunk = max(1, min(8, len(work) // (jobs * 4)))
        with cf.ProcessPoolExecutor(max_workers=jobs) as ex:
            results = list(ex.map(_worker, work, chunksize=chunk))

    queries = [dict(q, cfg=r["cfg"]) for r in results for q in r["queries"]]
    violations = [v for r in results for v in r["violations"]]
    errors = [e for r in results for e in r["errors"]]
    obligations = [q for q in queries if q["kind"] == "obligation"]
    witnesses = [q for q in queries if q["kind"] == "witness"]
    unknown = [q for q in queries if q["verdict"] not in ("sat", "unsat")]
    discharged = [q for q in obligations if q["verdict"] == "unsat"]
    known = [e for e in load_known(prop) if e.get("status") == "known"]
    classify = getattr(spec, "classify", None)
    rdir = os.environ.get("VERIF_REPLAY_DIR") or os.path.join(VERIF, "replays")
    os.makedirs(rdir, exist_ok=True)
    new_viol = []
    known_hits = {}
    for v in violations:
        if classify:
            v["class"] = classify(v)
        hit = next((e for e in known if matches(e, v)), None)
        if hit is not None:
            known_hits.setdefault(hit["what"], []).append(v)
            continue
        h = hashlib.sha1(json.dumps(v, sort_keys=True, default=str).encode()).hexdigest()[:10]
        path = os.path.join(rdir, f"{prop}-{h}.json")
        with open(path, "w") as f:
            json.dump(dict(property=prop, tier=tier_eff, seed=seed, **v), f, indent=1, default=str)
        new_viol.append((v, path))
    for what, vs in known_hits.items():
        print(f"KNOWN-FINDING: property={prop} {what} ({len(vs)} instance(s) in this run)")
    for v, path in new_viol[:20]:
        print(f"VIOLATION property={prop} replay={path}")
        print(f"  {v['name']} cfg={json.dumps(v['cfg'], default=str)[:300]} detail={str(v.get('detail'))[:300]}")
    if len(new_viol) > 20:
        print(f"  ... and {len(new_viol) - 20} more violations")
    for e in errors[:10]:
        print("HARNESS-ERROR:", e[:1500])
    for q in unknown[:10]:
        print("INCONCLUSIVE:", q["name"], q["verdict"], json.dumps(q["cfg"], default=str)[:200])

    wall = time.time() - t0
    if tier != "replay" and not os.environ.get("VERIF_NO_EVIDENCE"):
        write_evidence(prop, spec, tier, seed, results, queries, obligations, discharged, witnesses, unknown, violations,
                       new_viol, known_hits, errors, wall, len(cfgs))
    nviol = len(new_viol)
    print(f"{prop} {tier}: configs={len(cfgs)} obligations={len(obligations)} discharged={len(discharged)} "
          f"witnesses={sum(1 for w in witnesses if w['verdict'] == 'sat')}/{len(witnesses)} unknown={len(unknown)} "
          f"violations={nviol} known={sum(len(v) for v in known_hits.values())} errors={len(errors)} wall={wall:.1f}s")
    if nviol:
        return EXIT_VIOLATION
    if errors:
        return EXIT_HARNESS
    return EXIT_OK


def write_evidence(prop, spec, tier, seed, results, queries, obligations, discharged, witnesses, unknown, violations, new_viol,
                   known_hits, errors, wall, ncfg):
    level = spec.LEVEL
    funcs = set()
    for r in results:
        for f in r.get("functions") or []:
            funcs.add(f)
    for f in getattr(spec, "FUNCTIONS", []):
        funcs.add(f)
    cfg_ok_wit = set()
    for r in results:
        ws = [q for q in r["queries"] if q["kind"] == "witness"]
        if all(w["verdict"] == "sat" for w in ws):
            cfg_ok_wit.add(json.dumps(r["cfg"], sort_keys=True, default=str))
    distinct = set()
    for q in obligations:
        k = json.dumps(q["cfg"], sort_keys=True, default=str)
        if k in cfg_ok_wit and q["verdict"] in ("unsat", "sat"):
            distinct.add((k, q["name"]))
    samples = []
    step = max(1, len(queries) // 6)
    for q in queries[::step][:6]:
        samples.append(dict(query=q["name"], kind=q["kind"], verdict=q["verdict"], solver_s=q["time_s"], config=q["cfg"]))
    if new_viol:
        samples.append(dict(violation=new_viol[0][0]["name"], config=new_viol[0][0]["cfg"]))
    frames = sum(r.get("frames", 0) for r in results)
    steps = sum(r.get("steps", 0) for r in results)
    cos_tr = sum(r.get("cosim_traces", 0) for r in results)
    cos_pts = sum(r.get("cosim_points", 0) for r in results)
    replayed = sum(1 for v in violations if v.get("trace") is not None)
    notes = {}
    for r in results:
        for k, v in (r.get("notes") or {}).items():
            if isinstance(v, (int, float)):
                notes[k] = notes.get(k, 0) + v
            else:
                notes.setdefault(k, v)
    nknown = sum(len(v) for v in known_hits.values())
    cov = dict(
        evaluations=len(queries),
        distinct_nontrivial=len(distinct),
        rule="one evaluation = one SMT query (obligation or vacuity witness) on the netlist / symbolic execution of the real "
             "code for one configuration; distinct & non-trivial = distinct (configuration, obligation) pairs that were decided "
             "(sat/unsat) in a configuration all of whose reachability witnesses were sat",
        samples=samples,
        obligations=len(obligations) - nknown,
        discharged=len(discharged),
        obligations_violated_by_known_findings=nknown,
        inconclusive=len(unknown),
        witnesses=len(witnesses),
        witnesses_sat=sum(1 for w in witnesses if w["verdict"] == "sat"),
        configurations=ncfg,
        checker_cmd=f"./check {prop} {tier}",
        trusted_base=getattr(spec, "TRUSTED", ["Amaranth 0.5 elaboration and NIR netlist construction", "vf/nir2smt.py translator (co-simulated against amaranth.sim)", "z3 5.1.0"]),
        functions_encoded=sorted(funcs)[:400],
        bounds=spec.BOUNDS.get(tier) if isinstance(spec.BOUNDS, dict) else spec.BOUNDS,
        outside_bounds=getattr(spec, "OUTSIDE", []),
        stubs_and_assumes=getattr(spec, "ASSUMES", []),
        solver="z3 " + __import__("z3").get_version_string() + " QF_BV, fresh solver per query",
        solver_time_s=round(sum(r.get("solver_time", 0) for r in results), 3),
        known_findings_matched={k: len(v) for k, v in known_hits.items()},
        harness_errors=len(errors),
        exhaustive=False,
        explanation=getattr(spec, "EXPLANATION", spec.__doc__ or ""),
    )
    if level == "model_checking":
        cov.update(states=max(frames, 1), transitions=max(steps, 1), traces_validated_against_impl=cos_tr + replayed,
                   states_note="states = symbolic frames of the unrollings (each frame denotes every state reachable at that depth / "
                               "every state satisfying the invariant); transitions = unrolled transition-relation steps; validated traces "
                               "= random traces co-simulated on amaranth.sim against the encoding + replayed counterexamples",
                   cosim_signal_samples=cos_pts)
    if level == "translation_validation":
        cov.update(programs=ncfg, disagreements_checked=len(violations))
    cov.update(notes)
    ev = dict(property_id=prop, tier=tier, seed=seed, level=level, coverage=cov, assumptions=getattr(spec, "ASSUMES", []),
              wall_s=round(wall, 2), violations=len(new_viol))
    os.makedirs(os.path.join(VERIF, "evidence"), exist_ok=True)
    with open(os.path.join(VERIF, "evidence", f"{prop}.json"), "w") as f:
        json.dump(ev, f, indent=1, default=str)


if __name__ == "__main__":
    sys.exit(main(sys.argv[1:]))
