"""Sensitivity canaries: realistic one-token mutants applied by monkey-patching the imported module inside a
subprocess (never by editing /repo).  `./check <ID> canaries` must report every canary as caught."""
import os
import subprocess
import sys
import tempfile

VERIF = os.path.dirname(os.path.dirname(os.path.abspath(__file__)))


_applied = False


def apply_from_env(spec):
    global _applied
    idx = os.environ.get("VERIF_CANARY")
    if idx is None or idx == "" or _applied:
        return
    _applied = True  # once per worker process
    name, patch = spec.CANARIES[int(idx)]
    patch()


def run_canaries(prop, spec, seed):
    cans = getattr(spec, "CANARIES", [])
    if not cans:
        print(f"{prop}: no canaries defined")
        return 0
    missed = 0
    for i, (name, _) in enumerate(cans):
        with tempfile.TemporaryDirectory(prefix="verif_canary_") as td:
            env = dict(os.environ, VERIF_CANARY=str(i), VERIF_NO_EVIDENCE="1", VERIF_REPLAY_DIR=td)
            p = subprocess.run([sys.executable, "-W", "ignore", "-m", "vf.main", prop, "quick"], cwd=VERIF, env=env, capture_output=True, text=True)
        caught = p.returncode == 1 and "VIOLATION property=" in p.stdout
        print(f"CANARY {'caught' if caught else 'MISSED'}: {prop} #{i} {name} (exit {p.returncode})")
        if not caught:
            missed += 1
            print("   " + "\n   ".join(p.stdout.strip().splitlines()[-5:]))
    print(f"{prop} canaries: {len(cans) - missed}/{len(cans)} caught")
    return 0 if missed == 0 else 3
