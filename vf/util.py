"""Small helpers shared by the checks."""
import sys
import os
import z3

def _repo_root():
    import transactron

    return os.path.dirname(os.path.dirname(os.path.abspath(transactron.__file__)))


REPO = _repo_root()


class FunctionTracer:
    """Records which functions of /repo/transactron run (used to list the code that produced a netlist)."""

    def __init__(self, root=None):
        self.root = os.path.join(REPO, "transactron") if root is None else root
        self.seen = set()

    def _prof(self, frame, event, arg):
        if event == "call":
            co = frame.f_code
            fn = co.co_filename
            if fn.startswith(self.root):
                self.seen.add((fn[len(REPO) + 1:], co.co_qualname))

    def __enter__(self):
        self._old = sys.getprofile()
        sys.setprofile(self._prof)
        return self

    def __exit__(self, *a):
        sys.setprofile(self._old)

    def result(self):
        return sorted(f"{f}:{q}" for f, q in self.seen)


def zx(x, w):
    return z3.ZeroExt(w - x.size(), x) if x.size() < w else x


def sx(x, w):
    return z3.SignExt(w - x.size(), x) if x.size() < w else x


def b2i(c, w=8):
    return z3.If(c, z3.BitVecVal(1, w), z3.BitVecVal(0, w))


def bit(x, i):
    return z3.Extract(i, i, x) == 1


def sel(lst, idx):
    """lst[idx] for a symbolic idx (out of range -> lst[0])."""
    r = lst[0]
    for i in range(1, len(lst)):
        r = z3.If(idx == i, lst[i], r)
    return r


def popcount(x, w=8):
    return sum((zx(z3.Extract(i, i, x), w) for i in range(x.size())), z3.BitVecVal(0, w))


def onehot(x):
    return z3.And(x != 0, (x & (x - 1)) == 0)


def atmost1(bools):
    bools = list(bools)
    return z3.And(*[z3.Not(z3.And(a, b)) for i, a in enumerate(bools) for b in bools[:i]]) if len(bools) > 1 else z3.BoolVal(True)


def slices(x, n, w):
    """split x into n fields of width w (LSB first)."""
    return [z3.Extract((i + 1) * w - 1, i * w, x) for i in range(n)]
