"""Harness construction: wrap real transactron components with adapters, elaborate, netlist, TS, pysim."""
import warnings
import z3
from amaranth import Elaboratable, Module, Signal, Value
from amaranth.hdl import Fragment
from amaranth.hdl._ir import build_netlist
from amaranth.sim import Simulator

warnings.simplefilter("ignore")

from transactron.core.context import TransactronContextElaboratable  # noqa: E402
from transactron.lib import AdapterTrans, Adapter  # noqa: E402
from transactron.utils.dependencies import DependencyContext, DependencyManager  # noqa: E402

from .nir2smt import TS, Unsupported  # noqa: E402


class HarnessError(Exception):
    """Something in the machinery (not in the code under test) went wrong: exit 3, never a verdict."""


class Harness(Elaboratable):
    """dut + AdapterTrans per provided method + pre-built Adapter mocks for required methods.

    provided: dict name -> Method (gets AdapterTrans.create)
    mocks:    dict name -> Adapter instance already handed to the dut as a required method
    inputs:   dict name -> Signal: raw input pins (must be undriven inside the design)
    observe:  callable(dut) -> dict name -> Signal, evaluated after elaboration (internal signals)
    """

    def __init__(self, dut, provided=None, mocks=None, inputs=None, observe=None, subs=None):
        self.dut = dut
        self.ad = {}
        self.kind = {}
        for name, meth in (provided or {}).items():
            self.ad[name] = AdapterTrans.create(meth)
            self.kind[name] = "trans"
        for name, a in (mocks or {}).items():
            self.ad[name] = a
            self.kind[name] = "mock"
        self.inputs = dict(inputs or {})
        self.observe = observe
        self.subs = dict(subs or {})

    def elaborate(self, platform):
        m = Module()
        # keeps the sync domain present so that amaranth.sim can clock purely combinational designs on replay
        keep = Signal(name="_keep_sync")
        m.d.sync += keep.eq(1)
        if self.dut is not None:
            m.submodules.dut = self.dut
        for n, a in self.ad.items():
            m.submodules["ad_" + n] = a
        for n, s in self.subs.items():
            m.submodules["sub_" + n] = s
        return m

    def named_signals(self):
        out = {}
        for n, a in self.ad.items():
            out[f"{n}.en"] = a.en
            out[f"{n}.done"] = a.done
            if len(Value.cast(a.data_in)):
                out[f"{n}.in"] = Value.cast(a.data_in)
            if len(Value.cast(a.data_out)):
                out[f"{n}.out"] = Value.cast(a.data_out)
        for n, s in self.inputs.items():
            out[n] = Value.cast(s)
        if self.observe is not None:
            for n, s in self.observe(self.dut).items():
                out[n] = Value.cast(s)
        return out

    def input_signals(self):
        """signals that must be top-level input ports (free per cycle)."""
        out = {}
        for n, a in self.ad.items():
            out[f"{n}.en"] = a.en
            if len(Value.cast(a.data_in)):
                out[f"{n}.in"] = Value.cast(a.data_in)
        for n, s in self.inputs.items():
            if len(Value.cast(s)):
                out[n] = Value.cast(s)
        return out


def design_paths(design):
    """Signal -> list of (hierarchy tuple, local name), deepest fragments first."""
    from amaranth.hdl._ast import SignalDict

    out = SignalDict()
    for frag, info in design.fragments.items():
        for sig, name in info.signal_names.items():
            out.setdefault(sig, []).append((tuple(info.name), name))
    for sig in out:
        out[sig].sort(key=lambda k: -len(k[0]))
    return out


def design_memories(design):
    """(hierarchy tuple) -> MemoryData for every memory instance of the design."""
    from amaranth.hdl._mem import MemoryInstance

    out = {}
    for frag, info in design.fragments.items():
        if isinstance(frag, MemoryInstance):
            out[tuple(info.name)] = frag._data
    return out


def _set_row(ctx, memdata, row, val):
    """forces one row of a MemoryData from its bit pattern (structured shapes need a constant of the shape, not an int)."""
    from amaranth.hdl import ShapeCastable, Shape

    shape = memdata.shape
    if isinstance(shape, ShapeCastable):
        val = shape.from_bits(val)
    else:
        sh = Shape.cast(shape)
        if sh.signed and val >= (1 << (sh.width - 1)):
            val -= 1 << sh.width
    ctx.set(memdata[row], val)


def path_key(paths, sig):
    """Stable textual key of a Signal: its hierarchical name in the deepest fragment that names it."""
    lst = paths.get(sig)
    if not lst:
        return None
    hier, name = lst[0]
    return "@" + "/".join(hier) + ":" + name


def path_index(design):
    """key -> Signal for every (fragment, signal name) of a design."""
    out = {}
    for frag, info in design.fragments.items():
        for sig, name in info.signal_names.items():
            out["@" + "/".join(info.name) + ":" + name] = sig
    return out


class Built:
    """An elaborated harness with its netlist and transition system."""

    def __init__(self, make, deps=(), wrap=True, trace_functions=False, tm=None):
        self.make = make
        self.deps = list(deps)
        self.wrap = wrap
        self.tm = tm  # optional zero-argument factory of a TransactionManager (e.g. with another scheduler)
        self.functions = None
        self.dm = DependencyManager()
        with DependencyContext(self.dm):
            for k, v in self.deps:
                self.dm.add_dependency(k, v)
            self.h = make()
            if wrap:
                self.top = TransactronContextElaboratable(self.h, dependency_manager=self.dm, transaction_manager=tm() if tm else None)
            else:
                self.top = self.h
            if trace_functions:
                from .util import FunctionTracer

                with FunctionTracer() as tr:
                    frag = Fragment.get(self.top, None)
                self.functions = tr.result()
            else:
                frag = Fragment.get(self.top, None)
            self.frag = frag
            self.names = self.h.named_signals()
            ins = self.h.input_signals()
            self.in_names = list(ins)
            ports = []
            self.port_of = {}
            seen = {}
            for i, (n, s) in enumerate(ins.items()):
                if id(s) in seen:
                    self.port_of[n] = seen[id(s)]
                    continue
                pn = f"p{i}"
                seen[id(s)] = pn
                self.port_of[n] = pn
                ports.append((pn, s, None))
            self.design = frag.prepare(ports=ports, hierarchy=("top",))
            self.nl = build_netlist(self.design)
        self.ts = TS(self.nl)
        self.paths = design_paths(self.design)
        for n, pn in self.port_of.items():
            if pn not in self.ts.in_ports:
                raise HarnessError(f"signal {n} is not an input of the elaborated design (driven inside?)")
        self.name_of_port = {}
        for n, pn in self.port_of.items():
            self.name_of_port.setdefault(pn, n)

    def key_of(self, name):
        """harness name or Signal -> (key, Signal)."""
        if isinstance(name, str):
            return name, self.names[name]
        sig = Value.cast(name)
        for n, s in self.names.items():
            if s is sig:
                return n, sig
        k = path_key(self.paths, sig)
        if k is None:
            raise HarnessError(f"signal {name!r} is not part of the elaborated design")
        return k, sig

    def term(self, frame, sig):
        try:
            nets = self.nl.signals[sig]
        except KeyError:
            raise HarnessError(f"signal {sig!r} is not part of the netlist")
        return frame.value(nets)

    def state_keys_for_replay(self):
        """state element -> replay key: ('sig', key, lsb, width) or ('mem', hier, row) ; None if unmappable."""
        out = {}
        ffmap = self.ts.ff_signal_map()
        from amaranth.hdl import _nir

        for k in self.ts.state_keys():
            if k[0] in ("ff", "rp"):
                lst = ffmap.get(k[1]) if k[0] == "ff" else None
                if k[0] == "rp":
                    lst = [
                        (sig, val[0].bit)
                        for sig, val in self.nl.signals.items()
                        if len(val) and not val[0].is_const and val[0].cell == k[1]
                    ]
                ent = []
                for sig, lsb in lst or []:
                    pk = path_key(self.paths, sig)
                    if pk is not None:
                        ent.append(("sig", pk, lsb, len(sig)))
                out[k] = ent
            else:
                cell = self.ts.mems[k[1]]
                hier = tuple(self.nl.modules[cell.module_idx].name) + (cell.name,)
                out[k] = [("mem", "/".join(hier), k[2])]
        return out


class Obs:
    """Accessor for one frame; every access is recorded (by key) for replay comparison."""

    def __init__(self, built, frame, t, used):
        self.b, self.f, self.t, self.used = built, frame, t, used
        self.h = built.h

    def sig(self, name):
        key, sig = self.b.key_of(name)
        self.used[key] = sig
        return self.b.term(self.f, sig)

    def bool(self, name):
        return self.sig(name) == 1

    def en(self, n):
        return self.sig(f"{n}.en") == 1

    def done(self, n):
        return self.sig(f"{n}.done") == 1

    @staticmethod
    def fld(whole, view, field):
        if field is None:
            return whole
        lay = view.shape()
        if not isinstance(field, (tuple, list)):
            field = (field,)
        off = 0
        width = None
        for fname in field:
            fl = lay[fname]
            off += fl.offset
            lay = fl.shape
            width = fl.width
        return z3.Extract(off + width - 1, off, whole)

    def arg(self, n, field=None):
        """data_in of adapter n (what the caller passes / what the mock returns)."""
        return self.fld(self.sig(f"{n}.in"), self.h.ad[n].data_in, field)

    def out(self, n, field=None):
        """data_out of adapter n (the method's result / the arguments the mock received)."""
        return self.fld(self.sig(f"{n}.out"), self.h.ad[n].data_out, field)


def simulate(make, deps, wrap, trace, watch, force=None, tm=None):
    """Run Amaranth's Python simulator on a FRESH elaboration of the real code.

    trace: list over cycles of {harness input name: int}; watch: list of keys (harness names or path keys).
    force: optional list of (('sig', key, lsb, width) | ('mem', hier, row), value) applied before cycle 0.
    Returns list over cycles of {key: int} sampled after the inputs of that cycle have settled.
    """
    dm = DependencyManager()
    out = []
    with DependencyContext(dm):
        for k, v in deps:
            dm.add_dependency(k, v)
        h = make()
        top = TransactronContextElaboratable(h, dependency_manager=dm, transaction_manager=tm() if tm else None) if wrap else h
        sim = Simulator(top)
        sim.add_clock(1e-6)
        design = sim._design
        names = h.named_signals()
        ins = h.input_signals()
        pidx = None

        def resolve(key):
            nonlocal pidx
            if key in names:
                return names[key]
            if pidx is None:
                pidx = path_index(design)
            if key not in pidx:
                raise HarnessError(f"replay: no signal {key} in the fresh elaboration")
            return pidx[key]

        wsig = [(k, resolve(k)) for k in watch]

        async def tb(ctx):
            if force:
                mems = None
                acc = {}
                for ent, val in force:
                    if ent[0] == "sig":
                        _, key, lsb, width = ent
                        s = resolve(key)
                        cur = acc.get(id(s), (s, 0))[1]
                        # value is the whole state element; the signal occupies bits [lsb, lsb+width)
                        acc[id(s)] = (s, (val >> lsb) & ((1 << width) - 1))
                    else:
                        if mems is None:
                            mems = {"/".join(k): v for k, v in design_memories(design).items()}
                        _, hier, row = ent
                        if hier not in mems:
                            raise HarnessError(f"replay: no memory {hier}")
                        _set_row(ctx, mems[hier], row, val)
                pending = []
                for s, v in acc.values():
                    sv = v
                    if s.shape().signed and sv >= (1 << (len(s) - 1)):
                        sv -= 1 << len(s)
                    try:
                        ctx.set(s, sv)
                    except Exception:  # combinationally driven alias of a register: follows the register itself
                        pass
                    pending.append((s, v))
                for s, v in pending:
                    got = int(ctx.get(s)) & ((1 << len(s)) - 1)
                    if got != v:
                        raise HarnessError(f"replay: could not force state signal {s!r} to {v} (reads {got})")
            for row in trace:
                for n, v in row.items():
                    s = ins[n]
                    if s.shape().signed and v >= (1 << (len(s) - 1)):
                        v -= 1 << len(s)
                    ctx.set(s, v)
                o = {}
                for k, s in wsig:
                    o[k] = int(ctx.get(s)) & ((1 << len(s)) - 1)
                out.append(o)
                await ctx.tick()

        sim.add_testbench(tb)
        sim.run()
    return out


def simulate_same(built, trace, watch, force=None):
    """Run Amaranth's Python simulator on the SAME elaborated Design the netlist was built from.

    Needed because elaboration of the code under test is not always order-deterministic (e.g. schedulers iterate
    over sets of bodies), so a fresh elaboration may number arbiter bits differently.  watch: {key: Signal}.
    """
    from amaranth.sim.pysim import PySimEngine

    design = built.design
    sim = Simulator.__new__(Simulator)
    sim._design = design
    sim._engine = PySimEngine(design)
    sim._clocked = set()
    sim._running = False
    sim.add_clock(1e-6)
    ins = built.h.input_signals()
    pidx = None
    out = []

    def resolve(key):
        nonlocal pidx
        if key in built.names:
            return built.names[key]
        if pidx is None:
            pidx = path_index(design)
        if key not in pidx:
            raise HarnessError(f"replay: no signal {key}")
        return pidx[key]

    async def tb(ctx):
        if force:
            mems = None
            acc = {}
            for ent, val in force:
                if ent[0] == "sig":
                    _, key, lsb, width = ent
                    s = resolve(key)
                    acc[id(s)] = (s, (val >> lsb) & ((1 << width) - 1))
                else:
                    if mems is None:
                        mems = {"/".join(k): v for k, v in design_memories(design).items()}
                    _, hier, row = ent
                    if hier not in mems:
                        raise HarnessError(f"replay: no memory {hier}")
                    _set_row(ctx, mems[hier], row, val)
            pending = []
            for s, v in acc.values():
                sv = v
                if s.shape().signed and sv >= (1 << (len(s) - 1)):
                    sv -= 1 << len(s)
                try:
                    ctx.set(s, sv)
                except Exception:  # combinationally driven alias of a register: follows the register itself
                    pass
                pending.append((s, v))
            for s, v in pending:
                got = int(ctx.get(s)) & ((1 << len(s)) - 1)
                if got != v:
                    raise HarnessError(f"replay: could not force state signal {s!r} to {v} (reads {got})")
        for row in trace:
            for n, v in row.items():
                s = ins[n]
                if s.shape().signed and v >= (1 << (len(s) - 1)):
                    v -= 1 << len(s)
                ctx.set(s, v)
            o = {}
            for k, s in watch.items():
                o[k] = int(ctx.get(s)) & ((1 << len(s)) - 1)
            out.append(o)
            await ctx.tick()

    with DependencyContext(built.dm):
        sim.add_testbench(tb)
        sim.run()
    return out
