"""E3: unrolling, solving, vacuity twins, counterexample replay on pysim, co-simulation of the encoder."""
import random
import time
import z3

from .harness import Built, Obs, simulate, simulate_same, HarnessError
from .nir2smt import Unsupported


CVC5_EVERY = 20


def bvval(m, term):
    v = m.eval(term, model_completion=True)
    if z3.is_bv_value(v):
        return v.as_long()
    if z3.is_true(v):
        return 1
    if z3.is_false(v):
        return 0
    raise HarnessError(f"model value not concrete: {v}")


class Unroll:
    """K-cycle unrolling of a Built harness, from reset or from a free (symbolic) state."""

    def __init__(self, built, free_init=False, tag="t"):
        self.b = built
        self.ts = built.ts
        self.tag = tag
        self.free_init = free_init
        self.state0 = self.ts.free_state(tag + "S") if free_init else self.ts.init_state()
        self.state = self.state0
        self.frames = []
        self.ins = []
        self.used = {}

    def cycle(self, fixed=None):
        t = len(self.frames)
        ins = self.ts.free_inputs(f"{self.tag}{t}", fixed=fixed)
        f = self.ts.frame(self.state, ins)
        self.frames.append(f)
        self.ins.append(ins)
        return Obs(self.b, f, t, self.used)

    def advance(self):
        self.state = self.ts.next_state(self.frames[-1])

    # ---- models -> traces ----
    def trace(self, m, upto=None):
        rows = []
        n = len(self.frames) if upto is None else upto + 1
        for t in range(n):
            row = {}
            for pn, var in self.ins[t].items():
                if pn in ("clk", "rst"):
                    continue
                name = self.b.name_of_port.get(pn)
                if name is None:
                    continue
                row[name] = bvval(m, var)
            rows.append(row)
        return rows

    def forced_state(self, m):
        if not self.free_init:
            return None
        keys = self.b.state_keys_for_replay()
        force = []
        for k, var in self.state0.items():
            val = bvval(m, var)
            ents = keys.get(k) or []
            if not ents:
                raise HarnessError(f"cannot map state element {k} to a signal for replay")
            for e in ents:
                force.append((e, val))
        return force

    def observed(self, m, upto=None):
        n = len(self.frames) if upto is None else upto + 1
        out = []
        for t in range(n):
            row = {}
            for key, sig in self.used.items():
                term = self.b.term(self.frames[t], sig)
                if term is not None:
                    row[key] = bvval(m, term)
            out.append(row)
        return out

    def replay(self, m, upto=None):
        """Replay model m on amaranth.sim.  Returns (trace, force, observed-by-encoding, mismatches).

        Decisive: simulation of the very Design the netlist was built from.  Additionally a FRESH elaboration of the
        real code is simulated; its outcome is recorded in self.fresh ('match' / 'mismatch' / error text) — a mismatch
        there only means that elaboration is not order-deterministic (e.g. set iteration in the schedulers).
        """
        trace = self.trace(m, upto)
        force = self.forced_state(m)
        enc = self.observed(m, upto)
        keys = [k for k in self.used if not enc or k in enc[0]]
        sim = simulate_same(self.b, trace, {k: self.used[k] for k in keys}, force)
        mism = []
        for t, (a, b) in enumerate(zip(enc, sim)):
            for k in a:
                if a[k] != b[k]:
                    mism.append((t, k, a[k], b[k]))
        self.fresh = None
        if not mism:
            try:
                sim2 = simulate(self.b.make, self.b.deps, self.b.wrap, trace, keys, force, tm=self.b.tm)
                self.fresh = "match" if all(a[k] == b[k] for a, b in zip(enc, sim2) for k in a) else "mismatch (elaboration order-dependent)"
            except Exception as e:  # noqa
                self.fresh = f"not replayable on a fresh elaboration: {type(e).__name__}: {str(e)[:100]}"
        return trace, force, enc, mism


def cosim(built, K, seed, extra_watch=()):
    """Translator validation: random K-cycle trace through pysim and through the encoding."""
    rng = random.Random(seed)
    u = Unroll(built)
    watch = {}
    for n, s in built.names.items():
        watch[n] = s
    eqs = []
    for t in range(K):
        o = u.cycle()
        for pn, var in u.ins[t].items():
            if pn in ("clk", "rst"):
                continue
            # adapters' enables are biased towards 1 so that things happen
            w = var.size()
            name = built.name_of_port.get(pn, "")
            if w == 1 and name.endswith(".en"):
                v = 1 if rng.random() < 0.7 else 0
            else:
                v = rng.getrandbits(w)
            eqs.append(var == v)
        u.advance()
    u.used = dict(watch)
    s = z3.SolverFor("QF_BV")
    s.add(*eqs)
    if s.check() != z3.sat:
        raise HarnessError("cosim: input equalities unsat")
    m = s.model()
    trace, force, enc, mism = u.replay(m)
    return len(enc) * len(watch), mism


def cvc5_verdict(solver, timeout_ms=60000):
    """Second opinion: the same assertions decided by cvc5 (SMT-LIB2 dump of the z3 solver). None if cvc5 is unavailable."""
    try:
        import cvc5
        from cvc5 import InputParser, SymbolManager
    except Exception:
        return None
    txt = "(set-logic QF_BV)\n" + solver.to_smt2()
    slv = cvc5.Solver()
    slv.setOption("tlimit-per", str(timeout_ms))
    sm = SymbolManager(slv.getTermManager()) if hasattr(slv, "getTermManager") else SymbolManager(slv)
    p = InputParser(slv, sm)
    p.setStringInput(cvc5.InputLanguage.SMT_LIB_2_6, txt, "q")
    res = None
    while True:
        cmd = p.nextCommand()
        if cmd.isNull():
            break
        out = cmd.invoke(slv, sm).strip()
        if out in ("sat", "unsat", "unknown"):
            res = out
    return res


class Ctx:
    """Collects queries / violations / errors of one configuration (runs inside a worker process)."""

    def __init__(self, prop, cfg, tier, seed, timeout_s=120.0):
        self.prop = prop
        self.cfg = cfg
        self.tier = tier
        self.seed = seed
        self.timeout_s = timeout_s
        self.queries = []
        self.violations = []
        self.errors = []
        self.notes = {}
        self.solver_time = 0.0
        self.cosim_points = 0
        self.cosim_traces = 0
        self.frames = 0
        self.steps = 0
        self.functions = None

    def _solver(self, logic="QF_BV"):
        s = z3.SolverFor(logic) if logic else z3.Solver()
        s.set("timeout", int(self.timeout_s * 1000))
        return s

    def _record(self, name, kind, verdict, dt, extra=None):
        q = dict(name=name, kind=kind, verdict=verdict, time_s=round(dt, 4))
        if extra:
            q.update(extra)
        self.queries.append(q)

    def witness(self, name, conds, logic="QF_BV"):
        """Vacuity twin: must be sat."""
        s = self._solver(logic)
        s.add(*conds)
        t = time.time()
        r = str(s.check())
        dt = time.time() - t
        self.solver_time += dt
        self._record(name, "witness", r, dt)
        if r == "unsat":
            self.errors.append(f"vacuity: witness '{name}' is unreachable in cfg {self.cfg}")
        return r == "sat"

    def prove(self, name, assumes, goal, unroll=None, detail=None, logic="QF_BV", replay=True):
        """Decide `assumes => goal` for all values. Returns True (holds) / False (violated) / None."""
        return self.refute(name, list(assumes) + [z3.Not(goal)], unroll, detail, logic, replay)

    def refute(self, name, conds, unroll=None, detail=None, logic="QF_BV", replay=True, bad_by_cycle=None):
        s = self._solver(logic)
        s.add(*conds)
        t = time.time()
        r = str(s.check())
        dt = time.time() - t
        self.solver_time += dt
        self._record(name, "obligation", r, dt)
        self._nobl = getattr(self, "_nobl", 0) + 1
        if self.tier == "thorough" and logic == "QF_BV" and r in ("sat", "unsat") and self._nobl % CVC5_EVERY == 1 and dt < 20:
            # "diff two solvers": a sample of the thorough tier's queries is re-decided by cvc5
            try:
                r2 = cvc5_verdict(s)
            except Exception as e:  # noqa
                r2 = None
                self.notes["cvc5_errors"] = self.notes.get("cvc5_errors", 0) + 1
            if r2 in ("sat", "unsat"):
                self.notes["cvc5_cross_checked"] = self.notes.get("cvc5_cross_checked", 0) + 1
                if r2 != r:
                    self.notes["cvc5_disagreements"] = self.notes.get("cvc5_disagreements", 0) + 1
                    self.errors.append(f"solver disagreement on '{name}': z3 says {r}, cvc5 says {r2} (cfg {self.cfg})")
                    return None
        if r == "unsat":
            return True
        if r != "sat":
            return None
        m = s.model()
        upto = None
        if bad_by_cycle is not None:
            for i, b in enumerate(bad_by_cycle):
                if z3.is_true(m.eval(b, model_completion=True)):
                    upto = i
                    break
        v = dict(name=name, cfg=self.cfg, detail=detail(m) if callable(detail) else detail)
        if unroll is not None and replay:
            try:
                trace, force, enc, mism = unroll.replay(m, upto)
            except HarnessError as e:
                self.errors.append(f"replay failed for '{name}': {e}")
                return None
            if mism:
                self.errors.append(f"replay mismatch (encoder vs pysim) {mism[:4]} for '{name}' in cfg {self.cfg}")
                return None
            v.update(trace=trace, force=[[list(e), val] for e, val in force] if force else None, observed=enc,
                     first_bad_cycle=upto, confirmed="amaranth.sim replay reproduces every observed signal of the counterexample",
                     fresh_elaboration_replay=unroll.fresh)
        elif unroll is None:
            v.update(confirmed="n/a")
        self.violations.append(v)
        return False

    def violation(self, name, detail, confirmed):
        self.violations.append(dict(name=name, cfg=self.cfg, detail=detail, confirmed=confirmed))

    def result(self):
        return dict(cfg=self.cfg, queries=self.queries, violations=self.violations, errors=self.errors, notes=self.notes,
                    solver_time=self.solver_time, cosim_points=self.cosim_points, cosim_traces=self.cosim_traces,
                    frames=self.frames, steps=self.steps, functions=self.functions)


def bmc(ctx, name, built, K, step, init_model, free_init=False, inv=None, cosim_k=0, per_cycle=False):
    """Bounded model checking of a harness against a reference model written over z3 terms.

    step(model, obs, t) -> (obligations: list[(label, z3 bool)], assumptions: list[z3 bool], new model,
                            witnesses: dict label -> z3 bool)
    All obligations of all cycles are decided in one query (or one per cycle with per_cycle=True); every witness
    label must be reachable in at least one cycle (vacuity twins).
    inv(obs) constrains the free initial state when free_init=True.
    """
    u = Unroll(built, free_init=free_init)
    model = init_model(built.h) if init_model else None
    bad = []
    labels = []
    assumes = []
    wit = {}
    for t in range(K):
        o = u.cycle()
        if t == 0 and inv is not None:
            assumes += list(inv(o))
        ob, asm, model, w = step(model, o, t)
        assumes += list(asm)
        bad.append(z3.Not(z3.And(*[c for _, c in ob])) if ob else z3.BoolVal(False))
        labels.append(ob)
        for k, c in (w or {}).items():
            wit.setdefault(k, []).append(c)
        u.advance()
    ctx.frames += K + 1
    ctx.steps += K
    ok = True
    for k, cs in wit.items():
        ok &= ctx.witness(f"{name}: reach '{k}' within {K} cycles", assumes + [z3.Or(*cs)])

    def detail(m):
        out = []
        for t, ob in enumerate(labels):
            for lab, c in ob:
                if z3.is_false(m.eval(c, model_completion=True)):
                    out.append(f"cycle {t}: {lab}")
            if out:
                break
        return out

    if per_cycle:
        res = True
        for t in range(K):
            r = ctx.refute(f"{name}: obligations of cycle {t} (BMC from {'any state' if free_init else 'reset'})",
                           assumes + [bad[t]], u, detail, bad_by_cycle=bad)
            if r is not True:
                res = r
                break
    else:
        res = ctx.refute(f"{name}: all obligations, {K} cycles from {'any state' if free_init else 'reset'}",
                         assumes + [z3.Or(*bad)], u, detail, bad_by_cycle=bad)
    if cosim_k:
        pts, mism = cosim(built, cosim_k, ctx.seed)
        ctx.cosim_points += pts
        ctx.cosim_traces += 1
        if mism:
            ctx.errors.append(f"cosim mismatch encoder vs pysim in cfg {ctx.cfg}: {mism[:4]}")
    return res
