"""Wrapper for combinational / small sequential helpers: drives real helper functions or elaboratables from ports."""
from amaranth import Elaboratable, Module, Signal, Value
from .harness import Built, HarnessError
from .seq import Unroll


class CombHarness(Elaboratable):
    """ins: dict name -> shape; fn(m, sigs) -> dict name -> Value (outputs), may add submodules to m.

    With tmodule=True `m` is a transactron TModule (needed by helpers that use m.d.av_comb etc.).
    """

    def __init__(self, ins, fn, tmodule=False):
        self.sigs = {n: Signal(w, name="i_" + n) for n, w in ins.items()}
        self.fn = fn
        self.outs = {}
        self.tmodule = tmodule
        self.dut = None
        self.ad = {}

    def elaborate(self, platform):
        if self.tmodule:
            from transactron import TModule

            m = TModule()
        else:
            m = Module()
        # keeps the sync domain present so that amaranth.sim can clock purely combinational wrappers on replay
        keep = Signal(name="_keep_sync")
        m.d.sync += keep.eq(1)
        for n, v in self.fn(m, self.sigs).items():
            v = Value.cast(v)
            o = Signal(v.shape(), name="o_" + n)
            m.d.comb += o.eq(v)
            self.outs[n] = o
        return m

    def named_signals(self):
        out = {n: s for n, s in self.sigs.items() if len(s)}
        out.update({"o." + n: s for n, s in self.outs.items() if len(s)})
        return out

    def input_signals(self):
        return {n: s for n, s in self.sigs.items() if len(s)}


def comb(ins, fn, tmodule=False, trace_functions=False):
    """Elaborate and return (built, unroll, obs) for one combinational frame from reset state."""
    b = Built(lambda: CombHarness(ins, fn, tmodule), wrap=tmodule, trace_functions=trace_functions)
    u = Unroll(b)
    o = u.cycle()
    return b, u, o
