"""Two independent callers per method ("callers" configurations shared by the library specs).

The per-component specs drive every method through ONE AdapterTrans transaction.  A change that alters how a method
arbitrates between SEVERAL callers (an exclusive method declared nonexclusive, a dropped conflict) is invisible there,
although it duplicates or loses elements as soon as two transactions call the method.  `install(globals(), items)`
appends one configuration per item to a spec module: the real component with every listed method provided TWICE
(two AdapterTrans transactions on the same method), one combinational frame from a FREE register/memory state
(every state, reachable or not: the statement below is about arbitration, not about the state), and proves

  * for a state-changing method: its two callers never both run in one cycle (one element is never handed to two
    readers, two writes are never merged into one) - `done(m) & done(m__b)` is unsatisfiable;
  * a caller runs only when it is enabled;
  * for a method documented as nonexclusive (peek, clear, order): both callers run together whenever both are enabled
    and one of them runs (they do not block each other), and both see the same result;

with witnesses that each caller of each method can run (vacuity).  Which methods are nonexclusive is taken from the
documentation of the components and written down in the tables of the spec modules - NOT read from the
implementation's `nonexclusive` flag, which is what a seeded change would flip.
"""
import z3
from .harness import Harness, Built
from .seq import Unroll


def _get(d, path):
    obj = d
    for p in path:
        obj = obj[p] if isinstance(p, int) else getattr(obj, p)
    return obj


def run_callers(ctx, label, factory, exclusive, nonexclusive=()):
    """factory() -> component; exclusive / nonexclusive: lists of (name, attribute path)."""
    def make():
        d = factory()
        provided = {}
        for name, path in list(exclusive) + list(nonexclusive):
            m = _get(d, path)
            provided[name] = m
            provided[name + "__b"] = m
        return Harness(d, provided)

    b = Built(make)
    u = Unroll(b, free_init=True)
    o = u.cycle()
    ctx.frames += 1
    tag = f"two callers per method, {label}: "
    for name, _ in exclusive:
        a, c = o.done(name), o.done(name + "__b")
        ctx.witness(tag + f"first caller of {name} runs", [a])
        ctx.witness(tag + f"second caller of {name} runs", [c])
        ctx.prove(tag + f"the two callers of {name} never both run in one cycle", [], z3.Not(z3.And(a, c)), u)
        ctx.prove(tag + f"a caller of {name} runs only when enabled", [], z3.And(z3.Implies(a, o.en(name)), z3.Implies(c, o.en(name + "__b"))), u)
    for name, _ in nonexclusive:
        a, c = o.done(name), o.done(name + "__b")
        ctx.witness(tag + f"both callers of the nonexclusive {name} run together", [a, c])
        ctx.prove(tag + f"callers of the nonexclusive {name} do not block each other", [o.en(name), o.en(name + "__b")], a == c, u)
        ctx.prove(tag + f"a caller of {name} runs only when enabled", [], z3.And(z3.Implies(a, o.en(name)), z3.Implies(c, o.en(name + "__b"))), u)
        try:
            ra, rc = o.out(name), o.out(name + "__b")
        except KeyError:  # method without result
            ra = rc = None
        if ra is not None and rc is not None:
            ctx.prove(tag + f"both callers of {name} see the same result", [a, c], ra == rc, u)


def install(g, items, quick=None):
    """items: list of (label, factory, exclusive, nonexclusive).  quick: number of items used in the quick tier (default all)."""
    old_configs, old_run = g["configs"], g["run"]

    def configs(tier, seed):
        out = list(old_configs(tier, seed))
        n = len(items) if (tier != "quick" or quick is None) else quick
        for i in range(n):
            out.append(dict(callers=i, label=items[i][0]))
        return out

    def run(cfg, ctx):
        if "callers" in cfg:
            label, factory, excl, nonexcl = items[cfg["callers"]]
            return run_callers(ctx, label, factory, excl, nonexcl)
        return old_run(cfg, ctx)

    g["configs"], g["run"] = configs, run
    g.setdefault("ASSUMES", [])
    if isinstance(g["ASSUMES"], list):
        g["ASSUMES"] = g["ASSUMES"] + ["'two callers per method' configurations: every listed method is called by two AdapterTrans transactions; one frame from a free "
                                       "state; which methods are nonexclusive is taken from the components' documentation"]
