"""C17: Forwarder and Pipe are lossless one-slot buffers.

Real `Forwarder` / `Pipe` with one AdapterTrans per method (read, peek, write, clear).  Reference: one optional slot
(full flag + value) written from the property statement.

* IND ("slot"): one transition from ANY state of the two registers of the component (`reg_valid`, `reg`); the
  reference slot is the abstraction (reg_valid, reg) of the pre-state.  Checked: the readiness equations of the
  statement, the value returned by read (peek), and that the post-state registers are the abstraction of the
  reference's next slot.  Every register state is reachable from reset (write v gives (1, v); a following read gives
  (0, v); `reg` is only ever observable while `reg_valid` is set), therefore a `sat` answer is a reachable violation
  (replayed on amaranth.sim from the forced register state) and `unsat` covers histories of every length.
* BMC "slot": the same reference from reset, all subsets of simultaneous calls, all data values.
* BMC "tagged": the k-th accepted write carries the tag k (assumption on the argument), no clear; every read must
  return the tag equal to the number of earlier reads (in order, exactly once) and at most one written value may be
  outstanding (nothing is overwritten/lost).  This formulation does not use the slot reference.
"""
import z3
from ..harness import Harness, Built
from ..seq import bmc, Unroll
from ..util import zx, b2i

PROP = "C17"
LEVEL = "model_checking"
TECHNIQUE = "one-step induction over the two component registers (all states reachable, complete per layout) + BMC from reset (slot reference; tagged-data order check); z3 QF_BV on the Amaranth netlist"
BOUNDS = {
    "quick": "Forwarder and Pipe, 2-bit data and a 2-field struct: one-step induction from every register state, every subset of simultaneous "
             "read/peek/write/clear calls, all data values; BMC 6 cycles (slot reference) and BMC 8 cycles with tagged 3-bit data (no clear)",
    "thorough": "same plus 1-, 3- and 4-bit layouts; BMC 10 cycles (slot reference) and BMC 8 (3-bit tags) / 12 (4-bit tags) cycles tagged order check",
}
OUTSIDE = ["layouts not enumerated (the data path is a plain register/mux of the layout width)",
           "several simultaneous callers of the nonexclusive peek/clear", "tagged order check: histories with clear"]
ASSUMES = ["single clock domain, reset held low", "callers are AdapterTrans transactions (one per method)",
           "peek: the statement only says that it never consumes; that a running peek returns the value read would return, and only when "
           "there is one, is taken from the class docstring ('like read, but doesn't take the value')",
           "a value written in the same cycle as clear is dropped unless it is forwarded to a read of that cycle (Forwarder) - 'clear wins over a simultaneous write'",
           "the statement does not say when clear is ready; the reference follows the clear calls that actually ran"]
W = 8


def _layout(kind):
    if kind == "s":
        return [("a", 1), ("b", 2)], 3
    return [("data", int(kind))], int(kind)


def make(cfg):
    from transactron.lib import Forwarder, Pipe

    lay, _ = _layout(cfg["layout"])
    d = (Forwarder if cfg["cls"] == "Forwarder" else Pipe)(lay)
    return Harness(d, dict(read=d.read, peek=d.peek, write=d.write, clear=d.clear))


def configs(tier, seed):
    out = []
    lays = ("2", "s") if tier == "quick" else ("1", "2", "3", "4", "s")
    for cls in ("Forwarder", "Pipe"):
        for lay in lays:
            out.append(dict(cls=cls, layout=lay, mode="ind"))
        for lay in (("2",) if tier == "quick" else ("2", "s")):
            out.append(dict(cls=cls, layout=lay, mode="bmc", K=6 if tier == "quick" else 10))
        out.append(dict(cls=cls, layout="3", mode="tagged", K=8))
        if tier != "quick":
            out.append(dict(cls=cls, layout="4", mode="tagged", K=12))
    return out


def _step(cfg):
    fwd = cfg["cls"] == "Forwarder"

    def step(model, o, t):
        full, val = model
        rd, wr, pk, cl = o.done("read"), o.done("write"), o.done("peek"), o.done("clear")
        if fwd:
            avail = z3.Or(full, wr)
            cur = z3.If(full, val, o.arg("write"))
            ob = [("Forwarder.write ready iff buffer empty", wr == z3.And(o.en("write"), z3.Not(full))),
                  ("Forwarder.read ready iff buffer full or write runs in the same cycle", rd == z3.And(o.en("read"), avail)),
                  ("Forwarder.read returns the buffered value, else the value written in the same cycle", z3.Implies(rd, o.out("read") == cur))]
            nfull = z3.Or(z3.And(full, z3.Not(rd)), z3.And(wr, z3.Not(rd)))
        else:
            avail = full
            cur = val
            ob = [("Pipe.read ready iff buffer full", rd == z3.And(o.en("read"), full)),
                  ("Pipe.write ready iff buffer empty or read runs in the same cycle", wr == z3.And(o.en("write"), z3.Or(z3.Not(full), rd))),
                  ("Pipe.read returns the buffered value", z3.Implies(rd, o.out("read") == cur))]
            nfull = z3.Or(z3.And(full, z3.Not(rd)), wr)
        ob.append(("peek (docstring: like read, does not take the value) runs only with a value available and returns it",
                   z3.Implies(pk, z3.And(avail, o.out("peek") == cur))))
        nval = z3.If(wr, o.arg("write"), val)
        nfull = z3.And(nfull, z3.Not(cl))
        wit = {"read and write in the same cycle": z3.And(rd, wr), "clear and write in the same cycle": z3.And(cl, wr),
               "peek without read on a full buffer": z3.And(pk, z3.Not(rd), full), "write refused (buffer full)": z3.And(o.en("write"), z3.Not(wr))}
        return ob, [], (nfull, nval), wit

    return step


def _tagged(cfg, dw):
    def step(model, o, t):
        wcnt, rcnt = model
        rd, wr, pk = o.done("read"), o.done("write"), o.done("peek")
        asm = [z3.Not(o.en("clear")), z3.Implies(o.en("write"), zx(o.arg("write"), W) == wcnt)]
        w2 = wcnt + b2i(wr, W)
        r2 = rcnt + b2i(rd, W)
        ob = [("no clear call runs when clear is not requested", z3.Not(o.done("clear"))),
              ("k-th read returns the k-th written value (in order, exactly once)", z3.Implies(rd, z3.And(zx(o.out("read"), W) == rcnt, z3.ULT(rcnt, w2)))),
              ("peek shows the next value to be read and does not consume it", z3.Implies(pk, z3.And(zx(o.out("peek"), W) == rcnt, z3.ULT(rcnt, w2)))),
              ("at most one written value is outstanding (no accepted write is overwritten or lost)", z3.ULE(w2 - r2, 1))]
        wit = {"four values delivered": r2 == 4, "read and write in the same cycle": z3.And(rd, wr),
               "a value waits in the buffer while peek runs": z3.And(pk, z3.Not(rd), z3.Not(wr))}
        return ob, asm, (w2, r2), wit

    return step


def _dut_signal(b, name):
    """Signal `name` defined locally in the dut's elaborate (found through the design hierarchy)."""
    for sig in b.paths:
        for hier, nm in b.paths[sig]:
            if nm == name and len(hier) >= 1 and hier[-1] == "dut":
                return sig
    raise KeyError(name)


class _RegUnroll(Unroll):
    """Unroll whose replay forces only the register signals themselves.

    The framework's `forced_state` lists every Signal that aliases a flip-flop output, including combinationally
    driven copies (`ready=reg_valid`, `return reg`), which amaranth.sim refuses to override (DriverConflict).  Only
    signals assigned in a clocked domain are kept; every state element must keep at least one."""

    def forced_state(self, m):
        from amaranth.hdl._ast import SignalSet
        from ..harness import HarnessError, path_key

        force = super().forced_state(m)
        if force is None:
            return None
        clocked = SignalSet()
        for frag in self.b.design.fragments:
            for dom, stmts in (getattr(frag, "statements", None) or {}).items():
                if dom != "comb":
                    for st in stmts:
                        clocked.update(st._lhs_signals())
        keep = {path_key(self.b.paths, sig) for sig in clocked}
        out = [(e, v) for e, v in force if e[0] != "sig" or e[1] in keep]
        if len({e[1] for e, _ in out if e[0] == "sig"}) < sum(1 for k in self.state0 if k[0] == "ff"):
            raise HarnessError("replay: a register has no clocked signal to force")
        return out


def run(cfg, ctx):
    b = Built(lambda: make(cfg), trace_functions=(ctx.index == 0))
    ctx.functions = b.functions
    _, dw = _layout(cfg["layout"])
    nm = cfg["cls"]
    if cfg["mode"] == "bmc":
        bmc(ctx, f"{nm} vs one-slot reference", b, cfg["K"], _step(cfg), lambda h: (z3.BoolVal(False), z3.BitVecVal(0, dw)), cosim_k=12)
        return
    if cfg["mode"] == "tagged":
        assert (1 << dw) >= cfg["K"]
        bmc(ctx, f"{nm} tagged order", b, cfg["K"], _tagged(cfg, dw), lambda h: (z3.BitVecVal(0, W), z3.BitVecVal(0, W)))
        return
    # --- one-step induction from any register state ---
    # the component must have exactly the two registers of the abstraction (harness-level registers such as the
    # framework's `_keep_sync` live outside the dut hierarchy and do not influence it)
    dut_state = [k for k, ents in b.state_keys_for_replay().items() if k[0] != "ff" or any("/dut" in e[1] for e in ents)]
    if len(dut_state) != 2 or any(k[0] != "ff" for k in dut_state):
        from ..harness import HarnessError
        raise HarnessError(f"{nm}: expected exactly two registers inside the component, got {dut_state}")
    reg_valid, reg = _dut_signal(b, "reg_valid"), _dut_signal(b, "reg")
    u = _RegUnroll(b, free_init=True)
    o = u.cycle()
    full, val = o.sig(reg_valid) == 1, o.sig(reg)
    ob, _, (nfull, nval), wit = _step(cfg)((full, val), o, 0)
    u.advance()
    o2 = u.cycle()
    full2, val2 = o2.sig(reg_valid) == 1, o2.sig(reg)
    ctx.frames += 2
    ctx.steps += 1
    for k, c in wit.items():
        ctx.witness(f"IND {nm}: '{k}' possible", [c])
    u0 = Unroll(b)
    o0 = u0.cycle()
    ctx.prove(f"IND base {nm}: buffer empty after reset", [], o0.sig(reg_valid) == 0, u0)
    for lab, c in ob:
        ctx.prove(f"IND {nm}: {lab}, from any register state", [], c, u)
    ctx.prove(f"IND {nm}: next buffer state = slot after read, write, clear (clear wins), from any register state", [],
              z3.And(full2 == nfull, z3.Implies(nfull, val2 == nval)), u)


def _reexec(cls, old, new):
    import inspect
    import textwrap
    import transactron.lib.connectors as C

    src = textwrap.dedent(inspect.getsource(cls.elaborate))
    assert old in src
    ns = {}
    exec(src.replace(old, new), C.__dict__, ns)
    cls.elaborate = ns["elaborate"]


def _canary_forwarder_read_without_forwarding():
    import transactron.lib.connectors as C

    _reexec(C.Forwarder, "@def_method(m, self.read, ready=reg_valid | self.write.run)", "@def_method(m, self.read, ready=reg_valid)")


def _canary_pipe_write_ignores_read():
    import transactron.lib.connectors as C

    _reexec(C.Pipe, "ready=~reg_valid | self.read.run", "ready=~reg_valid")


def _canary_forwarder_clear_loses():
    import transactron.lib.connectors as C

    _reexec(C.Forwarder, "    @def_method(m, self.clear, nonexclusive=True)\n    def _():\n        m.d.sync += reg_valid.eq(0)\n",
            "    @def_method(m, self.clear, nonexclusive=True)\n    def _():\n        with m.If(~self.write.run):\n            m.d.sync += reg_valid.eq(0)\n")


CANARIES = [("Forwarder.read not ready when only write.run (no forwarding)", _canary_forwarder_read_without_forwarding),
            ("Pipe.write not ready on a full buffer although read runs", _canary_pipe_write_ignores_read),
            ("Forwarder: simultaneous write wins over clear", _canary_forwarder_clear_loses)]


def _callers_items():
    from transactron.lib import Forwarder, Pipe

    return [("Forwarder(2 bits)", lambda: Forwarder([("d", 2)]), [("read", ["read"]), ("write", ["write"])], [("peek", ["peek"]), ("clear", ["clear"])]),
            ("Pipe(2 bits)", lambda: Pipe([("d", 2)]), [("read", ["read"]), ("write", ["write"])], [("peek", ["peek"]), ("clear", ["clear"])])]


from ..excl import install as _install  # noqa: E402
_install(globals(), _callers_items())
