"""C38: encoders, one-hot multiplexers and selecting networks compute their documented functions.

The real `one_hot_mux` / `OneHotMux` (+ `create`), `MultiPriorityEncoder` (+ `create`), `RingMultiPriorityEncoder`,
`StableSelectingNetwork` and the `coding` module (`Encoder`, `PriorityEncoder`, `Decoder`, `PriorityDecoder`, `GrayEncoder`,
`GrayDecoder`) are instantiated inside a tiny wrapper whose inputs are top-level ports.  The netlist is translated to z3
and compared, for ALL input valuations of that instance, with quantifier-free definitions written from the docstrings:
"the j-th set bit in (ring) order", "lowest set select bit, else default", "the valid inputs in order and their number",
"index of the single / least significant asserted bit, `n` high and `o` = 0 otherwise", Gray code = x ^ (x >> 1).
Every (component, width, output count) is a separate complete query per obligation; counterexamples are replayed on
amaranth.sim.
"""
import z3
from ..comb import comb
from ..util import zx, bit, b2i, sel, onehot, popcount

PROP = "C38"
LEVEL = "proof"
ENGINES = ["E1 nir2smt"]
TECHNIQUE = ("SMT equivalence (z3 QF_BV) between the Amaranth netlist IR of the real component and an independent quantifier-free "
             "definition, complete per instance; counterexamples replayed on amaranth.sim")
BOUNDS = {
    "quick": "one_hot_mux / OneHotMux / OneHotMux.create: 0..4 inputs (2-bit, struct, multi-bit select), priority x default; "
             "MultiPriorityEncoder width 1..8 x outputs 1..3 (+create); RingMultiPriorityEncoder width 2..6 x outputs 1..2; "
             "StableSelectingNetwork n 1..6 (2-bit payload); coding module widths 1..8",
    "thorough": "muxes 0..6 inputs; MultiPriorityEncoder width 1..16 x outputs 1..4; RingMultiPriorityEncoder width 2..12 x outputs 1..3; "
                "StableSelectingNetwork n 1..9, payload 1..3 bits; coding module widths 1..16",
}
OUTSIDE = ["non-priority one_hot_mux / OneHotMux with more than one select bit set (documented as undefined)",
           "one_hot_mux without default when no select bit is set (documented as undefined); for the OneHotMux class the documented "
           "values (zero / the only input) are checked",
           "OneHotMux(inputs_count=0, has_default=False): elaboration raises ValueError although the class docstring promises a 0 vector "
           "(the property statement is silent on a multiplexer without inputs and default; reported as an observation)",
           "RingMultiPriorityEncoder with first/last >= input_width", "Decoder with i >= width (no such output bit)",
           "StableSelectingNetwork outputs at positions >= output_cnt", "widths / counts above the enumerated range",
           "the assert_one_hot assertions of one_hot_mux"]
ASSUMES = ["RingMultiPriorityEncoder: first < width and last < width; range [first, last) read circularly, empty when first == last",
           "Decoder/PriorityDecoder: i < width", "non-priority muxes: at most one select bit set"]
W = 8


def classify(v):
    n = v.get("name", "")
    if "PriorityEncoder" in n and "o is 0 when no input bit is asserted" in n and "Multi" not in n:
        return "coding.PriorityEncoder zero input"
    return n.split(",")[0]


def configs(tier, seed):
    q = tier == "quick"
    out = []
    nmax = 4 if q else 6
    for n in range(0, nmax + 1):
        for prio in (False, True):
            for dflt in (False, True):
                if n == 0 and not dflt:
                    continue
                out.append(dict(group="ohm_fn", n=n, prio=prio, dflt=dflt, kind="plain", selw=1))
                out.append(dict(group="ohm_cls", n=n, prio=prio, dflt=dflt))
    for prio in (False, True):
        out.append(dict(group="ohm_fn", n=3, prio=prio, dflt=True, kind="plain", selw=2))
        out.append(dict(group="ohm_fn", n=3, prio=prio, dflt=True, kind="struct", selw=1))
        out.append(dict(group="ohm_fn", n=2, prio=prio, dflt=False, kind="struct", selw=1))
        out.append(dict(group="ohm_create", n=3, prio=prio, dflt=True))
        out.append(dict(group="ohm_create", n=2, prio=prio, dflt=False))
    for w in range(1, (8 if q else 16) + 1):
        for k in range(1, (3 if q else 4) + 1):
            if not q and w > 10 and k > 3:
                continue
            out.append(dict(group="mpe", w=w, k=k, create=False))
    out.append(dict(group="mpe", w=5, k=2, create=True))
    out.append(dict(group="mpe", w=4, k=1, create=True))
    for w in range(2, (6 if q else 12) + 1):
        for k in range(1, (2 if q else 3) + 1):
            out.append(dict(group="ring", w=w, k=k))
    for n in range(1, (6 if q else 9) + 1):
        for pw in ((2,) if q else (1, 2, 3)):
            if n > 7 and pw > 2:
                continue
            out.append(dict(group="ssn", n=n, pw=pw))
    for w in range(1, (8 if q else 16) + 1):
        out.append(dict(group="coding", w=w))
    return out


def _K(k):
    return z3.BitVecVal(k, W)


def _nth_set(flags, vals, j, dflt):
    """value (from vals) of the j-th true flag in list order; dflt if there is none. flags: z3 Bools."""
    before = [sum((b2i(flags[q], W) for q in range(p)), _K(0)) for p in range(len(flags))]
    r = dflt
    for p in reversed(range(len(flags))):
        r = z3.If(z3.And(flags[p], before[p] == j), vals[p], r)
    return r


def _count(flags):
    return sum((b2i(f, W) for f in flags), _K(0))


def _fields(x, n, w):
    return [z3.Extract((i + 1) * w - 1, i * w, x) for i in range(n)]


# ------------------------------------------------------------------ multiplexers
def _mux_obligations(ctx, tag, u, selbits, datas, dflt, out, prio, cls_doc=False):
    n = len(selbits)
    none = z3.Not(z3.Or(*selbits)) if n else z3.BoolVal(True)
    if n:
        ctx.witness(f"{tag}: some select bit set", [z3.Or(*selbits)])
    if prio and n:
        exp = datas[n - 1]
        for i in reversed(range(n - 1)):
            exp = z3.If(selbits[i], datas[i], exp)
        if n > 1:
            ctx.witness(f"{tag}: several select bits set", [selbits[0], selbits[1]])
        ctx.prove(f"{tag}: selects the input of the lowest set select bit", [z3.Or(*selbits)], out == exp, u)
    elif n:
        only = [z3.And(selbits[i], *[z3.Not(selbits[j]) for j in range(n) if j != i]) for i in range(n)]
        ctx.prove(f"{tag}: selects the input of the single set select bit", [],
                  z3.And(*[z3.Implies(only[i], out == datas[i]) for i in range(n)]), u)
    if dflt is not None:
        ctx.prove(f"{tag}: the default when no select bit is set", [none], out == dflt, u)
    elif cls_doc and n >= 1:
        if n == 1:
            ctx.prove(f"{tag}: without default a single input is always passed through (class docstring)", [], out == datas[0], u)
        else:
            ctx.prove(f"{tag}: without default the output is zero when no select bit is set (class docstring)", [none], out == 0, u)


def _run_mux(cfg, ctx, tf):
    from amaranth import Value
    from amaranth.lib import data
    from transactron.utils.amaranth_ext import functions as F
    from transactron.utils.amaranth_ext.elaboratables import OneHotMux

    g, n, prio, has_d = cfg["group"], cfg["n"], cfg["prio"], cfg["dflt"]
    kind = cfg.get("kind", "plain")
    selw = cfg.get("selw", 1)
    lay = data.StructLayout({"a": 1, "b": 2}) if (kind == "struct" or g == "ohm_create") else None
    dw = 2 if lay is None else lay.size
    ins = {f"s{i}": selw for i in range(n)}
    ins.update({f"d{i}": dw for i in range(n)})
    if has_d:
        ins["dd"] = dw
    view = (lambda v: v) if lay is None else (lambda v: data.View(lay, v))

    def fn(m, s):
        pairs = [(s[f"s{i}"], view(s[f"d{i}"])) for i in range(n)]
        dflt = view(s["dd"]) if has_d else None
        if g == "ohm_fn":
            r = F.one_hot_mux(pairs, default=dflt, priority=prio)
        elif g == "ohm_create":
            r = OneHotMux.create(m, pairs, default_input=dflt, priority=prio)
        else:
            m.submodules.dut = d = OneHotMux(dw, n, priority=prio, has_default=has_d)
            for i in range(n):
                m.d.comb += d.select[i].eq(s[f"s{i}"])
                m.d.comb += d.inputs[i].eq(s[f"d{i}"])
            if has_d:
                m.d.comb += d.default_input.eq(s["dd"])
            r = d.output
        outs = {"out": Value.cast(r)}
        if lay is not None:
            outs["out_b"] = r.b
        return outs

    b, u, o = comb(ins, fn, trace_functions=tf)
    ctx.functions = b.functions
    selbits = [o.sig(f"s{i}") != 0 for i in range(n)]
    datas = [o.sig(f"d{i}") for i in range(n)]
    dflt = o.sig("dd") if has_d else None
    out = o.sig("o.out")
    what = {"ohm_fn": "one_hot_mux", "ohm_cls": "OneHotMux", "ohm_create": "OneHotMux.create"}[g]
    tag = (f"{what}({n} inputs, priority={prio}, default={'yes' if has_d else 'no'}"
           + (", struct data" if lay is not None else "") + (f", {selw}-bit selects" if selw > 1 else "") + ")")
    if out.size() != dw:
        ctx.violation(f"{tag}: result width", f"{out.size()} != {dw}", "elaboration")
        return
    _mux_obligations(ctx, tag, u, selbits, datas, dflt, out, prio, cls_doc=(g != "ohm_fn"))
    if lay is not None:
        ctx.prove(f"{tag}: field b of the result view is bits 1..2 of the result", [], o.sig("o.out_b") == z3.Extract(2, 1, out), u)


# ------------------------------------------------------------------ priority encoders
def _run_mpe(cfg, ctx, tf):
    from amaranth import Value, Cat
    from transactron.utils.amaranth_ext.elaboratables import MultiPriorityEncoder

    w, k = cfg["w"], cfg["k"]
    ow = (w - 1).bit_length()

    def fn(m, s):
        if cfg["create"]:
            res = MultiPriorityEncoder.create(m, w, s["x"], outputs_count=k) if k > 1 else [MultiPriorityEncoder.create_simple(m, w, s["x"])]
            return {"outs": Cat(*[r[0] for r in res]), "valids": Cat(*[r[1] for r in res])}
        m.submodules.dut = d = MultiPriorityEncoder(w, k)
        m.d.comb += d.input.eq(s["x"])
        return {"outs": Value.cast(d.outputs), "valids": d.valids}

    b, u, o = comb({"x": w}, fn, trace_functions=tf)
    ctx.functions = b.functions
    x = o.sig("x")
    val = o.sig("o.valids")
    outs = o.sig("o.outs") if ow else None
    flags = [bit(x, p) for p in range(w)]
    tot = _count(flags)
    tag = f"MultiPriorityEncoder{'.create' if cfg['create'] else ''}(width {w}, {k} outputs)"
    ctx.witness(f"{tag}: at least min(width, outputs) bits set", [z3.UGE(tot, min(w, k))])
    for j in range(k):
        vj = bit(val, j)
        ctx.prove(f"{tag}: valid[{j}] iff more than {j} input bits are set", [], vj == z3.UGT(tot, j), u)
        if ow:
            oj = zx(z3.Extract((j + 1) * ow - 1, j * ow, outs), W)
            exp = _nth_set(flags, [_K(p) for p in range(w)], j, _K(0))
            ctx.prove(f"{tag}: output[{j}] is the index of the set bit number {j} in ascending order", [z3.UGT(tot, j)], oj == exp, u)


def _run_ring(cfg, ctx, tf):
    from amaranth import Value
    from transactron.utils.amaranth_ext.elaboratables import RingMultiPriorityEncoder

    w, k = cfg["w"], cfg["k"]
    ow = (w - 1).bit_length()

    def fn(m, s):
        m.submodules.dut = d = RingMultiPriorityEncoder(w, k)
        m.d.comb += [d.input.eq(s["x"]), d.first.eq(s["first"]), d.last.eq(s["last"])]
        return {"outs": Value.cast(d.outputs), "valids": d.valids}

    b, u, o = comb({"x": w, "first": ow, "last": ow}, fn, trace_functions=tf)
    ctx.functions = b.functions
    x = o.sig("x")
    first, last = zx(o.sig("first"), W), zx(o.sig("last"), W)
    val, outs = o.sig("o.valids"), o.sig("o.outs")
    pre = [z3.ULT(first, w), z3.ULT(last, w)]
    Wn = _K(w)
    ln = z3.URem(last + Wn - first, Wn)                      # number of positions in [first, last) walking circularly
    xb = [bit(x, p) for p in range(w)]
    pos = [z3.URem(first + r, Wn) for r in range(w)]         # r-th position of the ring walk
    flags = [z3.And(z3.ULT(_K(r), ln), sel(xb, pos[r])) for r in range(w)]
    tot = _count(flags)
    tag = f"RingMultiPriorityEncoder(width {w}, {k} outputs)"
    below = [z3.ULT(zx(z3.Extract(ow - 1, 0, outs), W), last)] if w > 2 else []   # width 2: a wrapping range is [1, 2) only
    ctx.witness(f"{tag}: wrapping range (last < first) with a selected bit" + (" below `last`" if w > 2 else ""),
                pre + [z3.ULT(last, first), z3.UGE(tot, 1), bit(val, 0)] + below)
    ctx.witness(f"{tag}: all outputs valid", pre + [z3.UGE(tot, min(k, w - 1))])
    for j in range(k):
        vj = bit(val, j)
        oj = zx(z3.Extract((j + 1) * ow - 1, j * ow, outs), W)
        exp = _nth_set(flags, pos, j, _K(0))
        ctx.prove(f"{tag}: valid[{j}] iff more than {j} bits are set inside [first, last)", pre, vj == z3.UGT(tot, j), u)
        ctx.prove(f"{tag}: output[{j}] is the set bit number {j} in circular order from `first`", pre + [z3.UGT(tot, j)], oj == exp, u)


def _run_ssn(cfg, ctx, tf):
    from amaranth import Value
    from transactron.utils.amaranth_ext.elaboratables import StableSelectingNetwork

    n, pw = cfg["n"], cfg["pw"]

    def fn(m, s):
        m.submodules.dut = d = StableSelectingNetwork(n, pw)
        m.d.comb += [Value.cast(d.inputs).eq(s["inp"]), d.valids.eq(s["v"])]
        return {"outs": Value.cast(d.outputs), "cnt": d.output_cnt}

    b, u, o = comb({"inp": n * pw, "v": n}, fn, trace_functions=tf)
    ctx.functions = b.functions
    inp, v, outs = o.sig("inp"), o.sig("v"), o.sig("o.outs")
    cnt = zx(o.sig("o.cnt"), W)
    flags = [bit(v, p) for p in range(n)]
    vals = _fields(inp, n, pw)
    res = _fields(outs, n, pw)
    tot = _count(flags)
    tag = f"StableSelectingNetwork(n={n}, {pw}-bit payload)"
    ctx.witness(f"{tag}: a gap between valid inputs", [tot == (2 if n > 2 else 1)] + ([z3.Not(flags[1]), flags[0]] if n > 2 else []))
    ctx.prove(f"{tag}: output_cnt is the number of valid inputs", [], cnt == tot, u)
    for j in range(n):
        exp = _nth_set(flags, vals, j, z3.BitVecVal(0, pw))
        ctx.prove(f"{tag}: output[{j}] is the valid input number {j} in input order", [z3.UGT(tot, j)], res[j] == exp, u)


# ------------------------------------------------------------------ coding module
def _run_coding(cfg, ctx, tf):
    from transactron.utils.amaranth_ext import coding as C

    w = cfg["w"]
    ow = (w - 1).bit_length()
    ins = {"x": w, "n": 1, "g": w}
    if ow:
        ins["i"] = ow

    def fn(m, s):
        m.submodules.enc = enc = C.Encoder(w)
        m.submodules.penc = penc = C.PriorityEncoder(w)
        m.submodules.dec = dec = C.Decoder(w)
        m.submodules.pdec = pdec = C.PriorityDecoder(w)
        m.submodules.ge = ge = C.GrayEncoder(w)
        m.submodules.ge1 = ge1 = C.GrayEncoder(w)
        m.submodules.gd = gd = C.GrayDecoder(w)
        m.submodules.gd2 = gd2 = C.GrayDecoder(w)
        m.d.comb += [enc.i.eq(s["x"]), penc.i.eq(s["x"]), dec.n.eq(s["n"]), pdec.n.eq(s["n"]), ge.i.eq(s["x"]), ge1.i.eq(s["x"] + 1),
                     gd.i.eq(s["g"]), gd2.i.eq(ge.o)]
        if ow:
            m.d.comb += [dec.i.eq(s["i"]), pdec.i.eq(s["i"])]
        outs = {"enc_n": enc.n, "penc_n": penc.n, "dec_o": dec.o, "pdec_o": pdec.o, "ge_o": ge.o, "ge1_o": ge1.o, "gd_o": gd.o, "gd2_o": gd2.o}
        if ow:
            outs.update(enc_o=enc.o, penc_o=penc.o)
        return outs

    b, u, o = comb(ins, fn, trace_functions=tf)
    ctx.functions = b.functions
    x = o.sig("x")
    nflag = o.sig("n") == 1
    low = _K(0)
    for p in reversed(range(w)):
        low = z3.If(bit(x, p), _K(p), low)
    oh = onehot(x)
    enc_o = zx(o.sig("o.enc_o"), W) if ow else _K(0)
    penc_o = zx(o.sig("o.penc_o"), W) if ow else _K(0)
    enc_n, penc_n = o.sig("o.enc_n") == 1, o.sig("o.penc_n") == 1
    t = f"width {w}"
    ctx.witness(f"coding {t}: all-zero and multi-hot inputs exist", [z3.Or(x == 0, z3.Not(oh))])
    ctx.prove(f"Encoder: n is low iff exactly one input bit is asserted, {t}", [], enc_n == z3.Not(oh), u)
    ctx.prove(f"Encoder: o indicates the asserted bit, {t}", [oh], enc_o == low, u)
    ctx.prove(f"Encoder: o is 0 when n is high, {t}", [z3.Not(oh)], enc_o == 0, u)
    ctx.prove(f"PriorityEncoder: n is high iff no input bit is asserted, {t}", [], penc_n == (x == 0), u)
    ctx.prove(f"PriorityEncoder: o indicates the least significant asserted bit, {t}", [x != 0], penc_o == low, u)
    ctx.prove(f"PriorityEncoder: o is 0 when no input bit is asserted, {t}", [x == 0], penc_o == 0, u)
    ii = zx(o.sig("i"), W) if ow else _K(0)
    one_hot_i = z3.BitVecVal(1, max(w, W)) << zx(ii, max(w, W))
    exp = z3.If(nflag, z3.BitVecVal(0, w), z3.Extract(w - 1, 0, one_hot_i))
    for nm, sig in (("Decoder", "o.dec_o"), ("PriorityDecoder", "o.pdec_o")):
        ctx.prove(f"{nm}: only bit i of o is asserted when n is low, o is 0 when n is high, {t}", [z3.ULT(ii, w)], o.sig(sig) == exp, u)
    ge_o, ge1_o, gd_o, gd2_o, g = o.sig("o.ge_o"), o.sig("o.ge1_o"), o.sig("o.gd_o"), o.sig("o.gd2_o"), o.sig("g")
    ctx.prove(f"GrayEncoder: o = i xor (i >> 1), {t}", [], ge_o == (x ^ z3.LShR(x, 1)), u)
    ctx.prove(f"GrayEncoder: codes of consecutive numbers differ in exactly one bit, {t}", [], popcount(ge_o ^ ge1_o, W) == 1, u)
    ctx.prove(f"GrayDecoder: Gray code of the decoded value is the input, {t}", [], (gd_o ^ z3.LShR(gd_o, 1)) == g, u)
    ctx.prove(f"GrayDecoder(GrayEncoder(x)) = x, {t}", [], gd2_o == x, u)


def run(cfg, ctx):
    tf = ctx.index == 0
    g = cfg["group"]
    if g.startswith("ohm"):
        _run_mux(cfg, ctx, tf)
    elif g == "mpe":
        _run_mpe(cfg, ctx, tf)
    elif g == "ring":
        _run_ring(cfg, ctx, tf)
    elif g == "ssn":
        _run_ssn(cfg, ctx, tf)
    else:
        _run_coding(cfg, ctx, tf)


def _patch_source(owner, name, old, new):
    """re-compile method `name` of class `owner` with one token changed (idempotent: workers may apply a canary repeatedly)."""
    import inspect
    import sys
    import textwrap

    fn = getattr(owner, name)
    if getattr(fn, "_vf_mutant", False):
        return
    src = textwrap.dedent(inspect.getsource(fn))
    assert old in src, f"canary pattern not found in {owner.__name__}.{name}"
    ns = {}
    exec(src.replace(old, new, 1), sys.modules[owner.__module__].__dict__, ns)
    ns[name]._vf_mutant = True
    setattr(owner, name, ns[name])


def _canary_mpe_merge():
    from transactron.utils.amaranth_ext.elaboratables import MultiPriorityEncoder
    _patch_source(MultiPriorityEncoder, "_build_tree", "level_outputs[j].eq(l_out[j - i])", "level_outputs[j].eq(l_out[j])")


def _canary_ring_wrap():
    from transactron.utils.amaranth_ext.elaboratables import RingMultiPriorityEncoder
    _patch_source(RingMultiPriorityEncoder, "elaborate", "self.first > self.last", "self.first >= self.last")


def _canary_mux_priority():
    import transactron.utils.amaranth_ext.functions as F
    F.extract_lowest_set_bit = lambda value: value


CANARIES = [("MultiPriorityEncoder merge step takes the upper half's outputs unshifted", _canary_mpe_merge),
            ("RingMultiPriorityEncoder treats first == last as a wrapping (full) range", _canary_ring_wrap),
            ("priority one_hot_mux does not isolate the lowest select bit", _canary_mux_priority)]
