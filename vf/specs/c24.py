"""C24: ContentAddressableMemory behaves as a dictionary.

The real `ContentAddressableMemory` is wrapped with one AdapterTrans per method (read, write, remove, push; all four
may run in the same cycle).  The reference is a partial map key -> data held as `entries_number` slots with valid
bits over z3 terms (which slot a pushed pair takes is irrelevant because keys are distinct).  All calls of one cycle
act on the map as it was at the start of the cycle: `read` returns the stored data or `not_found`; `write` reports
`not_found` iff the key is absent and otherwise replaces the data; `remove` deletes the key; `push` is accepted iff it
is enabled and a slot is free, and inserts the pair; `read`, `write` and `remove` are total: they run whenever called, in every
state including the empty memory (only `push` has a readiness condition in the statement and in the documentation; a lookup,
update or deletion of an absent key answers not_found / does nothing rather than blocking its caller).  Precondition (documented as undefined behaviour otherwise): a
pushed key is absent at the start of the cycle.  BMC from reset decides all call histories up to K cycles; a one-step
induction from any state whose valid keys are pairwise distinct (abstraction = the visible registers, compared as
dictionaries through a symbolic probe key) extends this to unbounded histories per configuration (CTIs are recorded,
never reported as violations).
"""
import time
import z3
from ..harness import Harness, Built, path_index
from ..seq import Unroll, cosim

PROP = "C24"
LEVEL = "model_checking"
TECHNIQUE = "BMC from reset against a z3 dictionary model (one query per cycle, earlier cycles as proven lemmas) + one-step induction under the invariant 'valid keys pairwise distinct'; pysim replay"
BOUNDS = {
    "quick": "entries 2,3 (2-bit key, 2-bit data; entries 2 also with a 2-field key and 1-bit data): BMC 6 cycles from reset, every subset of simultaneous "
             "read/write/remove/push calls, all keys/data; induction step for entries 2,3,4",
    "thorough": "entries 1..5, BMC 9 (8 for 5 entries), key widths 2..3, struct key; induction step for entries 1..6",
}
OUTSIDE = ["histories longer than the BMC bound where the inductive step is not closed", "entry counts / layouts not enumerated",
           "pushing a key that is already present (documented undefined behaviour)", "which physical slot a pair occupies"]
ASSUMES = ["single clock domain, reset held low", "callers are AdapterTrans transactions (one per method)",
           "a pushed key is absent from the memory at the start of the cycle of the push (also when it is removed in that same cycle)"]
W = 8


def _layouts(kind):
    if kind == "s":
        return [("a", 1), ("b", 2)], 3, [("d", 1)], 1
    kw, dw = kind
    return [("a", kw)], kw, [("d", dw)], dw


def make(cfg):
    from transactron.lib import ContentAddressableMemory

    al, _, dl, _ = _layouts(cfg["layout"])
    d = ContentAddressableMemory(al, dl, cfg["n"])
    return Harness(d, dict(read=d.read, write=d.write, remove=d.remove, push=d.push))


def configs(tier, seed):
    out = []
    if tier == "quick":
        out += [dict(mode="bmc", n=2, layout=[2, 2], K=6), dict(mode="bmc", n=3, layout=[2, 2], K=6), dict(mode="bmc", n=2, layout="s", K=6)]
        out += [dict(mode="ind", n=n, layout=[2, 2]) for n in (2, 3, 4)]
    else:
        for n in (1, 2, 3, 4, 5):
            out.append(dict(mode="bmc", n=n, layout=[2, 2] if n < 4 else [3, 2], K=9 if n < 5 else 8))
        out += [dict(mode="bmc", n=3, layout="s", K=9), dict(mode="bmc", n=4, layout=[2, 1], K=9), dict(mode="bmc", n=2, layout=[3, 3], K=9)]
        for n in (1, 2, 3, 4, 5, 6):
            out.append(dict(mode="ind", n=n, layout=[3, 2]))
        out += [dict(mode="ind", n=3, layout="s"), dict(mode="ind", n=4, layout=[2, 2])]
    return out


def _lookup(slots, key, dw):
    found = z3.Or(*[z3.And(v, a == key) for v, a, _ in slots])
    data = z3.BitVecVal(0, dw)
    for v, a, d in reversed(slots):
        data = z3.If(z3.And(v, a == key), d, data)
    return found, data


def _step(cfg):
    n = cfg["n"]
    _, kw, _, dw = _layouts(cfg["layout"])

    def step(slots, o, t):
        pk, pd = o.arg("push", "addr"), o.arg("push", "data")
        pf, _ = _lookup(slots, pk, dw)
        asm = [z3.Implies(o.en("push"), z3.Not(pf))]
        free = z3.Or(*[z3.Not(v) for v, _, _ in slots])
        rk = o.arg("read", "addr")
        rf, rdv = _lookup(slots, rk, dw)
        wk, wd = o.arg("write", "addr"), o.arg("write", "data")
        wf, _ = _lookup(slots, wk, dw)
        mk = o.arg("remove", "addr")
        mf, _ = _lookup(slots, mk, dw)
        ob = [("push accepted iff enabled and a slot is free", o.done("push") == z3.And(o.en("push"), free)),
              ("read reports not_found iff the key is absent", z3.Implies(o.done("read"), (o.out("read", "not_found") == 1) == z3.Not(rf))),
              ("read returns the data stored under the key", z3.Implies(z3.And(o.done("read"), rf), o.out("read", "data") == rdv)),
              ("write reports not_found iff the key is absent", z3.Implies(o.done("write"), (o.out("write", "not_found") == 1) == z3.Not(wf))),
              # only push has a readiness condition in the statement and in the documentation: lookups, updates and deletions are
              # total (they answer not_found / do nothing for an absent key), in every state including the empty memory
              ("read, write and remove run whenever they are called (ready in every state, also on an empty memory)",
               z3.And(o.done("read") == o.en("read"), o.done("write") == o.en("write"), o.done("remove") == o.en("remove")))]
        new = []
        taken = z3.BoolVal(False)
        for v, a, d in slots:
            hitw = z3.And(o.done("write"), v, a == wk)
            hitr = z3.And(o.done("remove"), v, a == mk)
            here = z3.And(o.done("push"), z3.Not(v), z3.Not(taken))
            taken = z3.Or(taken, z3.Not(v))
            new.append((z3.Or(z3.And(v, z3.Not(hitr)), here), z3.If(here, pk, a), z3.If(here, pd, z3.If(hitw, wd, d))))
        full = z3.Not(free)
        wit = {"memory full": full,
               "read hit with non-zero data": z3.And(o.done("read"), rf, o.out("read", "data") != 0),
               "read miss while another key is stored": z3.And(o.done("read"), z3.Not(rf), z3.Not(z3.And(*[z3.Not(v) for v, _, _ in slots]))),
               "write hit that changes the data": z3.And(o.done("write"), wf, wd != _lookup(slots, wk, dw)[1]),
               "remove hit": z3.And(o.done("remove"), mf),
               "write and remove of the same stored key in one cycle": z3.And(o.done("write"), o.done("remove"), wf, wk == mk)}
        if n > 1:
            wit["push, write hit and remove hit in the same cycle"] = z3.And(o.done("push"), o.done("write"), wf, o.done("remove"), mf)
        if n > 1 and n < (1 << kw):      # a full memory must leave an absent key to push
            wit["push refused although a remove hits in the same cycle (full)"] = z3.And(o.en("push"), full, o.done("remove"), mf)
        return ob, asm, new, wit

    return step


def _state_obs(b, o, cfg):
    """(valid_i, key_i, data_i) of the implementation's visible registers in frame o (read through Obs)."""
    idx = path_index(b.design)

    def find(name):
        ks = [k for k in idx if k.endswith("/dut:" + name)]
        if len(ks) != 1:
            raise KeyError(f"signal {name}: {ks}")
        return idx[ks[0]]

    valids = o.sig(find("valids"))
    return [(z3.Extract(i, i, valids) == 1, o.sig(find(f"address_array_{i}")), o.sig(find(f"data_array_{i}"))) for i in range(cfg["n"])]


def _distinct(slots):
    cs = [z3.Not(z3.And(slots[i][0], slots[j][0], slots[i][1] == slots[j][1])) for i in range(len(slots)) for j in range(i)]
    return z3.And(*cs) if cs else z3.BoolVal(True)


def _bmc_lemmas(ctx, name, built, K, step, init_model, cosim_k=0):
    """BMC like vf.seq.bmc, but one query per cycle with the obligations of earlier cycles added as lemmas (each was
    proved under a subset of the current assumptions before it is used); stops at the first failing cycle."""
    u = Unroll(built)
    model, asm, per_cycle, wit = init_model(built.h), [], [], {}
    for t in range(K):
        o = u.cycle()
        ob, a, model, w = step(model, o, t)
        asm += a
        per_cycle.append((ob, list(asm)))
        for k, c in (w or {}).items():
            wit.setdefault(k, []).append(c)
        u.advance()
    ctx.frames += K + 1
    ctx.steps += K
    for k, cs in wit.items():
        ctx.witness(f"{name}: reach '{k}' within {K} cycles", asm + [z3.Or(*cs)])
    bad = [z3.Not(z3.And(*[c for _, c in ob])) for ob, _ in per_cycle]
    lemmas = []
    for t, (ob, asm_t) in enumerate(per_cycle):
        def detail(m, ob=ob, t=t):
            return [f"cycle {t}: {lab}" for lab, c in ob if z3.is_false(m.eval(c, model_completion=True))]

        r = ctx.refute(f"{name}: all obligations of cycle {t} (BMC from reset)", asm_t + lemmas + [bad[t]], u, detail, bad_by_cycle=bad)
        if r is not True:
            return r
        lemmas += [c for _, c in ob]
    if cosim_k:
        pts, mism = cosim(built, cosim_k, ctx.seed)
        ctx.cosim_points += pts
        ctx.cosim_traces += 1
        if mism:
            ctx.errors.append(f"cosim mismatch encoder vs pysim in cfg {ctx.cfg}: {mism[:4]}")
    return True


def run(cfg, ctx):
    b = Built(lambda: make(cfg), trace_functions=(ctx.index == 0))
    ctx.functions = b.functions
    n = cfg["n"]
    _, kw, _, dw = _layouts(cfg["layout"])
    name = f"CAM entries={n} key {kw}b data {dw}b"
    if cfg["mode"] == "bmc":
        init = lambda h: [(z3.BoolVal(False), z3.BitVecVal(0, kw), z3.BitVecVal(0, dw))] * n
        _bmc_lemmas(ctx, f"{name} vs dictionary model", b, cfg["K"], _step(cfg), init, cosim_k=12 if ctx.index < 3 else 0)
        return
    # one-step induction: any state with pairwise distinct valid keys; model state = the visible registers
    u = Unroll(b, free_init=True)
    o = u.cycle()
    slots = _state_obs(b, o, cfg)
    pre = _distinct(slots)
    ob, asm, new, _ = _step(cfg)(slots, o, 0)
    u.advance()
    o2 = u.cycle()
    slots2 = _state_obs(b, o2, cfg)
    ctx.frames += 2
    ctx.steps += 1
    probe = z3.BitVec("probe_key", kw)
    fi, di = _lookup(slots2, probe, dw)
    fm, dm = _lookup(new, probe, dw)
    cnt = lambda sl: sum((z3.If(v, z3.BitVecVal(1, W), z3.BitVecVal(0, W)) for v, _, _ in sl), z3.BitVecVal(0, W))
    goals = [("step obligations", z3.And(*[c for _, c in ob])),
             ("valid keys stay pairwise distinct", _distinct(slots2)),
             ("next state holds the same dictionary as the model (every probe key) and as many free slots",
              z3.And(fi == fm, z3.Implies(fm, di == dm), cnt(slots2) == cnt(new)))]
    ctx.witness(f"IND {name}: invariant satisfiable with a full memory while read, write and remove run",
                asm + [pre, z3.And(*[v for v, _, _ in slots]), o.done("read"), o.done("write"), o.done("remove")])
    if n > 1:
        ctx.witness(f"IND {name}: push runs together with a remove hit",
                    asm + [pre, o.done("push"), o.done("remove"), _lookup(slots, o.arg("remove", "addr"), dw)[0]])
    u0 = Unroll(b)
    o0 = u0.cycle()
    s0 = _state_obs(b, o0, cfg)
    ctx.prove(f"IND base {name}: reset state is the empty dictionary", [], z3.And(*[z3.Not(v) for v, _, _ in s0]), None)
    for nm, goal in goals:
        s = z3.SolverFor("QF_BV")
        s.set("timeout", 120000)
        s.add(pre, *asm)
        s.add(z3.Not(goal))
        t = time.time()
        r = str(s.check())
        dt = time.time() - t
        ctx.solver_time += dt
        if r == "sat":
            # the pre-state may be unreachable: a CTI is recorded, never reported (the BMC verdict stands)
            ctx.notes["ind_cti"] = ctx.notes.get("ind_cti", 0) + 1
            ctx._record(f"IND {name}: {nm} (CTI found; inductive argument not closed, BMC verdict stands)", "induction", "cti", dt)
        else:
            ctx._record(f"IND {name}: {nm}, from any state with pairwise distinct valid keys", "obligation", r, dt)


# ---- canaries -------------------------------------------------------------------------------------------------

def _patch(old, new):
    import inspect
    import textwrap
    import transactron.lib.storage as S

    src = inspect.getsource(S.ContentAddressableMemory.elaborate)
    assert old in src, f"canary anchor not found: {old}"
    ns = {}
    exec(textwrap.dedent(src.replace(old, new, 1)), S.__dict__, ns)
    S.ContentAddressableMemory.elaborate = ns["elaborate"]


def _canary_read_ignores_valid():
    # read matches removed (invalid) entries as well
    _patch("m.d.top_comb += read_mask.eq(Cat([addr == stored_addr for stored_addr in address_array]) & valids)",
           "m.d.top_comb += read_mask.eq(Cat([addr == stored_addr for stored_addr in address_array]))")


def _canary_push_ready():
    # push is ready while any slot is used... i.e. readiness computed from the wrong reduction
    _patch("ready=~valids.all()", "ready=~valids.any() | ~valids[0]")


def _canary_write_wrong_slot():
    # write updates the slot chosen by the *read* encoder
    _patch("m.d.sync += data_array[encoder_write.outputs[0]].eq(data)", "m.d.sync += data_array[encoder_read.outputs[0]].eq(data)")


CANARIES = [("read matches invalid entries", _canary_read_ignores_valid),
            ("push readiness ignores free slots other than slot 0", _canary_push_ready),
            ("write updates the slot selected by the read encoder", _canary_write_wrong_slot)]


def _callers_items():
    from transactron.lib import ContentAddressableMemory

    return [("ContentAddressableMemory(2-bit keys, 2-bit data, 2 entries)", lambda: ContentAddressableMemory([("k", 2)], [("v", 2)], 2),
             [("push", ["push"]), ("write", ["write"]), ("remove", ["remove"])], [])]


from ..excl import install as _install  # noqa: E402
_install(globals(), _callers_items())
