"""C25: PriorityEncoderAllocator never double-allocates.

The real allocator is wrapped with one AdapterTrans per method (every alloc way, every free way, peek, replace, clear);
a symbolic free mask is stepped next to the netlist.  Per cycle: alloc way i runs iff it is enabled and at least i+1
identifiers are free, a returned identifier is free in the model (so never an allocated one) and identifiers returned by
different ways in one cycle differ, peek returns the model mask, free always runs; the model mask loses the returned
identifiers, gains the freed ones, and is overwritten by replace (argument) / clear (init).  Two modes per
configuration: BMC from reset, and one symbolic step from EVERY value of the mask register (the mask is the only state
and `replace` can install any value in one cycle - checked by the BMC mode - so every register value is reachable and
the one-step check covers histories of any length; the second frame checks the register update through peek).
"""
import z3
from ..harness import Harness, Built
from ..seq import bmc
from ..util import zx, b2i, bit, sel

PROP = "C25"
LEVEL = "model_checking"
ENGINES = ["E1 nir2smt", "E3 BMC + one step from any state"]
TECHNIQUE = "BMC from reset against a z3 free-mask model + one symbolic step from every mask value (all values reachable through replace); counterexamples replayed on amaranth.sim"
BOUNDS = {
    "quick": "entries 1..6, (alloc_ways, free_ways) in {(1,1),(2,2),(3,1),(1,3)}, init in {all free, alternating pattern, a negative two's-complement mask}; BMC 5 cycles from reset "
             "(entries <= 4: 6; one init pattern per ways shape above 2 entries); one step + register update from every mask value; all subsets of simultaneous calls, all arguments",
    "thorough": "one step + register update from every mask value: entries 1..10, ways up to 4 (alloc) x 4 (free) (entries > 6: six ways shapes), three init patterns; "
                "BMC from reset: entries 1..8, six ways shapes up to (3,2) (entries > 6: (1,1),(2,2)), 7 / 6 / 5 cycles for entries <= 3 / 4 / above",
}
OUTSIDE = ["histories that free an identifier which is not allocated, free the same identifier twice in one cycle or pass ident >= entries "
           "(documented precondition)", "entries / ways above the enumerated range", "which free identifier a way returns (only: free and distinct)"]
ASSUMES = ["single clock domain, reset held low", "callers are AdapterTrans transactions (one per method)",
           "every enabled free passes an allocated identifier < entries; identifiers freed in one cycle are distinct",
           "replace and clear conflict (clear calls replace): at most one of them runs, each runs when enabled alone"]
W = 8


def _pattern(kind, n):
    full = (1 << n) - 1
    # "neg": a negative (two's complement) mask other than -1 that reserves identifiers 0 and 2
    return {"all": -1, "alt": 0b1010101010101 & full, "low": (full >> 1) if n > 1 else 0, "neg": ~0b101}[kind]


def make(cfg):
    from transactron.lib import PriorityEncoderAllocator

    n = cfg["entries"]
    d = PriorityEncoderAllocator(n, cfg["aw"], cfg["fw"], init=_pattern(cfg["init"], n))
    prov = {f"alloc{i}": d.alloc[i] for i in range(cfg["aw"])}
    prov.update({f"free{i}": d.free[i] for i in range(cfg["fw"])})
    prov.update(peek=d.peek, replace=d.replace, clear=d.clear)
    return Harness(d, prov)


def configs(tier, seed):
    out = []
    for n in (3, 5) if tier == "quick" else (3, 4, 5, 6, 8):
        for aw, fw in ((1, 1), (2, 2)):
            out.append(dict(entries=n, aw=aw, fw=fw, init="neg", mode="ind"))
            if n <= 5:
                out.append(dict(entries=n, aw=aw, fw=fw, init="neg", mode="bmc", K=5))
    if tier == "quick":
        for n in range(1, 7):
            for aw, fw in ((1, 1), (2, 2), (3, 1), (1, 3)):
                for init in ("all", "alt"):
                    if init == "alt" and (aw, fw) in ((3, 1), (1, 3)) and n % 2:
                        continue
                    out.append(dict(entries=n, aw=aw, fw=fw, init=init, mode="ind"))
                    if (init == "all") == ((aw, fw) in ((1, 1), (3, 1))) or n <= 2:
                        out.append(dict(entries=n, aw=aw, fw=fw, init=init, mode="bmc", K=6 if n <= 4 else 5))
    else:
        for n in range(1, 11):
            for aw in (1, 2, 3, 4):
                for fw in (1, 2, 3, 4):
                    if n > 6 and (aw, fw) not in ((1, 1), (2, 2), (4, 2), (2, 4), (3, 3), (4, 4)):
                        continue
                    for init in ("all", "alt", "low"):
                        if init == "low" and (aw + fw) % 2:
                            continue
                        out.append(dict(entries=n, aw=aw, fw=fw, init=init, mode="ind"))
        for n in range(1, 9):
            for aw, fw in ((1, 1), (2, 1), (2, 2), (3, 1), (1, 3), (3, 2)):
                if n > 6 and (aw, fw) not in ((1, 1), (2, 2)):
                    continue
                for init in ("all", "alt"):
                    out.append(dict(entries=n, aw=aw, fw=fw, init=init, mode="bmc", K=7 if n <= 3 else (6 if n <= 4 else 5)))
    return out


def _find(b, name):
    hits = []
    for frag, info in b.design.fragments.items():
        for sig, nm in info.signal_names.items():
            if nm == name and not any(sig is h for h in hits):
                hits.append(sig)
    if len(hits) != 1:
        raise KeyError(f"signal {name}: {len(hits)} candidates")
    return hits[0]


def _step(cfg):
    n, aw, fw = cfg["entries"], cfg["aw"], cfg["fw"]
    im = _pattern(cfg["init"], n) & ((1 << n) - 1)
    idw = (n - 1).bit_length()
    K = lambda k: z3.BitVecVal(k, W)
    one = lambda idx: z3.BitVecVal(1, n) << (z3.Extract(n - 1, 0, zx(idx, max(W, n))))

    def step(mask, o, t):
        ob, asm = [], []
        mbits = [bit(mask, q) for q in range(n)]
        tot = sum((b2i(c, W) for c in mbits), K(0))
        taken = z3.BitVecVal(0, n)
        aid, adone = [], []
        for i in range(aw):
            nm = f"alloc{i}"
            done = o.done(nm)
            ident = zx(o.out(nm), W) if idw else K(0)
            ob.append((f"alloc[{i}] runs iff enabled and at least {i + 1} identifiers are free", done == z3.And(o.en(nm), z3.UGT(tot, i))))
            ob.append((f"alloc[{i}] returns an identifier that is free (not currently allocated)", z3.Implies(done, z3.And(z3.ULT(ident, n), sel(mbits, ident)))))
            for j in range(i):
                ob.append((f"alloc[{i}] and alloc[{j}] return distinct identifiers in one cycle", z3.Implies(z3.And(done, adone[j]), ident != aid[j])))
            aid.append(ident)
            adone.append(done)
            taken = z3.If(done, taken | one(ident), taken)
        freed = z3.BitVecVal(0, n)
        fid = []
        for i in range(fw):
            nm = f"free{i}"
            ident = zx(o.arg(nm), W) if idw else K(0)
            asm.append(z3.Implies(o.en(nm), z3.And(z3.ULT(ident, n), z3.Not(sel(mbits, ident)))))
            for j in range(i):
                asm.append(z3.Implies(z3.And(o.en(nm), o.en(f"free{j}")), ident != fid[j]))
            fid.append(ident)
            ob.append((f"free[{i}] always accepted", o.done(nm) == o.en(nm)))
            freed = z3.If(o.done(nm), freed | one(ident), freed)
        ob.append(("peek always accepted", o.done("peek") == o.en("peek")))
        ob.append(("peek reports the free mask", z3.Implies(o.done("peek"), o.out("peek") == mask)))
        rp, cl = o.done("replace"), o.done("clear")
        # "replace/clear set it": a completed replace leaves its argument, a completed clear leaves init; both completing in one
        # cycle is only consistent when the two values agree (the real allocator serialises them: clear calls replace)
        ob.append(("replace and clear completing in one cycle set the same mask", z3.Implies(z3.And(rp, cl), o.arg("replace") == z3.BitVecVal(im, n))))
        ob.append(("replace runs when enabled alone", z3.Implies(z3.And(o.en("replace"), z3.Not(o.en("clear"))), rp)))
        ob.append(("clear runs when enabled alone", z3.Implies(z3.And(o.en("clear"), z3.Not(o.en("replace"))), cl)))
        ob.append(("replace / clear run only when enabled", z3.And(z3.Implies(rp, o.en("replace")), z3.Implies(cl, o.en("clear")))))
        m2 = (mask & ~taken) | freed
        m3 = z3.If(rp, o.arg("replace"), z3.If(cl, z3.BitVecVal(im, n), m2))
        wit = {"nothing free": mask == 0, "replace runs": rp, "clear runs": cl}
        if n > 1:
            wit["alloc and free in the same cycle"] = z3.And(adone[0], o.done("free0"))
        if aw > 1 and n >= aw:
            wit["all alloc ways run in one cycle"] = z3.And(*adone)
        if aw > 1 and n >= 2:
            wit["last alloc way blocked while way 0 runs"] = z3.And(adone[0], o.en(f"alloc{aw - 1}"), z3.Not(adone[aw - 1]))
        if fw > 1 and n >= 2:
            wit["two frees in one cycle"] = z3.And(o.done("free0"), o.done("free1"))
        return ob, asm, m3, wit

    return step, im


def run(cfg, ctx):
    b = Built(lambda: make(cfg), trace_functions=(ctx.index == 0))
    ctx.functions = b.functions
    n = cfg["entries"]
    step, im = _step(cfg)
    name = f"PriorityEncoderAllocator({n}, {cfg['aw']}, {cfg['fw']}, init={cfg['init']}) vs free-mask model"
    if cfg["mode"] == "bmc":
        bmc(ctx, name, b, cfg["K"], step, lambda h: z3.BitVecVal(im, n), cosim_k=12 if ctx.index < 6 else 0)
        return
    reg = _find(b, "not_used")
    m0 = z3.BitVec("mask0", n)

    def step_ind(mask, o, t):
        ob, asm, m3, wit = step(mask, o, t)
        if t == 1:
            wit = {}
        else:
            wit.pop("replace runs", None)
            wit.pop("clear runs", None)
        return ob, asm, m3, wit

    bmc(ctx, name + " [any mask value]", b, 2, step_ind, lambda h: m0, free_init=True, inv=lambda o: [o.sig(reg) == m0])


def _patch_source(owner, name, old, new):
    """re-compile method `name` of class `owner` with one token changed (idempotent: workers may apply a canary repeatedly)."""
    import inspect
    import sys
    import textwrap

    fn = getattr(owner, name)
    if getattr(fn, "_vf_mutant", False):
        return
    src = textwrap.dedent(inspect.getsource(fn))
    assert old in src, f"canary pattern not found in {owner.__name__}.{name}"
    ns = {}
    exec(src.replace(old, new, 1), sys.modules[owner.__module__].__dict__, ns)
    ns[name]._vf_mutant = True
    setattr(owner, name, ns[name])


def _canary_second_way_not_marked():
    # only alloc way 0 marks its identifier as used: a later cycle hands the identifier of way 1 out again
    from transactron.lib.allocators import PriorityEncoderAllocator
    _patch_source(PriorityEncoderAllocator, "elaborate", "m.d.sync += not_used.bit_select(encoder.outputs[i], 1).eq(0)",
                  "m.d.sync += not_used.bit_select(encoder.outputs[0], 1).eq(0)")


def _canary_encoder_merge():
    # MultiPriorityEncoder merge step takes the upper half's outputs unshifted: two ways can return the same identifier
    from transactron.utils.amaranth_ext.elaboratables import MultiPriorityEncoder
    _patch_source(MultiPriorityEncoder, "_build_tree", "level_outputs[j].eq(l_out[j - i])", "level_outputs[j].eq(l_out[j])")


def _canary_clear_all_free():
    from transactron.lib.allocators import PriorityEncoderAllocator
    _patch_source(PriorityEncoderAllocator, "elaborate", "self.replace(m, mask=self.init)", "self.replace(m, mask=-1)")


CANARIES = [("only alloc way 0 marks its identifier as allocated", _canary_second_way_not_marked),
            ("MultiPriorityEncoder merge step unshifted (duplicate identifiers in one cycle)", _canary_encoder_merge),
            ("clear frees everything instead of restoring init", _canary_clear_all_free)]


def _callers_items():
    from transactron.lib import PriorityEncoderAllocator

    return [("PriorityEncoderAllocator(4, 2 alloc ways, 1 free way)", lambda: PriorityEncoderAllocator(4, 2, 1),
             [("alloc0", ["alloc", 0]), ("alloc1", ["alloc", 1]), ("free0", ["free", 0]), ("replace", ["replace"])], [("clear", ["clear"])])]


from ..excl import install as _install  # noqa: E402
_install(globals(), _callers_items())
