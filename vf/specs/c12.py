"""C12: condition() picks one admissible branch.

Designs using the real `transactron.lib.condition` (blocking/nonblocking x priority x default x 2..3 branches, inside a
transaction or inside a method, shared callee across branches, a nested condition inside a branch) are elaborated by the
real TransactionManager; each branch and the enclosing body carry a witness assignment (`m.d.comb += w.eq(1)`), so
"branch i runs" is observable.  All branch conditions, the request and the readiness of every callee are free inputs; every
clause of the statement is one SMT query over the netlist for all input valuations.
"""
import itertools
import z3
from amaranth import Elaboratable, Signal
from ..harness import Built
from ..seq import Unroll
from ..util import atmost1

PROP = "C12"
LEVEL = "proof"
ENGINES = ["E1 nir2smt", "E2 designgen+oracle"]
TECHNIQUE = "SMT (z3 QF_BV) over the Amaranth netlist IR of enumerated condition() designs elaborated by the real TransactionManager; all input valuations per design; counterexamples replayed on amaranth.sim"
BOUNDS = {"quick": "all 2x2x2 (nonblocking, priority, default) x {2,3} branches x {in transaction, in method} x {distinct callees, shared callee} shapes (64) plus "
                   "8 nested-condition shapes; every valuation of conditions / request / callee readiness",
          "thorough": "same families plus callee-less branches, two conditions in one body, 4 branches (about 300 shapes)"}
OUTSIDE = ["condition() shapes outside the enumerated families (flat family + 'deep' family: condition inside a conditionally called method, nested, with a callee method that has its own condition)", "branches whose callees take arguments with validate_arguments"]
ASSUMES = ["'admissible' = branch condition holds and every method called in the branch is ready (as in the statement)",
           "the callee methods are always-defined leaf methods with free readiness"]


class D(Elaboratable):
    def __init__(self, cfg):
        self.cfg = cfg
        self.inputs = {}
        self.named = {}
        self.dut = None
        self.ad = {}

    def inp(self, name):
        s = Signal(name=name)
        self.inputs[name] = s
        return s

    def wit(self, name):
        s = Signal(name=name)
        self.named[name] = s
        return s

    def named_signals(self):
        return {**self.inputs, **self.named}

    def input_signals(self):
        return dict(self.inputs)

    def elaborate(self, platform):
        from transactron import TModule, Method, Transaction, def_method
        from transactron.lib import condition

        cfg = self.cfg
        m = TModule()
        keep = Signal(name="_keep_sync")
        m.d.sync += keep.eq(1)
        nb = cfg["branches"]
        nmeth = nb + 2
        self.M = [Method(name=f"M{i}") for i in range(nmeth)]
        self.rdy = [self.inp(f"rdy{i}") for i in range(nmeth)]
        for i, M in enumerate(self.M):
            @def_method(m, M, ready=self.rdy[i])
            def _():
                pass
        self.req = self.inp("req")
        self.conds = []      # per branch: condition signal or None (default)
        self.callees = []    # per branch: list of method indices
        self.inner = None

        def emit_condition(prefix, nbranch, default, nonblocking, priority, callee_of, nested_in=None):
            conds, callees = [], []
            with condition(m, nonblocking=nonblocking, priority=priority) as branch:
                for i in range(nbranch):
                    c = self.inp(f"{prefix}c{i}")
                    with branch(c):
                        m.d.comb += self.wit(f"{prefix}w{i}").eq(1)
                        cs = callee_of(i)
                        for mi in cs:
                            self.M[mi](m)
                        if nested_in == i:
                            self.inner = emit_condition("in_", 2, cfg.get("inner_default", False), cfg.get("inner_nonblocking", False),
                                                        cfg.get("inner_priority", False), lambda j: [nmeth - 2 + j] if j < 2 else [])
                    conds.append(c)
                    callees.append(cs)
                if default:
                    with branch():
                        m.d.comb += self.wit(f"{prefix}wd").eq(1)
                        cs = callee_of(nbranch)
                        for mi in cs:
                            self.M[mi](m)
                    conds.append(None)
                    callees.append(cs)
            return conds, callees

        def callee_of(i):
            if cfg.get("no_callee") == i:
                return []
            if cfg["shared"] and i in (0, 1):
                return [0]
            return [i] if i < nb else ([nb - 1] if cfg["shared"] else [])

        def body():
            m.d.comb += self.wit("wb").eq(1)
            self.conds, self.callees = emit_condition("", nb, cfg["default"], cfg["nonblocking"], cfg["priority"], callee_of,
                                                      nested_in=0 if cfg.get("nested") else None)

        if cfg["in_method"]:
            self.Outer = Method(name="Outer")

            @def_method(m, self.Outer)
            def _():
                body()

            with Transaction(name="T").body(m, ready=self.req):
                self.Outer(m)
        else:
            with Transaction(name="T").body(m, ready=self.req):
                body()
        return m


class Deep(D):
    """condition() inside a method that is called CONDITIONALLY (m.If / enable_call), with a nested condition and,
    optionally, a further method `y` with its own condition() called from the innermost branch."""

    def elaborate(self, platform):
        from transactron import TModule, Method, Transaction, def_method
        from transactron.lib import condition

        cfg = self.cfg
        m = TModule()
        keep = Signal(name="_keep_sync")
        m.d.sync += keep.eq(1)
        en, c_outer, c_inner, c_y, req = (self.inp(n) for n in ("en", "c_outer", "c_inner", "c_y", "req"))
        outer, y = Method(name="outer"), Method(name="y")
        W = {n: self.wit("w_" + n) for n in ("t", "outer", "b0", "c0", "y", "d0")}
        # every body also calls its own always-ready probe method: "the methods a branch calls execute" is observed on them
        self.P = {n: Method(name="probe_" + n) for n in W}
        for n, pm in self.P.items():
            pw = self.wit("p_" + n)

            @def_method(m, pm)
            def _():
                m.d.comb += pw.eq(1)

        @def_method(m, y)
        def _():
            m.d.comb += W["y"].eq(1)
            self.P["y"](m)
            with condition(m, nonblocking=cfg["nb_y"]) as branch:
                with branch(c_y):
                    m.d.comb += W["d0"].eq(1)
                    self.P["d0"](m)

        @def_method(m, outer)
        def _():
            m.d.comb += W["outer"].eq(1)
            self.P["outer"](m)
            with condition(m, nonblocking=cfg["nb_outer"]) as branch:
                with branch(c_outer):
                    m.d.comb += W["b0"].eq(1)
                    self.P["b0"](m)
                    if cfg["levels"] >= 2:
                        with condition(m, nonblocking=cfg["nb_inner"]) as branch2:
                            with branch2(c_inner):
                                m.d.comb += W["c0"].eq(1)
                                self.P["c0"](m)
                                if cfg["deep_method"]:
                                    y(m)
                    elif cfg["deep_method"]:
                        y(m)

        target = outer
        if cfg.get("via"):
            # the conditional link is one call further up: T --(conditional)--> mid --(unconditional)--> outer
            mid = Method(name="mid")

            @def_method(m, mid)
            def _():
                outer(m)

            target = mid
        with Transaction(name="T").body(m, ready=req):
            m.d.comb += W["t"].eq(1)
            self.P["t"](m)
            if cfg["call"] == "if":
                with m.If(en):
                    target(m)
            elif cfg["call"] == "enable":
                target(m, enable_call=en)
            elif cfg["call"] == "ifelse":
                # two mutually exclusive call sites of the same method in one transaction: it is called in every cycle
                with m.If(en):
                    target(m)
                with m.Else():
                    target(m)
            else:
                target(m)
        return m


def deep_configs(tier):
    out = []
    for call, levels, dm in itertools.product(("plain", "if", "enable", "ifelse"), (1, 2), (False, True)):
        for nbo, nbi, nby in itertools.product((False, True), repeat=3):
            if tier == "quick" and (nbo, nbi, nby) not in ((True, True, False), (False, False, False), (True, False, True)):
                continue
            if levels == 1 and nbi:
                continue
            if not dm and nby:
                continue
            out.append(dict(deep=True, call=call, levels=levels, deep_method=dm, nb_outer=nbo, nb_inner=nbi, nb_y=nby))
            if call in ("if", "enable") and not dm:
                out.append(dict(deep=True, call=call, levels=levels, deep_method=dm, nb_outer=nbo, nb_inner=nbi, nb_y=nby, via=True))
    return out


def run_deep(cfg, ctx):
    b = Built(lambda: Deep(cfg), trace_functions=False)
    u = Unroll(b)
    o = u.cycle()
    ctx.frames += 1
    B = lambda n: o.sig("w_" + n) == 1
    pairs = [("outer", "t"), ("b0", "outer")]
    if cfg["levels"] >= 2:
        pairs.append(("c0", "b0"))
    if cfg["deep_method"]:
        pairs += [("y", "c0" if cfg["levels"] >= 2 else "b0"), ("d0", "y")]
    ctx.witness("deep: the innermost body can run", [B(pairs[-1][0])])
    if cfg["call"] in ("if", "enable"):
        ctx.witness("deep: the caller runs while the call is disabled", [B("t"), o.sig("en") == 0])
    if cfg["call"] == "ifelse":
        ctx.witness("deep: the method runs through its second call site", [B("outer"), o.sig("en") == 0])
    P = lambda n: o.sig("p_" + n) == 1
    for child, parent in pairs:
        ctx.prove(f"deep: '{child}' (branch / method body) runs only if its enclosing body '{parent}' runs", [], z3.Implies(B(child), B(parent)), u)
        ctx.prove(f"deep: the method called in '{child}' executes only if the enclosing body '{parent}' runs", [], z3.Implies(P(child), B(parent)), u)
    for n in {x for pr in pairs for x in pr}:
        ctx.prove(f"deep: the method called unconditionally in '{n}' executes exactly when '{n}' runs", [], P(n) == B(n), u)
    conds = {"b0": "c_outer", "c0": "c_inner", "d0": "c_y"}
    for child, c in conds.items():
        if any(child == p[0] for p in pairs):
            ctx.prove(f"deep: branch '{child}' runs only if its condition holds", [], z3.Implies(B(child), o.sig(c) == 1), u)
    if cfg["call"] in ("if", "enable"):
        ctx.prove("deep: the conditionally called method runs only when the call is enabled", [], z3.Implies(B("outer"), o.sig("en") == 1), u)
    if cfg["call"] in ("plain", "ifelse"):
        ctx.prove("deep: the method called on every path runs whenever its transaction runs", [], B("outer") == B("t"), u)
    # blocking condition(): the enclosing body runs only together with its (single) branch
    blocking = [("outer", "b0", cfg["nb_outer"])]
    if cfg["levels"] >= 2:
        blocking.append(("b0", "c0", cfg["nb_inner"]))
    if cfg["deep_method"]:
        blocking.append(("y", "d0", cfg["nb_y"]))
    for parent, child, nb in blocking:
        if not nb:
            ctx.prove(f"deep: with a blocking condition '{parent}' runs only together with its branch '{child}'", [], z3.Implies(B(parent), B(child)), u)


def configs(tier, seed):
    out = deep_configs(tier)
    for nbk, pr, df, nbr, im, sh in itertools.product((False, True), (False, True), (False, True), (2, 3), (False, True), (False, True)):
        out.append(dict(nonblocking=nbk, priority=pr, default=df, branches=nbr, in_method=im, shared=sh))
    for nbk, pr, inb in itertools.product((False, True), (False, True), (False, True)):
        out.append(dict(nonblocking=nbk, priority=pr, default=False, branches=2, in_method=False, shared=False, nested=True, inner_nonblocking=inb, inner_priority=pr))
    if tier == "thorough":
        for nbk, pr, df, im, nc in itertools.product((False, True), (False, True), (False, True), (False, True), (0, 1)):
            out.append(dict(nonblocking=nbk, priority=pr, default=df, branches=3, in_method=im, shared=False, no_callee=nc))
        for nbk, pr, df, im, sh in itertools.product((False, True), (False, True), (False, True), (False, True), (False, True)):
            out.append(dict(nonblocking=nbk, priority=pr, default=df, branches=4, in_method=im, shared=sh))
        for nbk, pr, inb, ind, inp_ in itertools.product((False, True), (False, True), (False, True), (False, True), (False, True)):
            out.append(dict(nonblocking=nbk, priority=pr, default=True, branches=2, in_method=True, shared=False, nested=True, inner_nonblocking=inb,
                            inner_default=ind, inner_priority=inp_))
    return out


def admissibility(o, conds, callees, rdy, nonblocking):
    """(explicit conditions, per-branch cond, per-branch ready, 'the condition block lets its body run')."""
    B = lambda name: o.sig(name) == 1
    explicit = [B(c.name) for c in conds if c is not None]
    cond = [B(c.name) if c is not None else z3.Not(z3.Or(*explicit)) for c in conds]
    ready = [z3.And(*[B(rdy[mi].name) for mi in cs]) if cs else z3.BoolVal(True) for cs in callees]
    has_default = any(c is None for c in conds)
    ok = z3.Or(*[z3.And(c, r) for c, r in zip(cond, ready)], z3.And(z3.BoolVal(nonblocking and not has_default), z3.Not(z3.Or(*explicit))))
    return explicit, cond, ready, ok


def obligations(ctx, u, o, tag, wb, ws, conds, callees, rdy, nonblocking, priority, live_req=None, extra0=None):
    B = lambda name: o.sig(name) == 1
    n = len(ws)
    explicit = [B(c.name) for c in conds if c is not None]
    cond = [B(c.name) if c is not None else z3.Not(z3.Or(*explicit)) for c in conds]
    ready = [z3.And(*[B(rdy[mi].name) for mi in cs]) if cs else z3.BoolVal(True) for cs in callees]
    if extra0 is not None:
        # branch 0 contains a nested condition: it is admissible only if that nested condition lets it run
        ready[0] = z3.And(ready[0], extra0)
    adm = [z3.And(cond[i], ready[i]) for i in range(n)]
    w = [B(x) for x in ws]
    has_default = any(c is None for c in conds)
    ctx.witness(f"{tag}: two branch conditions can hold together", [explicit[0], explicit[1]])
    ctx.witness(f"{tag}: a branch can run", [w[0]])
    for i in range(n):
        ctx.prove(f"{tag}: branch {i} runs only if the enclosing body runs, its condition holds and its callees are ready", [],
                  z3.Implies(w[i], z3.And(wb, cond[i], ready[i])), u)
    ctx.prove(f"{tag}: at most one branch runs per cycle", [], atmost1(w), u)
    if has_default:
        ctx.prove(f"{tag}: default branch runs only when no other condition holds", [], z3.Implies(w[-1], z3.Not(z3.Or(*explicit))), u)
    escape = z3.And(z3.BoolVal(nonblocking and not has_default), z3.Not(z3.Or(*explicit)))
    ctx.prove(f"{tag}: enclosing body runs only together with a branch (unless nonblocking and no condition holds)", [],
              z3.Implies(wb, z3.Or(*w, escape)), u)
    if priority:
        for i in range(1, n):
            ctx.prove(f"{tag}: with priority, branch {i} runs only if no earlier branch was admissible", [],
                      z3.Implies(w[i], z3.Not(z3.Or(*adm[:i]))), u)
    if live_req is not None:
        ctx.prove(f"{tag}: an admissible branch lets the requesting body run", [], z3.Implies(z3.And(live_req, z3.Or(*adm)), wb), u)


def run(cfg, ctx):
    if cfg.get("deep"):
        return run_deep(cfg, ctx)
    b = Built(lambda: D(cfg), trace_functions=(ctx.index == 0))
    ctx.functions = b.functions
    d = b.h
    u = Unroll(b)
    o = u.cycle()
    ctx.frames += 1
    n = len(d.conds)
    ws = [f"w{i}" for i in range(cfg["branches"])] + (["wd"] if cfg["default"] else [])
    wb = o.sig("wb") == 1
    live = None if cfg.get("nested") else (o.sig("req") == 1)
    extra0 = None
    if cfg.get("nested"):
        # branch 0 of the outer condition additionally needs an admissible inner branch (or the inner nonblocking escape)
        extra0 = admissibility(o, d.inner[0], d.inner[1], d.rdy, cfg.get("inner_nonblocking", False))[3]
    obligations(ctx, u, o, "outer" if cfg.get("nested") else "condition", wb, ws, d.conds, _outer_callees(d, cfg), d.rdy,
                cfg["nonblocking"], cfg["priority"], live, extra0)
    if cfg.get("nested") and d.inner is not None:
        iconds, icallees = d.inner
        iws = [f"in_w{i}" for i in range(2)] + (["in_wd"] if cfg.get("inner_default") else [])
        obligations(ctx, u, o, "inner", o.sig("w0") == 1, iws, iconds, icallees, d.rdy, cfg.get("inner_nonblocking", False), cfg.get("inner_priority", False))


def _outer_callees(d, cfg):
    return d.callees


def _canary_no_independence():
    # condition() forgets simultaneous_alternatives -> branches become plain nested transactions (several may run)
    import transactron.core.transaction_base as tb

    def simultaneous_alternatives(self, *others):
        self.simultaneous(*others)

    tb.TransactionBase.simultaneous_alternatives = simultaneous_alternatives
    import transactron.core.body as body
    body.Body.simultaneous_alternatives = simultaneous_alternatives


def _canary_default_cond():
    # the default branch's readiness ignores the other conditions
    import transactron.lib.simultaneous as sim
    import inspect, textwrap
    src = inspect.getsource(sim.condition).replace("~Cat(*conds).any()", "C(1)")
    ns = {}
    exec(textwrap.dedent(src), sim.__dict__, ns)
    sim.condition = ns["condition"]
    import transactron.lib as lib
    lib.condition = ns["condition"]


CANARIES = [("condition(): default branch not gated by the other conditions", _canary_default_cond)]


def classify(v):
    c = v.get("cfg", {})
    if c.get("deep") and c.get("deep_method") and c.get("levels") == 2 and c.get("call") in ("if", "enable") and "'d0'" in v.get("name", ""):
        return "callee-condition-under-nested-branch-of-conditionally-called-method"
    return None
