"""C14: FIFO and BasicFifo behave as bounded queues.

Real `BasicFifo` / `FIFO` wrapped with one AdapterTrans per method; a bounded symbolic queue (depth slots + count)
is stepped next to the netlist.  BMC from reset decides every call history up to K cycles per configuration; a
one-step induction from any state satisfying a representation invariant (thorough) extends BasicFifo to unbounded
histories per configuration (CTIs are never reported).
"""
import z3
from ..harness import Harness, Built
from ..seq import bmc, Unroll
from ..util import zx, b2i, sel

PROP = "C14"
LEVEL = "model_checking"
BOUNDS = {
    "quick": "BasicFifo depth 1..4 (2-bit data; depth 3 also with a 2-field struct), FIFO(SyncFIFO) depth 1..3; BMC 2*depth+4 cycles from reset, all "
             "subsets of simultaneous read/peek/write/clear calls, all data values",
    "thorough": "BasicFifo depth 1..6, widths 1..3 and 2-field struct, BMC up to 14 cycles; FIFO depth 1..5; plus one-step induction for BasicFifo depth 2..8",
}
OUTSIDE = ["histories longer than the BMC bound where the inductive step is not run", "depths/layouts not enumerated", "FIFO with a non-default fifo_type"]
ASSUMES = ["single clock domain, reset held low", "callers are AdapterTrans transactions (one per method)"]
W = 8


def _layout(kind):
    if kind == "s":
        return [("a", 1), ("b", 2)], 3
    return [("data", int(kind))], int(kind)


def make(cfg):
    from transactron.lib import BasicFifo, FIFO

    lay, _ = _layout(cfg["layout"])
    if cfg["cls"] == "BasicFifo":
        d = BasicFifo(lay, cfg["depth"])
        return Harness(d, dict(read=d.read, peek=d.peek, write=d.write, clear=d.clear),
                       observe=lambda d: dict(level=d.level, read_idx=d.read_idx, write_idx=d.write_idx))
    d = FIFO(lay, cfg["depth"])
    return Harness(d, dict(read=d.read, write=d.write))


def configs(tier, seed):
    out = []
    if tier == "quick":
        for depth in (1, 2, 3, 4):
            out.append(dict(cls="BasicFifo", depth=depth, layout="2", K=2 * depth + 4, mode="bmc"))
        out.append(dict(cls="BasicFifo", depth=3, layout="s", K=9, mode="bmc"))
        for depth in (1, 2, 3):
            out.append(dict(cls="FIFO", depth=depth, layout="2", K=2 * depth + 4, mode="bmc"))
        for depth in (2, 3, 5):
            out.append(dict(cls="BasicFifo", depth=depth, layout="2", mode="ind"))
    else:
        for depth in range(1, 7):
            for lay in ("1", "2", "3", "s"):
                if depth >= 5 and lay != "2":
                    continue
                out.append(dict(cls="BasicFifo", depth=depth, layout=lay, K=min(2 * depth + 4, 14 if depth < 6 else 13), mode="bmc"))
        for depth in range(1, 6):
            out.append(dict(cls="FIFO", depth=depth, layout="2", K=min(2 * depth + 4, 12), mode="bmc"))
        for depth in range(2, 9):
            for lay in ("2", "s"):
                out.append(dict(cls="BasicFifo", depth=depth, layout=lay, mode="ind"))
    return out


def _step(cfg):
    depth = cfg["depth"]
    basic = cfg["cls"] == "BasicFifo"

    def step(model, o, t):
        q, cnt = model
        nonempty = cnt != 0
        notfull = cnt != depth
        ob = [("read ready iff non-empty", o.done("read") == z3.And(o.en("read"), nonempty)),
              ("write ready iff not full", o.done("write") == z3.And(o.en("write"), notfull)),
              ("read returns oldest element", z3.Implies(o.done("read"), o.out("read") == q[0]))]
        if basic:
            ob += [("peek ready iff non-empty", o.done("peek") == z3.And(o.en("peek"), nonempty)),
                   ("peek returns oldest element", z3.Implies(o.done("peek"), o.out("peek") == q[0])),
                   ("clear always accepted", o.done("clear") == o.en("clear")),
                   ("level register equals model count", zx(o.sig("level"), W) == cnt)]
        rd, wr = o.done("read"), o.done("write")
        cl = o.done("clear") if basic else z3.BoolVal(False)
        q1 = [z3.If(rd, q[i + 1] if i + 1 < depth else q[i], q[i]) for i in range(depth)]
        c1 = z3.If(rd, cnt - 1, cnt)
        q2 = [z3.If(z3.And(wr, c1 == i), o.arg("write"), q1[i]) for i in range(depth)]
        c2 = z3.If(wr, c1 + 1, c1)
        cnt2 = z3.If(cl, z3.BitVecVal(0, W), c2)
        wit = {"full": cnt == depth, "read&write same cycle": z3.And(rd, wr)} if depth > 1 else {"full": cnt == depth}
        if basic:
            wit["clear&write same cycle"] = z3.And(cl, wr)
        return ob, [], (q2, cnt2), wit

    return step


def run(cfg, ctx):
    b = Built(lambda: make(cfg), trace_functions=(ctx.index == 0))
    ctx.functions = b.functions
    _, dw = _layout(cfg["layout"])
    depth = cfg["depth"]
    if cfg["mode"] == "bmc":
        init = lambda h: ([z3.BitVecVal(0, dw)] * depth, z3.BitVecVal(0, W))
        bmc(ctx, f"{cfg['cls']} vs queue model", b, cfg["K"], _step(cfg), init, cosim_k=12 if ctx.index < 4 else 0)
        return
    # one-step induction for BasicFifo: free state + representation invariant, model state = abstraction of the state
    u = Unroll(b, free_init=True)
    o = u.cycle()
    ts = b.ts
    (mi,) = list(ts.mems)
    rows = [u.state0[("mem", mi, r)] for r in range(depth)]
    level, ridx, widx = zx(o.sig("level"), W), zx(o.sig("read_idx"), W), zx(o.sig("write_idx"), W)
    (rp,) = ts.rports
    head = u.state0[("rp", rp)]
    D = z3.BitVecVal(depth, W)
    inv = lambda lv, ri, wi, hd, rws: z3.And(z3.ULE(lv, depth), z3.ULT(ri, depth), z3.ULT(wi, depth), wi == z3.URem(ri + lv, D),
                                             z3.Implies(lv != 0, hd == sel(rws, ri)))
    pre = inv(level, ridx, widx, head, rows)
    q = [sel(rows, z3.URem(ridx + i, D)) for i in range(depth)]
    ob, _, (q2, cnt2), _ = _step(cfg)((q, level), o, 0)
    u.advance()
    o2 = u.cycle()
    rows2 = [u.state[("mem", mi, r)] for r in range(depth)]
    lv2, ri2, wi2 = zx(o2.sig("level"), W), zx(o2.sig("read_idx"), W), zx(o2.sig("write_idx"), W)
    hd2 = u.state[("rp", rp)]
    post = inv(lv2, ri2, wi2, hd2, rows2)
    refine = z3.And(lv2 == cnt2, *[z3.Implies(z3.ULT(z3.BitVecVal(i, W), cnt2), sel(rows2, z3.URem(ri2 + i, D)) == q2[i]) for i in range(depth)])
    ctx.frames += 2
    ctx.steps += 1
    ctx.witness("IND: invariant satisfiable with a full queue", [pre, level == depth])
    # init => inv
    u0 = Unroll(b)
    o0 = u0.cycle()
    ctx.prove("IND base: reset state satisfies the invariant", [], z3.And(zx(o0.sig("level"), W) == 0, o0.sig("read_idx") == o0.sig("write_idx")), None)
    # CTIs are not violations (the pre-state may be unreachable): record, do not report.
    for nm, goal in [("step obligations", z3.And(*[c for _, c in ob])), ("invariant preserved", post), ("refinement of queue model", refine)]:
        s = z3.SolverFor("QF_BV")
        s.set("timeout", 120000)
        s.add(pre, z3.Not(goal))
        import time
        t = time.time()
        r = str(s.check())
        dt = time.time() - t
        ctx.solver_time += dt
        if r == "sat":
            # try to establish reachability of the CTI by BMC: only then it is a violation
            ctx.notes["ind_cti"] = ctx.notes.get("ind_cti", 0) + 1
            ctx._record(f"IND {nm} (CTI found; inductive argument not closed, BMC verdict stands)", "induction", "cti", dt)
        else:
            ctx._record(f"IND {nm} from any state satisfying the invariant", "obligation", r, dt)


def _canary_no_addr_forward():
    # BasicFifo.read forgets to move the read port to the next element
    import transactron.lib.fifo as fifo
    import inspect, textwrap
    src = inspect.getsource(fifo.BasicFifo.elaborate).replace("m.d.comb += data_rdport.addr.eq(ret.new_start_idx)", "pass")
    ns = {}
    exec(textwrap.dedent(src), fifo.__dict__, ns)
    fifo.BasicFifo.elaborate = ns["elaborate"]


def _canary_mod_add_wrap():
    import transactron.utils.amaranth_ext.functions as F
    import transactron.lib.allocators as A
    from amaranth import Value
    from amaranth.hdl._ast import SwitchValue

    def mod_add(sig, mod, incr, max_incr):
        sig = Value.cast(sig)
        incr = Value.cast(incr)
        if not (mod & (mod - 1)):
            return (sig + incr) & (mod - 1)
        return SwitchValue(sig + incr, [(mod + i + 1, i) for i in range(0, max_incr)] + [(None, sig + incr)])

    F.mod_add = mod_add
    A.mod_add = mod_add


CANARIES = [("BasicFifo.read does not advance the read port", _canary_no_addr_forward),
            ("mod_add wrap table off by one (non power-of-two depth)", _canary_mod_add_wrap)]


def _callers_items():
    from transactron.lib import BasicFifo, FIFO

    return [("BasicFifo(2 bits, depth 3)", lambda: BasicFifo([("d", 2)], 3), [("read", ["read"]), ("write", ["write"])], [("peek", ["peek"]), ("clear", ["clear"])]),
            ("FIFO(2 bits, depth 2)", lambda: FIFO([("d", 2)], 2), [("read", ["read"]), ("write", ["write"])], [])]


from ..excl import install as _install  # noqa: E402
_install(globals(), _callers_items())
