"""C15: WideFifo behaves as a bounded queue with batched operations.

Real `WideFifo(shape, depth, read_width, write_width, write_max_count=...)` with one AdapterTrans per method (read,
peek, write, clear); the reference is a queue of `depth` z3 terms plus a count, written from the class docstring and
the property statement and stepped next to the netlist (BMC from reset, every subset of simultaneous calls, every
count / max_count / data argument per cycle):

* a running read(count) returns count' = min(count, level, read_width) and the count' oldest elements, and removes them;
* a running peek returns min(level, read_width) and those oldest elements, and removes nothing;
* a write is accepted only if space remains and the call fits (`count <= free`, with `write_max_count`:
  `max_count <= free`); an accepted write appends data[0..count-1] behind the elements left by a read of that cycle;
* clear empties the queue (also when read/write run in the same cycle).

The statement says "ready only when" / "accepts only if": these are implications.  That fitting calls ARE accepted
is covered existentially by the vacuity witnesses (full queue reached, exact-fit write accepted, pointer wrap-around).

* BMC from reset: every call history up to K cycles (every subset of simultaneous calls, all arguments).
* IND: one transition from any state (level, read/write (row, col) pointers, all memory rows, read-port registers)
  satisfying the representation invariant `level <= depth, pointers in range, write position = read position + level
  (mod depth) in row-major order with the column less significant, and (level != 0 -> the read-port register of column c
  holds mem_c[row needed by the head window])`; the reference queue is the abstraction of the pre-state
  (element k = cell at linear position read+k mod depth).  Proves the step obligations, preservation of the invariant
  and that the post-state refines the reference's next queue, i.e. extends the BMC verdict to histories of any length
  for that configuration.  Not every state satisfying the invariant is argued reachable, so `sat` is recorded as a
  CTI (inconclusive), never as a violation.
"""
import time
import z3
from ..harness import Harness, Built
from ..seq import bmc, Unroll
from ..util import zx, slices, sel

PROP = "C15"
LEVEL = "model_checking"
TECHNIQUE = "BMC from reset against a z3 queue reference + one-step induction with a representation invariant (row/column pointers, read-port registers); z3 QF_BV on the Amaranth netlist (one memory per column, rows explicit)"
BOUNDS = {
    "quick": "(depth, read_width, write_width) in {(2,1,2), (4,2,2), (6,3,2), (6,2,3)}, with and without write_max_count, 2-bit elements, "
             "BMC 8 cycles from reset (7 for (6,2,3)), all subsets of simultaneous read/peek/write/clear calls, all count/max_count/data arguments; "
             "one-step induction for these shapes and (6,3,3), (8,2,2)",
    "thorough": "every (depth <= 8, read_width <= 3, write_width <= 3) with depth a multiple of max(read_width, write_width), with and without "
                "write_max_count, 2-bit elements: BMC 12 cycles from reset, except (6,1,2) and (6,1,3): 11, (6,2,2): 10, (8,2,2) and (6,3,2): 9, "
                "(6,2,3) and (6,3,3): 8 (smaller than the planned 12: solver time grows 2-3x per cycle for these shapes; (6,3,3) exceeds 7 min at 12), "
                "plus one-step induction for every one of these configurations (closes: unbounded histories per configuration); "
                "(4,2,2) BMC 12 and (6,3,2) BMC 8 also with 3-bit elements; induction only for (12,3,2), (16,2,2), (12,2,3)",
}
OUTSIDE = ["histories longer than the BMC bound where the inductive step is not run or not closed", "depths/widths/shapes not enumerated",
           "write calls with count > write_width or (write_max_count) count > max_count: outside the documented argument domain",
           "that read/peek/write are ready whenever they could be (the statement only bounds readiness from above); witnessed, not proved",
           "several simultaneous callers of the nonexclusive peek/clear"]
ASSUMES = ["single clock domain, reset held low", "callers are AdapterTrans transactions (one per method)",
           "write.count <= write_width (layout range(write_width+1)) whenever write is requested",
           "with write_max_count: write.count <= write.max_count whenever write is requested (documented precondition, guarded by an assertion in the code)",
           "read.count and write.max_count range over ALL values of their bit-vectors (also above read_width / write_width): min(count, level, read_width) and "
           "max_count <= free are still well defined",
           "the statement does not say when read, peek and clear are ready; the reference follows the calls that actually ran"]
W = 8
QUERY_TIMEOUT_S = 600.0  # the largest BMC queries need 1-2.5 min of CPU; a loaded machine must not turn them into 'unknown'


def make(cfg):
    from transactron.lib import WideFifo

    d = WideFifo(cfg["width"], cfg["depth"], cfg["rw"], cfg["ww"], write_max_count=cfg["mc"])
    return Harness(d, dict(read=d.read, peek=d.peek, write=d.write, clear=d.clear))


def _bmc_k(depth, rw, ww):
    """BMC depth of the thorough tier: 12 cycles where the query stays below ~1 min of CPU, fewer for the shapes with several
    rows and a wide side (measured CPU of the single BMC query, growing 2-3x per cycle: (6,3,3): 20-60 s at 8, 150 s at 9, >7 min at 12;
    (6,2,2): 40 s at 10, 90 s at 11; (8,2,2): 30 s at 9, 80 s at 10; (6,3,2): 45 s at 9, 70 s at 10; (6,2,3): 50-75 s at 9;
    (6,1,3): 115 s at 12; (6,1,2): 80 s at 12).  The induction step covers longer histories for all of them."""
    return {(6, 2, 2): 10, (8, 2, 2): 9, (6, 3, 2): 9, (6, 2, 3): 8, (6, 3, 3): 8, (6, 1, 3): 11, (6, 1, 2): 11}.get((depth, rw, ww), 12)


def configs(tier, seed):
    out = []
    if tier == "quick":
        for depth, rw, ww in ((2, 1, 2), (4, 2, 2), (6, 3, 2), (6, 2, 3)):
            for mc in (False, True):
                out.append(dict(depth=depth, rw=rw, ww=ww, mc=mc, width=2, K=8 if (rw, ww) != (2, 3) else 7, mode="bmc"))
        for depth, rw, ww in ((2, 1, 2), (4, 2, 2), (6, 3, 2), (6, 2, 3), (6, 3, 3), (8, 2, 2)):
            for mc in (False, True):
                out.append(dict(depth=depth, rw=rw, ww=ww, mc=mc, width=2, mode="ind"))
    else:
        for rw in (1, 2, 3):
            for ww in (1, 2, 3):
                col = max(rw, ww)
                for depth in range(col, 9, col):
                    for mc in (False, True):
                        out.append(dict(depth=depth, rw=rw, ww=ww, mc=mc, width=2, K=_bmc_k(depth, rw, ww), mode="bmc"))
                        out.append(dict(depth=depth, rw=rw, ww=ww, mc=mc, width=2, mode="ind"))
        for depth, rw, ww in ((4, 2, 2), (6, 3, 2)):
            out.append(dict(depth=depth, rw=rw, ww=ww, mc=True, width=3, K=_bmc_k(depth, rw, ww) - (1 if depth == 6 else 0), mode="bmc"))
            out.append(dict(depth=depth, rw=rw, ww=ww, mc=True, width=3, mode="ind"))
        for depth, rw, ww in ((12, 3, 2), (16, 2, 2), (12, 2, 3)):  # induction only: more rows
            out.append(dict(depth=depth, rw=rw, ww=ww, mc=True, width=2, mode="ind"))
        out.sort(key=lambda c: (c["mode"] != "bmc", -c["depth"] * (c["rw"] + c["ww"]) * (1 if min(c["rw"], c["ww"]) > 1 else 0)))  # long jobs first
    return out


def _umin(a, b):
    return z3.If(z3.ULT(a, b), a, b)


def _step(cfg):
    depth, rw, ww, mc, width = cfg["depth"], cfg["rw"], cfg["ww"], cfg["mc"], cfg["width"]
    K = lambda v: z3.BitVecVal(v, W)

    def step(model, o, t):
        q, cnt, total = model
        rd, pk, wr, cl = o.done("read"), o.done("peek"), o.done("write"), o.done("clear")
        rcount = zx(o.arg("read", "count"), W)
        wcount = zx(o.arg("write", "count"), W)
        wdata = slices(o.arg("write", "data"), ww, width)
        asm = [z3.Implies(o.en("write"), z3.ULE(wcount, ww))]
        if mc:
            wmax = zx(o.arg("write", "max_count"), W)
            asm.append(z3.Implies(o.en("write"), z3.ULE(wcount, wmax)))
        free = K(depth) - cnt
        fits = z3.ULE(wmax if mc else wcount, free)
        avail = _umin(cnt, K(rw))          # min(level, read_width)
        rtake = _umin(rcount, avail)       # min(count, level, read_width)
        ro_c, ro_d = zx(o.out("read", "count"), W), slices(o.out("read", "data"), rw, width)
        po_c, po_d = zx(o.out("peek", "count"), W), slices(o.out("peek", "data"), rw, width)
        ob = [("read returns count = min(count, level, read_width)", z3.Implies(rd, ro_c == rtake)),
              ("peek returns count = min(level, read_width)", z3.Implies(pk, po_c == avail)),
              ("write accepted only if space remains", z3.Implies(wr, z3.And(o.en("write"), free != 0))),
              ("write accepted only if it fits (%s <= free slots)" % ("max_count" if mc else "count"), z3.Implies(wr, fits))]
        for i in range(rw):
            ob.append((f"read returns the oldest elements (element {i})", z3.Implies(z3.And(rd, z3.UGT(rtake, i)), ro_d[i] == q[i])))
            ob.append((f"peek returns the oldest elements (element {i})", z3.Implies(z3.And(pk, z3.UGT(avail, i)), po_d[i] == q[i])))
        # reference step: read removes rtake elements, then write appends wcount elements, clear empties
        rt = z3.If(rd, rtake, K(0))

        def shifted(i):
            r = q[i]
            for k in range(1, rw + 1):
                if i + k < depth:
                    r = z3.If(rt == k, q[i + k], r)
            return r

        q1 = [shifted(i) for i in range(depth)]
        c1 = cnt - rt
        wn = z3.If(wr, wcount, K(0))
        q2 = []
        for i in range(depth):
            r = q1[i]
            for j in range(ww):
                r = z3.If(z3.And(z3.UGT(wn, j), c1 + j == i), wdata[j], r)
            q2.append(r)
        c2 = c1 + wn
        cnt2 = z3.If(cl, K(0), c2)
        total2 = z3.If(cl, K(0), total + wn)
        wit = {"full": cnt == depth,
               "write pointer wrapped around (more than depth elements written since reset/clear)": z3.UGT(total2, depth),
               "write that exactly fills the queue is accepted": z3.And(wr, wn != 0, wn == free),
               "read clamped by the level": z3.And(rd, z3.ULT(rtake, rcount), z3.ULT(rtake, rw)) if rw > 1 else z3.And(rd, cnt == 1),
               "clear of a non-empty queue": z3.And(cl, cnt != 0)}
        if depth > 1:
            wit["read and write in the same cycle"] = z3.And(rd, wr, rt != 0, wn != 0)
        if rw > 1:
            wit["read of read_width elements"] = z3.And(rd, rtake == rw)
        if ww > 1:
            wit["write refused because it does not fit"] = z3.And(o.en("write"), z3.Not(wr), free != 0)
        if mc and ww > 1:
            wit["write refused by max_count although count would fit"] = z3.And(o.en("write"), z3.Not(wr), free != 0, z3.ULE(wcount, free))
        return ob, asm, (q2, cnt2, total2), wit

    return step


def _dut_signal(b, name):
    """Signal `name` defined locally in the dut's elaborate (found through the design hierarchy)."""
    for sig in b.paths:
        for hier, nm in b.paths[sig]:
            if nm == name and len(hier) >= 1 and hier[-1] == "dut":
                return sig
    raise KeyError(name)


def run(cfg, ctx):
    b = Built(lambda: make(cfg), trace_functions=(ctx.index == 0))
    ctx.functions = b.functions
    depth, rw, ww, width = cfg["depth"], cfg["rw"], cfg["ww"], cfg["width"]
    nm = f"WideFifo depth {depth} read_width {rw} write_width {ww}{' max_count' if cfg['mc'] else ''}"
    if cfg.get("mode", "bmc") == "bmc":
        init = lambda h: ([z3.BitVecVal(0, width)] * depth, z3.BitVecVal(0, W), z3.BitVecVal(0, W))
        bmc(ctx, nm + " vs queue reference", b, cfg["K"], _step(cfg), init, cosim_k=12 if ctx.index < 4 else 0)
        return
    # --- one-step induction: free state + representation invariant; reference queue = abstraction of the pre-state ---
    col_count = max(rw, ww)
    row_count = depth // col_count
    colw, roww = (col_count - 1).bit_length(), (row_count - 1).bit_length()
    ts = b.ts
    K = lambda v: z3.BitVecVal(v, W)
    mem_of_col = {}
    for mi, cell in ts.mems.items():
        assert cell.name.startswith("storage")
        mem_of_col[int(cell.name[len("storage"):])] = mi
    rp_of_mem = {b.nl.cells[r].memory: r for r in ts.rports}
    assert sorted(mem_of_col) == list(range(col_count)) and len(rp_of_mem) == col_count
    level_sig = _dut_signal(b, "level")
    dut = b.h.dut

    def view(u, o, state):
        """(level, read (row, col), write (row, col), memory rows per column, read-port register per column) of a frame."""
        def idx(sig):
            v = o.sig(sig)
            col = zx(z3.Extract(colw - 1, 0, v), W) if colw else K(0)
            row = zx(z3.Extract(colw + roww - 1, colw, v), W) if roww else K(0)
            return row, col
        rows = [[state[("mem", mem_of_col[c], r)] for r in range(row_count)] for c in range(col_count)]
        rps = [state[("rp", rp_of_mem[mem_of_col[c]])] for c in range(col_count)]
        return zx(o.sig(level_sig), W), idx(dut.read_idx), idx(dut.write_idx), rows, rps

    def lin(rc):
        return rc[0] * col_count + rc[1]

    def elem(rd_idx, rows, k):
        """queue element k: linear position (read position + k) mod depth, column = position % columns, row = position / columns."""
        pos = z3.URem(lin(rd_idx) + k, K(depth))
        c, r = z3.URem(pos, K(col_count)), z3.UDiv(pos, K(col_count))
        return sel([sel(rows[ci], r) for ci in range(col_count)], c)

    def inv(level, rd_idx, wr_idx, rows, rps):
        cs = [z3.ULE(level, depth), z3.ULT(rd_idx[0], row_count), z3.ULT(rd_idx[1], col_count), z3.ULT(wr_idx[0], row_count), z3.ULT(wr_idx[1], col_count),
              lin(wr_idx) == z3.URem(lin(rd_idx) + level, K(depth))]
        nrow = z3.URem(rd_idx[0] + 1, K(row_count))
        for c in range(col_count):  # read-port registers hold the row the head window needs
            cs.append(z3.Implies(level != 0, rps[c] == sel(rows[c], z3.If(z3.UGE(K(c), rd_idx[1]), rd_idx[0], nrow))))
        return z3.And(*cs)

    u = Unroll(b, free_init=True)
    o = u.cycle()
    level, rd_idx, wr_idx, rows, rps = view(u, o, u.state0)
    pre = inv(level, rd_idx, wr_idx, rows, rps)
    q = [elem(rd_idx, rows, k) for k in range(depth)]
    ob, asm, (q2, cnt2, _), wit = _step(cfg)((q, level, K(0)), o, 0)
    u.advance()
    o2 = u.cycle()
    level2, rd2, wr2, rows2, rps2 = view(u, o2, u.state)
    post = inv(level2, rd2, wr2, rows2, rps2)
    refine = z3.And(level2 == cnt2, *[z3.Implies(z3.ULT(K(k), cnt2), elem(rd2, rows2, k) == q2[k]) for k in range(depth)])
    ctx.frames += 2
    ctx.steps += 1
    ctx.witness(f"IND {nm}: invariant satisfiable with a full queue whose head is not at row 0 / column 0", [pre, level == depth] + ([lin(rd_idx) == depth - 1] if depth > 1 else []))
    for k in ("read and write in the same cycle", "write that exactly fills the queue is accepted", "clear of a non-empty queue"):
        if k in wit and depth > 1:
            ctx.witness(f"IND {nm}: '{k}' possible under the invariant", [pre] + asm + [wit[k]])
    u0 = Unroll(b)
    o0 = u0.cycle()
    l0, r0, w0, rows0, rps0 = view(u0, o0, u0.state0)
    ctx.prove(f"IND base {nm}: reset state satisfies the invariant", [], inv(l0, r0, w0, rows0, rps0), u0)
    # CTIs are not violations (the pre-state may be unreachable): record, do not report.
    for gn, goal in [("step obligations", z3.And(*[c for _, c in ob])), ("invariant preserved", post), ("refinement of the queue reference", refine)]:
        s = z3.SolverFor("QF_BV")
        s.set("timeout", 300000)
        s.add(pre, *asm)
        s.add(z3.Not(goal))
        t = time.time()
        r = str(s.check())
        dt = time.time() - t
        ctx.solver_time += dt
        if r == "sat":
            ctx.notes["ind_cti"] = ctx.notes.get("ind_cti", 0) + 1
            ctx._record(f"IND {nm}: {gn} (CTI found; inductive argument not closed, BMC verdict stands)", "induction", "cti", dt)
        else:
            ctx._record(f"IND {nm}: {gn} from any state satisfying the invariant", "obligation", r, dt)


def _reexec(old, new):
    import inspect
    import textwrap
    import transactron.lib.fifo as fifo

    src = textwrap.dedent(inspect.getsource(fifo.WideFifo.elaborate))
    assert old in src
    ns = {}
    exec(src.replace(old, new), fifo.__dict__, ns)
    fifo.WideFifo.elaborate = ns["elaborate"]


def _canary_max_count_ignored():
    # readiness decided by count although max_count is configured
    _reexec("validate_write = lambda count, max_count, data: max_count <= remaining", "validate_write = lambda count, max_count, data: count <= remaining")


def _canary_column_wrap_off_by_one():
    _reexec("with m.If(idx.col + count >= col_count):", "with m.If(idx.col + count > col_count):")


def _canary_read_not_clamped():
    # read advances by the requested count even when fewer elements are available
    _reexec("m.d.comb += read_count.eq(Mux(count > read_available, read_available, count))", "m.d.comb += read_count.eq(count)")


CANARIES = [("WideFifo: write validated by count although write_max_count is set", _canary_max_count_ignored),
            ("WideFifo: column pointer wrap off by one", _canary_column_wrap_off_by_one),
            ("WideFifo: read count not clamped to the available elements", _canary_read_not_clamped)]


def _callers_items():
    from transactron.lib import WideFifo

    return [("WideFifo(2 bits, depth 4, read/write width 2)", lambda: WideFifo(2, 4, 2, 2), [("read", ["read"]), ("write", ["write"])], [("peek", ["peek"]), ("clear", ["clear"])])]


from ..excl import install as _install  # noqa: E402
_install(globals(), _callers_items())
