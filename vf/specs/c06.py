"""C06 body effects follow run: witness statements in comb / av_comb / top_comb / sync are placed in every body and every If/Elif/Else/Switch/FSM branch of generated designs; their effect must equal the documented guard for all inputs and register states (vf/core.py C06 obligations)."""
from ._core_common import *  # noqa

PROP = "C06"
SCHEDULERS = ("eager",)
OPTS = dict(alias=False, combiner=False, fsm=True, nested_methods=True, p_fresh=0.96, witness=True)
BOUNDS = {"quick": "40 batches x 8 random designs with witnesses at every program point (nesting <= 2, nested transactions and methods)", "thorough": "900 batches x 20 designs"}
OUTSIDE = OUTSIDE_COMMON
ASSUMES = ASSUMES_COMMON


def configs(tier, seed):
    return batch_configs(tier, seed, 40, 900, 8 if tier == "quick" else 20, OPTS, SCHEDULERS)


def run(cfg, ctx):
    run_batch(cfg, ctx, {PROP})
