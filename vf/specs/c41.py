"""C41: data helpers are correct (transpose / transpose_layout, U2 and alignment helpers, make_hashable).

(a) `transpose`: for every enumerated two-level layout the REAL `transpose(view)` and `transpose(transpose(view))` are
    elaborated, the netlist is translated to z3 and it is proved for ALL values of the view that
    `transpose(v)[i][o] == v[o][i]` (field offsets computed independently from the layout description) and that
    transposing twice is the identity; `transpose_layout(L)` is compared with an independently built expected
    layout and `transpose_layout(transpose_layout(L)) == L`.  The `data.Const` branch of `transpose` is only sampled.
(b) the numeric helpers of `transactron.utils.data_repr` (`signed_to_int`, `int_to_signed`, `neg`, `bits_from_int`,
    `align_to_power_of_two`, `align_down_to_power_of_two`) are the REAL functions executed on `vf.pysym` proxies
    (signed 128-bit vectors with proved no-overflow side conditions standing for Python ints, forks explored
    exhaustively); for every enumerated width / power the documented function, its range and the inverse laws are
    proved for all values of the stated domain.  The proxies are validated on every law by running concrete values
    through the real function and through the explored paths; a solver model is only reported after the real
    function reproduced it on plain Python ints.
(c) `make_hashable`: this clause is an EXHAUSTIVE ENUMERATION inside the bound, not a solver query (the function
    hashes its leaves, so they cannot be symbolic): for all values of every nested list/dict shape in the bound
    `hash(make_hashable(a))` succeeds and for ALL pairs of values of the same shape
    `a == b  <=>  make_hashable(a) == make_hashable(b)` (decided exactly by grouping the values by their image;
    additionally literally pair by pair for the smaller shapes); equal dicts built in a different insertion order of their
    keys (reversed / rotated, at every nesting level) must map to equal, equally hashed images as well.  Equality is only required between values built from
    the same container types (`[1, 2]` and `(1, 2)` legitimately collapse).
"""
import copy
import importlib
import itertools
import random
import z3

from ..comb import comb
from ..pysym import Engine, concrete_result, model_int, Unsupported

PROP = "C41"
LEVEL = "proof"
ENGINES = ["E1 nir2smt", "E4 pysym"]
TECHNIQUE = ("SMT (z3 QF_BV) on the Amaranth netlist of the real transpose(); symbolic execution of the real integer helpers on "
             "overflow-checked bit-vector proxies, complete per width; exhaustive enumeration for make_hashable")
BOUNDS = {
    "quick": "transpose: struct/array x struct/array, 1..3 x 1..3 fields, leaf widths 1..3 (uniform + 2 seeded width assignments per "
             "shape, a few signed / struct leaves); numeric helpers: width/power 0..32 (1..32 where a width is a bit count), value "
             "symbolic in the full stated domain, bits_from_int for every (lower, length) with lower+length = k and num < 2^(k+2), "
             "align_* for num < 2^(power+16); make_hashable: list/dict of <= 2 elements each a leaf {0,1,2} or a list/dict of <= 3 leaves, "
             "plus 3 elements with inner containers of <= 1 leaf (exhaustive)",
    "thorough": "transpose: all width assignments when <= 4 free leaf widths, 60 seeded ones otherwise; numeric helpers: width/power 0..64; "
                "make_hashable: every list/dict of <= 3 elements each a leaf {0,1,2} or a list/dict of <= 3 leaves (1.16 million values, exhaustive)",
}
OUTSIDE = ["layouts with more than two transposed levels, more than 3x3 fields or leaves wider than 3 bits", "transpose of data.Const beyond sampled values",
           "ValueError behaviour of transpose_layout on malformed layouts", "widths / powers above the enumerated range, negative num for align_* and bits_from_int",
           "layout_subset, data_layout, average_dict_of_lists", "make_hashable on leaves other than small ints, on tuples/sets, deeper nesting, "
           "and equality between values of different container types"]
ASSUMES = ["signed_to_int / neg argument is a U2 number of the given width (0 <= x < 2^xlen); int_to_signed argument is representable (-2^(xlen-1) <= x < 2^(xlen-1))",
           "align_* and bits_from_int are claimed for num >= 0 (docstrings silent on negative numbers)",
           "pysym proxies: signed 128-bit vectors, every + - << unary- carries a proved no-overflow side condition",
           "make_hashable: 'preserves equality' read as: between values of the same container types"]
TRUSTED = ["Amaranth 0.5 elaboration and NIR netlist construction", "vf/nir2smt.py translator (co-simulated against amaranth.sim)",
           "vf/pysym.py proxies (cross-checked against concrete runs of the same functions in every configuration)", "z3 5.1.0",
           "CPython ==/hash on ints, tuples, frozensets, lists, dicts"]
FUNCTIONS = ["transactron/utils/amaranth_ext/data.py:transpose", "transactron/utils/amaranth_ext/data.py:transpose_layout",
             "transactron/utils/amaranth_ext/data.py:transpose_layout_with_keys", "transactron/utils/amaranth_ext/data.py:layout_keys",
             "transactron/utils/data_repr.py:signed_to_int", "transactron/utils/data_repr.py:int_to_signed", "transactron/utils/data_repr.py:neg",
             "transactron/utils/data_repr.py:bits_from_int", "transactron/utils/data_repr.py:align_to_power_of_two",
             "transactron/utils/data_repr.py:align_down_to_power_of_two", "transactron/utils/data_repr.py:make_hashable"]
W = 128
NAMES = ["a", "b", "c"]
INAMES = ["d", "e", "f"]


def _mods():
    return (importlib.import_module("transactron.utils.amaranth_ext.data"), importlib.import_module("transactron.utils.data_repr"))


# ---------------------------------------------------------------------------------------------------------------------
# configurations
# ---------------------------------------------------------------------------------------------------------------------
def _leaf_matrix(ko, ki, no, ni, free):
    """free widths -> no x ni matrix honouring 'array elements share one shape'."""
    it = iter(free)
    if ko == "A" and ki == "A":
        w = next(it)
        return [[w] * ni for _ in range(no)]
    if ko == "A":  # array of structs: one row repeated
        row = [next(it) for _ in range(ni)]
        return [list(row) for _ in range(no)]
    if ki == "A":  # struct of arrays: constant rows
        return [[w] * ni for w in (next(it) for _ in range(no))]
    return [[next(it) for _ in range(ni)] for _ in range(no)]


def _nfree(ko, ki, no, ni):
    return 1 if ko == ki == "A" else ni if ko == "A" else no if ki == "A" else no * ni


def _transpose_configs(tier, seed):
    rng = random.Random(seed * 7919 + 41)
    out = []
    for ko, ki, no, ni in itertools.product("SA", "SA", (1, 2, 3), (1, 2, 3)):
        nf = _nfree(ko, ki, no, ni)
        if tier == "quick":
            frees = {(2,) * nf}
            while len(frees) < min(3, 3 ** nf):
                frees.add(tuple(rng.randint(1, 3) for _ in range(nf)))
        elif nf <= 4:
            frees = set(itertools.product((1, 2, 3), repeat=nf))
        else:
            frees = {(1,) * nf, (3,) * nf}
            while len(frees) < 60:
                frees.add(tuple(rng.randint(1, 3) for _ in range(nf)))
        for fr in sorted(frees):
            out.append(dict(group="transpose", ko=ko, ki=ki, leaves=[[f"u{w}" for w in row] for row in _leaf_matrix(ko, ki, no, ni, fr)]))
    # signed leaves and leaves that are themselves layouts (the third level must be carried along untouched)
    for ko, ki, no, ni in itertools.product("SA", "SA", (2, 3), (2, 3)):
        if tier == "quick" and (no, ni) not in ((2, 3), (3, 2)):
            continue
        for kind in "st":
            fr = tuple(rng.randint(1, 3) for _ in range(_nfree(ko, ki, no, ni)))
            out.append(dict(group="transpose", ko=ko, ki=ki, leaves=[[f"{kind}{w}" for w in row] for row in _leaf_matrix(ko, ki, no, ni, fr)]))
    return out


def _child_opts(maxinner):
    return [["leaf", 0]] + [["list", n] for n in range(maxinner + 1)] + [["dict", n] for n in range(maxinner + 1)]


def _hashable_configs(tier):
    out = []
    full = _child_opts(3)
    for top in ("list", "dict"):
        if tier == "quick":
            out.append(dict(group="hashable", top=top, shapes=[[]] + [[c] for c in full]))
            for c in full:
                out.append(dict(group="hashable", top=top, shapes=[[c, d] for d in full]))
            small = _child_opts(1)
            out.append(dict(group="hashable", top=top, shapes=[list(s) for s in itertools.product(small, repeat=3)]))
        else:
            out.append(dict(group="hashable", top=top, shapes=[[]] + [[c] for c in full] + [[c, d] for c in full for d in full]))
            for c in full:
                for d in full:
                    out.append(dict(group="hashable", top=top, shapes=[[c, d, e] for e in full]))
    out.append(dict(group="hashable_cross", maxleaves=4 if tier == "quick" else 5))
    return out


def configs(tier, seed):
    hi = 32 if tier == "quick" else 64
    out = [dict(group="num", k=k) for k in range(0, hi + 1)]
    out += _transpose_configs(tier, seed)
    out += _hashable_configs(tier)
    return out


# ---------------------------------------------------------------------------------------------------------------------
# (a) transpose
# ---------------------------------------------------------------------------------------------------------------------
def _leaf(code):
    from amaranth import signed, unsigned
    from amaranth.lib import data

    w = int(code[1:])
    if code[0] == "u":
        return unsigned(w), w
    if code[0] == "s":
        return signed(w), w
    return data.StructLayout({"p": 1, "q": w}), w + 1


def _mk(kind, keys, f):
    from amaranth.lib import data

    if kind == "S":
        return data.StructLayout({k: f(n) for n, k in enumerate(keys)})
    return data.ArrayLayout(f(0), len(keys))


def _run_transpose(cfg, ctx):
    from amaranth.lib import data

    DATA, _ = _mods()
    ko, ki, leaves = cfg["ko"], cfg["ki"], cfg["leaves"]
    no, ni = len(leaves), len(leaves[0])
    okeys = NAMES[:no] if ko == "S" else list(range(no))
    ikeys = INAMES[:ni] if ki == "S" else list(range(ni))
    lw = [[_leaf(c)[1] for c in row] for row in leaves]
    L = _mk(ko, okeys, lambda o: _mk(ki, ikeys, lambda i: _leaf(leaves[o][i])[0]))
    expT = _mk(ki, ikeys, lambda i: _mk(ko, okeys, lambda o: _leaf(leaves[o][i])[0]))
    # bit offsets from the description (packed structs, arrays of equally sized elements)
    offL = [[sum(sum(lw[o2]) for o2 in range(o)) + sum(lw[o][:i]) for i in range(ni)] for o in range(no)]
    offT = [[sum(sum(lw[o2][i2] for o2 in range(no)) for i2 in range(i)) + sum(lw[o2][i] for o2 in range(o)) for o in range(no)] for i in range(ni)]
    size = sum(map(sum, lw))
    for o in range(no):
        for i in range(ni):
            fo = L[okeys[o]].offset + L[okeys[o]].shape[ikeys[i]].offset
            ft = expT[ikeys[i]].offset + expT[ikeys[i]].shape[okeys[o]].offset
            if (fo, ft) != (offL[o][i], offT[i][o]) or L.size != size:
                raise AssertionError("harness: offsets computed from the description disagree with amaranth.lib.data")
    desc = f"{'struct' if ko == 'S' else 'array'}[{no}] of {'struct' if ki == 'S' else 'array'}[{ni}] leaves {leaves}"

    def layout_facts():
        TL, ok_, ik_ = DATA.transpose_layout_with_keys(L)
        bad = []
        if TL != expT:
            bad.append(f"transpose_layout gives {TL!r}, expected {expT!r}")
        if list(ok_) != okeys or list(ik_) != ikeys:
            bad.append(f"keys {ok_}/{ik_} expected {okeys}/{ikeys}")
        if DATA.transpose_layout(L) != TL:
            bad.append("transpose_layout disagrees with transpose_layout_with_keys")
        TTL = DATA.transpose_layout(TL)
        if TTL != L:
            bad.append(f"transpose_layout twice gives {TTL!r}, expected {L!r}")
        return bad

    bad = layout_facts()
    ctx.notes["layout_equalities_checked"] = ctx.notes.get("layout_equalities_checked", 0) + 4
    if bad and layout_facts() == bad:
        ctx.violation(f"transpose_layout of {desc}", "; ".join(bad), "re-executed concretely")
        return
    shapes = {}

    def fn(m, s):
        v = data.View(L, s["v"])
        t = DATA.transpose(v)
        tt = DATA.transpose(t)
        shapes["t"], shapes["tt"] = t.shape(), tt.shape()
        return {"t": t.as_value(), "tt": tt.as_value()}

    b, u, o = comb({"v": size}, fn, trace_functions=ctx.index == 0)
    ctx.functions = b.functions
    if shapes["t"] != expT or shapes["tt"] != L:
        ctx.violation(f"shape of transpose(view) for {desc}", f"{shapes['t']!r} / twice {shapes['tt']!r}", "re-executed concretely")
        return
    v, t, tt = o.sig("v"), o.sig("o.t"), o.sig("o.tt")
    if t.size() != size or tt.size() != size:
        ctx.violation(f"width of transpose(view) for {desc}", f"{t.size()} / {tt.size()} != {size}", "elaboration")
        return
    ex = lambda x, off, w: z3.Extract(off + w - 1, off, x)
    eqs = {(o_, i_): ex(t, offT[i_][o_], lw[o_][i_]) == ex(v, offL[o_][i_], lw[o_][i_]) for o_ in range(no) for i_ in range(ni)}

    def detail(m):
        return [f"transpose(v)[{ikeys[i_]!r}][{okeys[o_]!r}] != v[{okeys[o_]!r}][{ikeys[i_]!r}]" for (o_, i_), e in eqs.items()
                if z3.is_false(m.eval(e, model_completion=True))]

    ctx.witness(f"{desc}: fields of v can differ", [ex(v, 0, 1) != ex(v, size - 1, 1)] if size > 1 else [])
    ctx.prove(f"transpose(v)[i][o] == v[o][i] for all keys and all v: {desc}", [], z3.And(*eqs.values()), u, detail=detail)
    ctx.prove(f"transpose(transpose(v)) == v for all v: {desc}", [], tt == v, u)
    # data.Const branch: sampled concrete values (not a proof)
    rng = random.Random(ctx.seed * 31 + ctx.index)
    for val in {0, (1 << size) - 1, *(rng.getrandbits(size) for _ in range(6))}:
        c = L.from_bits(val)
        exp = 0
        for o_ in range(no):
            for i_ in range(ni):
                exp |= ((val >> offL[o_][i_]) & ((1 << lw[o_][i_]) - 1)) << offT[i_][o_]
        run = lambda: (lambda tc: (tc.shape(), tc.as_bits()))(DATA.transpose(c))
        try:
            got = run()
        except Exception as e:  # the real transpose() raises on a Const of a layout it accepts as a View: a violation
            try:
                run()
                again = None
            except Exception as e2:  # noqa
                again = e2
            if again is not None and type(again) is type(e):
                ctx.violation(f"transpose(Const) raises for {desc}", f"value {val:#x}: {type(e).__name__}: {str(e)[:160]}", "re-executed concretely, raises again")
            else:
                ctx.errors.append(f"transpose(Const) raised non-deterministically for {desc}: {e!r}")
            break
        ctx.notes["transpose_const_samples"] = ctx.notes.get("transpose_const_samples", 0) + 1
        if got != (expT, exp) and run() == got:
            ctx.violation(f"transpose(Const) for {desc}", f"value {val:#x}: got {got[1]:#x} over {got[0]!r}, expected {exp:#x}", "re-executed concretely")
            break


# ---------------------------------------------------------------------------------------------------------------------
# (b) numeric helpers on pysym proxies
# ---------------------------------------------------------------------------------------------------------------------
def _B(v):
    return z3.BitVecVal(v, W)


def _laws(D, k):
    """Each law: name, inputs [(name, lo, hi)], run(*xs) -> tuple of results of the REAL functions (works on proxies and on
    ints), goals(xs terms, results terms) -> [(label, z3 Bool)] written from the docstrings, wit(xs terms) -> interesting case."""
    laws = []
    p = k
    pw = 1 << p
    nmax = (1 << (p + 16)) - 1
    laws.append(dict(
        name=f"align_to_power_of_two(num, {p})", ins=[("n", 0, nmax)],
        run=lambda n: (D.align_to_power_of_two(n, p), D.align_to_power_of_two(D.align_to_power_of_two(n, p), p)),
        goals=lambda n, r, r2: [("result is a multiple of 2^power", z3.And(r >= 0, z3.URem(r, _B(pw)) == 0)),
                                ("rounds up by less than 2^power: 0 <= r - num < 2^power", z3.And(r >= n, r < n + _B(pw))),
                                ("aligning an aligned number changes nothing", r2 == r)],
        wit=lambda n: z3.URem(n, _B(pw)) != 0 if p else n > 0))
    laws.append(dict(
        name=f"align_down_to_power_of_two(num, {p})", ins=[("n", 0, nmax)],
        run=lambda n: (D.align_down_to_power_of_two(n, p),),
        goals=lambda n, r: [("result is a multiple of 2^power", z3.And(r >= 0, z3.URem(r, _B(pw)) == 0)),
                            ("rounds down by less than 2^power: 0 <= num - r < 2^power", z3.And(r <= n, n < r + _B(pw)))],
        wit=lambda n: z3.URem(n, _B(pw)) != 0 if p else n > 0))
    for lower in range(0, k + 1):
        length = k - lower

        def goals(n, r, lower=lower, length=length):
            exp = z3.ZeroExt(W - length, z3.Extract(lower + length - 1, lower, n)) if length else _B(0)
            return [(f"equals bits [{lower}, {lower + length}) of num", r == exp)]

        laws.append(dict(name=f"bits_from_int(num, {lower}, {length})", ins=[("n", 0, (1 << (k + 2)) - 1)],
                         run=lambda n, lower=lower, length=length: (D.bits_from_int(n, lower, length),), goals=goals,
                         wit=lambda n: n >= _B(1 << k)))
    if k < 1:
        return laws
    half, full = 1 << (k - 1), 1 << k
    laws.append(dict(
        name=f"int_to_signed(x, {k})", ins=[("x", -half, half - 1)],
        run=lambda x: (D.int_to_signed(x, k), D.signed_to_int(D.int_to_signed(x, k), k)),
        goals=lambda x, r, back: [("U2 representation: x for x >= 0, x + 2^xlen for x < 0", r == z3.If(x < 0, x + _B(full), x)),
                                  ("result within 0 .. 2^xlen - 1", z3.And(r >= 0, r < full)),
                                  ("signed_to_int(int_to_signed(x)) == x", back == x)],
        wit=lambda x: x < 0))
    laws.append(dict(
        name=f"signed_to_int(x, {k})", ins=[("x", 0, full - 1)],
        run=lambda x: (D.signed_to_int(x, k), D.int_to_signed(D.signed_to_int(x, k), k)),
        goals=lambda x, r, back: [("signed value: x below 2^(xlen-1), x - 2^xlen otherwise", r == z3.If(x >= _B(half), x - _B(full), x)),
                                  ("result within -2^(xlen-1) .. 2^(xlen-1) - 1", z3.And(r >= -half, r < half)),
                                  ("int_to_signed(signed_to_int(x)) == x", back == x)],
        wit=lambda x: x >= _B(half)))
    laws.append(dict(
        name=f"neg(x, {k})", ins=[("x", 0, full - 1)],
        run=lambda x: (D.neg(x, k), D.neg(D.neg(x, k), k), D.signed_to_int(D.neg(x, k), k), D.signed_to_int(x, k)),
        goals=lambda x, r, rr, sr, sx: [("U2 negation: 0 for 0, 2^xlen - x otherwise", r == z3.If(x == 0, _B(0), _B(full) - x)),
                                        ("result within 0 .. 2^xlen - 1", z3.And(r >= 0, r < full)),
                                        ("neg(neg(x)) == x", rr == x),
                                        ("signed value is negated (except the most negative number)", z3.Implies(x != _B(half), sr == -sx))],
        wit=lambda x: x == _B(half)))
    return laws


def _prove_py(ctx, name, assumes, goal, replay):
    """ctx.prove for a query about Python code: a model is replayed on the real function with plain ints and only a
    reproduced counterexample stays a violation (anything else is a defect of the proxies = harness error)."""
    box = {}

    def detail(m):
        box["r"] = replay(m)
        return box["r"][1]

    r = ctx.prove(name, assumes, goal, None, detail=detail)
    if r is False:
        ctx.violations.pop()  # filed by the framework as confirmed='n/a'; re-filed below iff it reproduces
        rep, det = box["r"]
        if rep:
            ctx.violation(name, det, confirmed="re-executed concretely")
        else:
            ctx.errors.append(f"solver model of '{name}' does not reproduce on the real function: {det}")
    return r


def _run_num(cfg, ctx):
    _, D = _mods()
    k = cfg["k"]
    rng = random.Random(ctx.seed * 1009 + k)
    note = lambda key, n=1: ctx.notes.__setitem__(key, ctx.notes.get(key, 0) + n)
    for law in _laws(D, k):
        eng = Engine(width=W)
        names = [n for n, _, _ in law["ins"]]

        def body(e):
            xs = [e.int(n, lo, hi) for n, lo, hi in law["ins"]]
            return xs, law["run"](*xs)

        paths = eng.run(body)
        ctx.solver_time += eng.solver_time
        note("pysym_paths", len(paths))
        note("pysym_feasibility_queries", eng.queries)
        dom = []
        for n, lo, hi in law["ins"]:
            v = z3.BitVec(n, W)
            dom += [v >= _B(lo), v <= _B(hi)]
        xt = [z3.BitVec(n, W) for n in names]

        def concrete_goals(env):
            outs = law["run"](*[env[n] for n in names])
            fits = all(-(1 << (W - 1)) <= int(v) < (1 << (W - 1)) for v in outs)
            gl = law["goals"](*[_B(env[n]) for n in names], *[_B(int(v)) for v in outs])
            return outs, [(lab, fits and z3.is_true(z3.simplify(g))) for lab, g in gl]

        ctx.witness(f"{law['name']}: interesting inputs inside the domain", dom + [law["wit"](*xt)])
        ctx.prove(f"{law['name']}: the {len(paths)} explored path(s) cover the whole input domain", dom,
                  z3.Or(*[z3.And(*p.pc) if p.pc else z3.BoolVal(True) for p in paths]), None)
        for pi, p in enumerate(paths):
            if p.side:
                import time
                t0 = time.time()
                ok = eng.side_ok(p)
                ctx._record(f"{law['name']} path {pi}: no-overflow side conditions of the proxies ({len(p.side)})", "side-condition",
                            "unsat" if ok else "sat", time.time() - t0)
                if not ok:
                    ctx.errors.append(f"pysym: possible overflow of the {W}-bit proxies in {law['name']} ({[w for w, _ in p.side]})")
                    continue
            xs, outs = p.result
            gl = law["goals"](*[x.e for x in xs], *[eng.lift(v) for v in outs])
            for gi, (lab, g) in enumerate(gl):
                def replay(m, gi=gi):
                    env = {n: model_int(m, z3.BitVec(n, W)) for n in names}
                    outs_c, res = concrete_goals(env)
                    return (not res[gi][1]), f"inputs {env}: real function gives {outs_c}; '{res[gi][0]}' is {res[gi][1]}"

                _prove_py(ctx, f"{law['name']}: {lab}" + (f" [path {pi}]" if len(paths) > 1 else ""), p.pc, g, replay)
        # validation of the proxies: concrete values through the real function and through the explored paths
        samples = []
        for n, lo, hi in law["ins"]:
            cand = {lo, hi, (lo + hi) // 2, min(max(0, lo), hi), min(max(1, lo), hi), min(max(-1, lo), hi), min(max((1 << k) - 1, lo), hi),
                    min(max(1 << k, lo), hi), min(max((1 << max(k - 1, 0)), lo), hi)}
            cand |= {rng.randint(lo, hi) for _ in range(4)}
            samples.append(sorted(cand))
        for vals in itertools.product(*samples):
            env = dict(zip(names, vals))
            conc = tuple(int(v) for v in law["run"](*vals))
            try:
                _, (_, sym) = concrete_result(paths, env, W)
            except Unsupported as e:
                ctx.errors.append(f"pysym validation: {e} in {law['name']}")
                continue
            note("pysym_concrete_crosschecks")
            if tuple(sym) != conc:
                ctx.errors.append(f"pysym validation: {law['name']} on {env}: proxies give {sym}, real ints give {conc}")


# ---------------------------------------------------------------------------------------------------------------------
# (c) make_hashable: exhaustive enumeration
# ---------------------------------------------------------------------------------------------------------------------
def _child_values(opt):
    kind, n = opt
    if kind == "leaf":
        return [0, 1, 2]
    if kind == "list":
        return [list(t) for t in itertools.product((0, 1, 2), repeat=n)]
    return [dict(zip(NAMES, t)) for t in itertools.product((0, 1, 2), repeat=n)]


def _values(top, shape):
    for combo in itertools.product(*[_child_values(c) for c in shape]):
        combo = copy.deepcopy(combo)
        yield list(combo) if top == "list" else dict(zip(NAMES, combo))


def _same_types(a, b):
    if type(a) is not type(b):
        return False
    if isinstance(a, list):
        return all(_same_types(x, y) for x, y in zip(a, b))
    if isinstance(a, dict):
        return all(_same_types(a[k_], b[k_]) for k_ in a if k_ in b)
    return True


def _reorder(v, mode):
    """structural copy of v with the insertion order of every dict reversed (mode 'rev') or rotated by one (mode 'rot')."""
    if isinstance(v, list):
        return [_reorder(x, mode) for x in v]
    if isinstance(v, dict):
        items = [(k_, _reorder(x, mode)) for k_, x in v.items()]
        items = items[::-1] if mode == "rev" else items[1:] + items[:1]
        return dict(items)
    return v


def _reorderings(v):
    out = []
    for mode in ("rev", "rot"):
        r = _reorder(v, mode)
        if _order_sig(r) != _order_sig(v) and all(_order_sig(r) != _order_sig(x) for x in out):
            out.append(r)
    return out


def _order_sig(v):
    if isinstance(v, list):
        return ("l", tuple(_order_sig(x) for x in v))
    if isinstance(v, dict):
        return ("d", tuple((k_, _order_sig(x)) for k_, x in v.items()))
    return v


def _check_values(ctx, D, label, vals, pairwise_limit):
    """vals: list of values (same shape, or same container types).  Decides a == b <=> mh(a) == mh(b) for ALL pairs."""
    note = lambda key, n=1: ctx.notes.__setitem__(key, ctx.notes.get(key, 0) + n)
    mh = D.make_hashable
    imgs = []
    buckets = {}
    for a in vals:
        try:
            ma = mh(a)
            hash(ma)
        except Exception as e:  # noqa
            try:
                hash(mh(copy.deepcopy(a)))
            except Exception as e2:  # noqa
                ctx.violation(f"hash(make_hashable(v)) succeeds: {label}", f"v = {a!r}: {type(e2).__name__}: {e2}", "re-executed concretely")
                return False
            raise AssertionError(f"harness: non-deterministic failure {e!r}")
        # a == b  =>  equal images: the only equal values built from lists/dicts/ints are structural copies
        b = copy.deepcopy(a)
        if not (a == b and mh(b) == ma and hash(mh(b)) == hash(ma)):
            ctx.violation(f"equal values have equal (and equally hashed) images: {label}", f"a = b = {a!r}: {ma!r} vs {mh(b)!r}", "re-executed concretely")
            return False
        # ... and dicts that differ only in the insertion order of their keys (at any level) are equal values, too
        for r in _reorderings(a):
            mr = mh(r)
            if not (a == r and mr == ma and hash(mr) == hash(ma)):
                ctx.violation(f"equal dicts built in a different key order have equal (and equally hashed) images: {label}",
                              f"a = {a!r}, b = {r!r} (a == b is {a == r}): {ma!r} vs {mr!r}", "re-executed concretely")
                return False
            note("hashable_reordered_equal_values", 1)
        imgs.append(ma)
        buckets.setdefault(ma, []).append(a)
    note("hashable_values_enumerated", len(vals))
    # equal images => equal values: every bucket (values with equal images, found through the images' own hash/==) is pairwise equal
    for ma, grp in buckets.items():
        for x, y in itertools.combinations(grp, 2):
            if x != y and _same_types(x, y) and mh(copy.deepcopy(x)) == mh(copy.deepcopy(y)):
                ctx.violation(f"different values have different images: {label}", f"a = {x!r}, b = {y!r}, both map to {ma!r}", "re-executed concretely")
                return False
    note("hashable_pairs_decided", len(vals) * len(vals))
    if len(vals) <= pairwise_limit:  # literal pair-by-pair decision (cross-check of the grouping argument)
        for i, a in enumerate(vals):
            for j, b in enumerate(vals):
                if (a == b) != (imgs[i] == imgs[j]) and _same_types(a, b):
                    ctx.violation(f"a == b <=> make_hashable(a) == make_hashable(b): {label}", f"a = {a!r}, b = {b!r}: images {imgs[i]!r}, {imgs[j]!r}",
                                  "re-executed concretely")
                    return False
        note("hashable_pairs_compared_literally", len(vals) * len(vals))
    return True


def _run_hashable(cfg, ctx):
    _, D = _mods()
    limit = 81 if ctx.tier == "quick" else 243
    if cfg["group"] == "hashable":
        for shape in cfg["shapes"]:
            vals = list(_values(cfg["top"], shape))
            ctx.notes["hashable_shapes"] = ctx.notes.get("hashable_shapes", 0) + 1
            if not _check_values(ctx, D, f"{cfg['top']} of {shape}", vals, limit):
                return
        ctx.notes["make_hashable_clause_is_exhaustive_enumeration_within_bound"] = True
        return
    # values of DIFFERENT shapes but the same container types (lists of different lengths, dicts with different key sets)
    vals = []
    opts = _child_opts(3)
    for top in ("list", "dict"):
        for n in range(0, 4):
            for shape in itertools.product(opts, repeat=n):
                if sum(max(c[1], 1) if c[0] != "leaf" else 1 for c in shape) <= cfg["maxleaves"]:
                    vals += list(_values(top, list(shape)))
        # dicts over other key sets of the same size
        if top == "dict":
            vals += [{"b": x} for x in (0, 1, 2)] + [{"c": x, "a": y} for x in (0, 1, 2) for y in (0, 1, 2)] + [{"b": [x]} for x in (0, 1, 2)]
    _check_values(ctx, D, f"all shapes with <= {cfg['maxleaves']} leaf positions together", vals, 0)


def run(cfg, ctx):
    g = cfg["group"]
    if g == "transpose":
        _run_transpose(cfg, ctx)
    elif g == "num":
        _run_num(cfg, ctx)
    else:
        _run_hashable(cfg, ctx)


# ---------------------------------------------------------------------------------------------------------------------
# canaries
# ---------------------------------------------------------------------------------------------------------------------
def _patch_src(modname, fname, old, new):
    import inspect
    import textwrap

    mod = importlib.import_module(modname)
    if getattr(getattr(mod, fname), "_verif_canary", False):  # the driver applies the patch once per task, not per process
        return
    src = textwrap.dedent(inspect.getsource(getattr(mod, fname)))
    assert old in src, (fname, old)
    ns = {}
    exec(src.replace(old, new), mod.__dict__, ns)
    ns[fname]._verif_canary = True
    setattr(mod, fname, ns[fname])


def _canary_transpose_identity():
    # the flattened result is built in the order of the ORIGINAL layout (loops swapped): layouts right, data not moved
    _patch_src("transactron.utils.amaranth_ext.data", "transpose", "for i_key in i_keys for o_key in o_keys", "for o_key in o_keys for i_key in i_keys")


def _canary_sign_bit():
    # sign taken from bit xlen instead of bit xlen-1
    _patch_src("transactron.utils.data_repr", "signed_to_int", "2 ** (xlen - 1)", "2 ** xlen")


def _canary_hashable_drops_keys():
    _patch_src("transactron.utils.data_repr", "make_hashable", "((k, make_hashable(v)) for k, v in val.items())", "(make_hashable(v) for v in val.values())")


CANARIES = [("transpose builds the result in the untransposed order", _canary_transpose_identity),
            ("signed_to_int tests bit xlen instead of the sign bit", _canary_sign_bit),
            ("make_hashable forgets the keys of mappings", _canary_hashable_drops_keys)]


def classify(v):
    n = v.get("name", "")
    if "images" in n or "make_hashable" in n:
        return "make_hashable"
    for key in ("transpose", "align_to", "align_down", "bits_from_int", "int_to_signed", "signed_to_int", "neg("):
        if key in n:
            return key.strip("(")
    return "other"
