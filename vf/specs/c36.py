"""C36: bit-manipulation helpers compute their documented functions.

Each helper of transactron.utils.amaranth_ext.functions is instantiated by the real Python code inside a tiny wrapper
module whose inputs are top-level ports; the netlist is translated to z3 and compared, for ALL input values of that
width, with an independently written z3 specification (sum of bits, ite chains, index comparisons, URem).
Every width/modulus is a separate complete query.
"""
import itertools
import z3
from ..comb import comb
from ..util import zx, bit, popcount as zpop

PROP = "C36"
LEVEL = "proof"
ENGINES = ["E1 nir2smt"]
TECHNIQUE = "SMT equivalence (z3 QF_BV) between the Amaranth netlist IR of the real helper and an independent bit-vector specification, complete per width; counterexamples replayed on amaranth.sim"
BOUNDS = {
    "quick": "widths 1..8 for popcount/clz/ctz/lowest-set-bit/mask_* helpers and cyclic_mask; mod_incr/mod_add for mod 1..9, max_incr 0..3 plus three cases with max_incr > mod (several wraps); "
             "sum/or/and/min/max_value on 2..4 operands of widths 1..3; mux/switch_value with 1..2-bit selector",
    "thorough": "widths 1..32; mod 1..39, max_incr 0..9; reductions on 2..5 operands of widths 1..4",
}
OUTSIDE = ["widths above the enumerated range", "mod_add/mod_incr with sig >= mod or incr > max_incr (documented precondition)",
           "cyclic_mask with start/end >= bits", "signed operands of min/max_value", "one_hot_mux (checked under C38)"]
ASSUMES = ["documented preconditions of mod_add / mod_incr / cyclic_mask"]
W = 8
T = z3.BoolVal(True)


def configs(tier, seed):
    hi = 8 if tier == "quick" else 32
    out = [dict(group="bits", w=w) for w in range(1, hi + 1)]
    out += [dict(group="cyclic_mask", w=w) for w in range(1, hi + 1)]
    mods = range(1, 10) if tier == "quick" else range(1, 40)
    mis = range(0, 4) if tier == "quick" else range(0, 10)
    out += [dict(group="mod", mod=m, max_incr=mi) for m in mods for mi in mis]
    out += [dict(group="mod", mod=3, max_incr=5), dict(group="mod", mod=5, max_incr=7), dict(group="mod", mod=6, max_incr=13)]  # several wraps
    nops = (2, 3, 4) if tier == "quick" else (2, 3, 4, 5)
    ws = (1, 2, 3) if tier == "quick" else (1, 2, 3, 4)
    shapes = set()
    for n in nops:
        for k, combo in enumerate(itertools.product(ws, repeat=n)):
            if tier == "quick" and (k * 7 + n) % 5:
                continue
            if tier != "quick" and n >= 4 and (k * 7 + n) % 9:
                continue
            shapes.add(combo)
    out += [dict(group="reduce", widths=list(s)) for s in sorted(shapes)]
    out += [dict(group="switch", selw=sw, dw=dw) for sw in (1, 2) for dw in (1, 3)]
    return out


def _mask(w, pred):
    bits = [z3.If(pred(k), z3.BitVecVal(1, 1), z3.BitVecVal(0, 1)) for k in range(w)]
    return z3.Concat(*reversed(bits)) if w > 1 else bits[0]


def run(cfg, ctx):
    from transactron.utils.amaranth_ext import functions as F

    g = cfg["group"]
    tf = ctx.index == 0
    if g == "bits":
        w = cfg["w"]
        WW = max(W, w.bit_length() + 1)
        b, u, o = comb({"x": w}, lambda m, s: {
            "pc": F.popcount(s["x"]), "ctz": F.count_trailing_zeros(s["x"]), "clz": F.count_leading_zeros(s["x"]),
            "low": F.extract_lowest_set_bit(s["x"]), "clr": F.clear_lowest_set_bit(s["x"]),
            "mfrom": F.mask_from_first_set_bit(s["x"]), "mafter": F.mask_after_first_set_bit(s["x"]),
            "muntil": F.mask_until_first_set_bit(s["x"]), "mbefore": F.mask_before_first_set_bit(s["x"])}, trace_functions=tf)
        ctx.functions = b.functions
        x = o.sig("x")
        ctz = z3.BitVecVal(w, WW)
        for k in reversed(range(w)):
            ctz = z3.If(bit(x, k), z3.BitVecVal(k, WW), ctz)
        clz = z3.BitVecVal(w, WW)
        for k in range(w):
            clz = z3.If(bit(x, k), z3.BitVecVal(w - 1 - k, WW), clz)
        K = lambda k: z3.BitVecVal(k, WW)
        nz = x != 0
        ctx.witness(f"bits w={w}: input with a set bit", [nz])
        goals = {
            "popcount = number of set bits": zx(o.sig("o.pc"), WW) == zpop(x, WW),
            "count_trailing_zeros (width when zero)": zx(o.sig("o.ctz"), WW) == ctz,
            "count_leading_zeros (width when zero)": zx(o.sig("o.clz"), WW) == clz,
            "extract_lowest_set_bit": o.sig("o.low") == _mask(w, lambda k: z3.And(nz, ctz == k)),
            "clear_lowest_set_bit": o.sig("o.clr") == (x & ~_mask(w, lambda k: z3.And(nz, ctz == k))),
            "mask_from_first_set_bit": o.sig("o.mfrom") == _mask(w, lambda k: z3.And(nz, z3.UGE(K(k), ctz))),
            "mask_after_first_set_bit": o.sig("o.mafter") == _mask(w, lambda k: z3.And(nz, z3.UGT(K(k), ctz))),
            "mask_until_first_set_bit": o.sig("o.muntil") == _mask(w, lambda k: z3.Or(z3.Not(nz), z3.ULE(K(k), ctz))),
            "mask_before_first_set_bit": o.sig("o.mbefore") == _mask(w, lambda k: z3.Or(z3.Not(nz), z3.ULT(K(k), ctz))),
        }
        for n, gl in goals.items():
            ctx.prove(f"{n}, width {w}", [], gl, u)
        for n, ow in (("o.pc", w.bit_length()), ("o.low", w), ("o.clr", w), ("o.mfrom", w)):
            if o.sig(n).size() != ow:
                ctx.violation(f"result width of {n} for width {w}", f"{o.sig(n).size()} != {ow}", "elaboration")
    elif g == "cyclic_mask":
        w = cfg["w"]
        aw = max((w - 1).bit_length(), 1)
        b, u, o = comb({"s": aw, "e": aw}, lambda m, s: {"cm": F.cyclic_mask(w, s["s"], s["e"])}, trace_functions=tf)
        ctx.functions = b.functions
        WW = W
        st, en = zx(o.sig("s"), WW), zx(o.sig("e"), WW)
        K = lambda k: z3.BitVecVal(k, WW)
        exp = _mask(w, lambda k: z3.If(z3.ULE(st, en), z3.And(z3.UGE(K(k), st), z3.ULE(K(k), en)), z3.Or(z3.UGE(K(k), st), z3.ULE(K(k), en))))
        cm = o.sig("o.cm")
        pre = [z3.ULT(st, w), z3.ULT(en, w)]
        ctx.witness(f"cyclic_mask bits={w}: wrapping range reachable", pre + ([z3.UGT(st, en)] if w > 1 else []))
        ctx.prove(f"cyclic_mask bits={w}: ones exactly from start to end (wrapping)", pre, z3.Extract(w - 1, 0, zx(cm, max(w, cm.size()))) == exp, u)
    elif g == "mod":
        mod, mi = cfg["mod"], cfg["max_incr"]
        aw = max((mod - 1).bit_length(), 1)
        iw = max(mi.bit_length(), 1)
        b, u, o = comb({"s": aw, "inc": iw}, lambda m, s: {"a": F.mod_add(s["s"], mod, s["inc"], mi), "i": F.mod_incr(s["s"], mod)}, trace_functions=tf)
        ctx.functions = b.functions
        S, I = zx(o.sig("s"), W), zx(o.sig("inc"), W)
        pre = [z3.ULT(S, mod), z3.ULE(I, mi)]
        ctx.witness(f"mod={mod} max_incr={mi}: wrap-around reachable", pre + ([z3.UGE(S + I, mod)] if mi > 0 else []))
        a = o.sig("o.a")
        i_ = o.sig("o.i")
        WA = max(W, a.size())
        ctx.prove(f"mod_add(sig, {mod}, incr, {mi}) = (sig+incr) % {mod}", pre, zx(a, WA) == zx(z3.URem(S + I, z3.BitVecVal(mod, W)), WA), u)
        ctx.prove(f"mod_incr(sig, {mod}) = (sig+1) % {mod}", [z3.ULT(S, mod)], zx(i_, max(W, i_.size())) == zx(z3.URem(S + 1, z3.BitVecVal(mod, W)), max(W, i_.size())), u)
    elif g == "reduce":
        ws = cfg["widths"]
        n = len(ws)
        eqw = max(ws)
        ins = {f"v{i}": w for i, w in enumerate(ws)}
        ins.update({f"e{i}": eqw for i in range(n)})
        b, u, o = comb(ins, lambda m, s: {
            "sum": F.sum_value(*[s[f"v{i}"] for i in range(n)]), "or": F.or_value([s[f"v{i}"] for i in range(n)]),
            "and": F.and_value(*[s[f"e{i}"] for i in range(n)]), "min": F.min_value(*[s[f"v{i}"] for i in range(n)]),
            "max": F.max_value([s[f"v{i}"] for i in range(n)])}, trace_functions=tf)
        ctx.functions = b.functions
        v = [zx(o.sig(f"v{i}"), W) for i in range(n)]
        e = [o.sig(f"e{i}") for i in range(n)]
        tot = sum(v[1:], v[0])
        orr = v[0]
        for x in v[1:]:
            orr = orr | x
        andd = e[0]
        for x in e[1:]:
            andd = andd & x
        mn, mx = v[0], v[0]
        for x in v[1:]:
            mn = z3.If(z3.ULT(x, mn), x, mn)
            mx = z3.If(z3.UGT(x, mx), x, mx)
        ctx.witness(f"reduce {ws}: operands differ", [v[0] != v[1]])
        ctx.prove(f"sum_value over widths {ws} = exact sum", [], zx(o.sig("o.sum"), W) == tot, u)
        ctx.prove(f"or_value over widths {ws}", [], zx(o.sig("o.or"), W) == orr, u)
        ctx.prove(f"and_value over {n} operands of width {eqw}", [], z3.Extract(eqw - 1, 0, zx(o.sig("o.and"), W)) == andd, u)
        ctx.prove(f"min_value over widths {ws}", [], zx(o.sig("o.min"), W) == mn, u)
        ctx.prove(f"max_value over widths {ws}", [], zx(o.sig("o.max"), W) == mx, u)
    elif g == "switch":
        sw, dw = cfg["selw"], cfg["dw"]
        ncase = (1 << sw) - 1
        ins = {"sel": sw, "d": dw, **{f"c{i}": dw for i in range(ncase)}, "a": dw, "b": dw}
        b, u, o = comb(ins, lambda m, s: {
            "sv_def": F.switch_value(s["sel"], [(i, s[f"c{i}"]) for i in range(ncase)] + [(None, s["d"])]),
            "sv_nodef": F.switch_value(s["sel"], [(i, s[f"c{i}"]) for i in range(ncase)]),
            "sv_tuple": F.switch_value(s["sel"], [((0, ncase), s["a"]), (None, s["b"])]),
            "sv_prio": F.switch_value(s["sel"], [(0, s["a"]), (0, s["b"]), (None, s["d"])]),
            "mux": F.mux(s["sel"], s["a"], s["b"])}, trace_functions=tf)
        ctx.functions = b.functions
        selv = o.sig("sel")
        exp = o.sig("d")
        exp0 = z3.BitVecVal(0, dw)
        for i in reversed(range(ncase)):
            exp = z3.If(selv == i, o.sig(f"c{i}"), exp)
            exp0 = z3.If(selv == i, o.sig(f"c{i}"), exp0)
        ctx.witness("switch_value: default reachable", [selv == ncase])
        ctx.prove(f"switch_value with default (sel {sw} bits)", [], o.sig("o.sv_def") == exp, u)
        ctx.prove(f"switch_value without default gives 0 when nothing matches (sel {sw} bits)", [], o.sig("o.sv_nodef") == exp0, u)
        ctx.prove("switch_value with tuple keys", [], o.sig("o.sv_tuple") == z3.If(z3.Or(selv == 0, selv == ncase), o.sig("a"), o.sig("b")), u)
        ctx.prove("switch_value: first matching case wins", [], o.sig("o.sv_prio") == z3.If(selv == 0, o.sig("a"), o.sig("d")), u)
        ctx.prove(f"mux(sel, a, b) = a if sel != 0 else b (sel {sw} bits)", [], o.sig("o.mux") == z3.If(selv != 0, o.sig("a"), o.sig("b")), u)
