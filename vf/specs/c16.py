"""C16: Stack behaves as a bounded LIFO.

Real `Stack(layout, depth)` with one AdapterTrans per method (read, peek, write, clear); the reference is a list of
`depth` z3 terms plus a count, written from the method docstrings / the property statement: read and peek return
slot count-1, read removes it, a write in the same cycle is applied after the read (so it replaces the popped top),
clear empties the stack and wins over a simultaneous write.

* BMC from reset: every call history up to K cycles (every subset of simultaneous calls, all data values).
* IND (thorough, and two depths in quick): one transition from any state (level register, memory rows, read-port
  register) satisfying the representation invariant `level <= depth and (level != 0 -> read-port register =
  mem[level-1])`; the reference state is the abstraction (rows, level) of the pre-state.  Proves the step
  obligations, preservation of the invariant and that the post-state refines the reference's next state.  Not every
  state satisfying the invariant is argued reachable, so a `sat` answer is recorded as a CTI, never as a violation.
"""
import time
import z3
from ..harness import Harness, Built
from ..seq import bmc, Unroll
from ..util import zx, sel

PROP = "C16"
LEVEL = "model_checking"
TECHNIQUE = "BMC from reset against a z3 list reference + one-step induction with a representation invariant; z3 QF_BV on the Amaranth netlist (memory rows explicit)"
BOUNDS = {
    "quick": "depth 1..3 (2-bit data; depth 3 also with a 2-field struct), BMC 2*depth+3 cycles from reset, all subsets of simultaneous "
             "read/peek/write/clear calls, all data values; one-step induction for depth 3 and 4",
    "thorough": "depth 1..5 (widths 1..3 and a 2-field struct up to depth 4; 2-bit for depth 5), BMC min(2*depth+3, 13) cycles; "
                "depth 6..8 (2-bit) BMC 13 cycles; one-step induction for depth 1..9 (2-bit and struct)",
}
OUTSIDE = ["histories longer than the BMC bound where the inductive step is not run or not closed", "depths/layouts not enumerated",
           "several simultaneous callers of the nonexclusive peek/clear"]
ASSUMES = ["single clock domain, reset held low", "callers are AdapterTrans transactions (one per method)",
           "clear racing with write: the stack is empty in the next cycle (docstring of clear); the assertion is on the next cycle's readiness/contents",
           "the statement does not say when clear is ready; the reference follows the clear calls that actually ran"]
W = 8


def _layout(kind):
    if kind == "s":
        return [("a", 1), ("b", 2)], 3
    return [("data", int(kind))], int(kind)


def make(cfg):
    from transactron.lib import Stack

    lay, _ = _layout(cfg["layout"])
    d = Stack(lay, cfg["depth"])
    return Harness(d, dict(read=d.read, peek=d.peek, write=d.write, clear=d.clear), observe=lambda d: dict(level=d.level))


def configs(tier, seed):
    out = []
    if tier == "quick":
        for depth in (1, 2, 3):
            out.append(dict(depth=depth, layout="2", K=2 * depth + 3, mode="bmc"))
        out.append(dict(depth=3, layout="s", K=9, mode="bmc"))
        for depth in (3, 4):
            out.append(dict(depth=depth, layout="2", mode="ind"))
    else:
        for depth in range(1, 6):
            for lay in ("1", "2", "3", "s"):
                if depth >= 5 and lay != "2":
                    continue
                out.append(dict(depth=depth, layout=lay, K=min(2 * depth + 3, 13), mode="bmc"))
        for depth in (6, 7, 8):
            out.append(dict(depth=depth, layout="2", K=13, mode="bmc"))
        for depth in range(1, 10):
            for lay in ("2", "s"):
                out.append(dict(depth=depth, layout=lay, mode="ind"))
    return out


def _step(cfg):
    depth = cfg["depth"]

    def step(model, o, t):
        q, cnt = model
        top = sel(q, cnt - 1)  # q[cnt-1]; only used when cnt != 0
        nonempty = cnt != 0
        notfull = cnt != depth
        rd, wr, pk, cl = o.done("read"), o.done("write"), o.done("peek"), o.done("clear")
        ob = [("read ready iff non-empty", rd == z3.And(o.en("read"), nonempty)),
              ("peek ready iff non-empty", pk == z3.And(o.en("peek"), nonempty)),
              ("write ready iff not full", wr == z3.And(o.en("write"), notfull)),
              ("read returns the most recently pushed element still present", z3.Implies(rd, o.out("read") == top)),
              ("peek returns the most recently pushed element still present", z3.Implies(pk, o.out("peek") == top)),
              ("level register equals the number of stored elements", zx(o.sig("level"), W) == cnt)]
        # read first, then push (same cycle: the pushed value takes the slot of the popped one); peek changes nothing
        c1 = z3.If(rd, cnt - 1, cnt)
        q2 = [z3.If(z3.And(wr, c1 == i), o.arg("write"), q[i]) for i in range(depth)]
        c2 = z3.If(wr, c1 + 1, c1)
        cnt2 = z3.If(cl, z3.BitVecVal(0, W), c2)
        wit = {"full": cnt == depth, "clear and write in the same cycle": z3.And(cl, wr), "peek and read in the same cycle": z3.And(pk, rd),
               "write refused on a full stack": z3.And(o.en("write"), z3.Not(wr))}
        if depth > 1:
            wit["read and write in the same cycle"] = z3.And(rd, wr)
        return ob, [], (q2, cnt2), wit

    return step


def run(cfg, ctx):
    b = Built(lambda: make(cfg), trace_functions=(ctx.index == 0))
    ctx.functions = b.functions
    _, dw = _layout(cfg["layout"])
    depth = cfg["depth"]
    if cfg["mode"] == "bmc":
        init = lambda h: ([z3.BitVecVal(0, dw)] * depth, z3.BitVecVal(0, W))
        bmc(ctx, f"Stack depth {depth} vs LIFO reference", b, cfg["K"], _step(cfg), init, cosim_k=12 if ctx.index < 4 else 0)
        return
    # --- one-step induction: free state + representation invariant; reference state = abstraction of the state ---
    u = Unroll(b, free_init=True)
    o = u.cycle()
    ts = b.ts
    (mi,) = list(ts.mems)
    (rp,) = ts.rports
    rows = [u.state0[("mem", mi, r)] for r in range(depth)]
    head = u.state0[("rp", rp)]
    level = zx(o.sig("level"), W)
    inv = lambda lv, hd, rws: z3.And(z3.ULE(lv, depth), z3.Implies(lv != 0, hd == sel(rws, lv - 1)))
    pre = inv(level, head, rows)
    ob, _, (q2, cnt2), wit = _step(cfg)((rows, level), o, 0)
    u.advance()
    o2 = u.cycle()
    rows2 = [u.state[("mem", mi, r)] for r in range(depth)]
    hd2 = u.state[("rp", rp)]
    lv2 = zx(o2.sig("level"), W)
    post = inv(lv2, hd2, rows2)
    refine = z3.And(lv2 == cnt2, *[z3.Implies(z3.ULT(z3.BitVecVal(i, W), cnt2), rows2[i] == q2[i]) for i in range(depth)])
    ctx.frames += 2
    ctx.steps += 1
    ctx.witness(f"IND depth {depth}: invariant satisfiable with a full stack", [pre, level == depth])
    for k, c in wit.items():
        ctx.witness(f"IND depth {depth}: '{k}' possible under the invariant", [pre, c])
    u0 = Unroll(b)
    o0 = u0.cycle()
    ctx.prove(f"IND base depth {depth}: reset state satisfies the invariant (level 0)", [], zx(o0.sig("level"), W) == 0, u0)
    # CTIs are not violations (the pre-state may be unreachable): record, do not report.
    for nm, goal in [("step obligations", z3.And(*[c for _, c in ob])), ("invariant preserved", post), ("refinement of the LIFO reference", refine)]:
        s = z3.SolverFor("QF_BV")
        s.set("timeout", 120000)
        s.add(pre, z3.Not(goal))
        t = time.time()
        r = str(s.check())
        dt = time.time() - t
        ctx.solver_time += dt
        if r == "sat":
            ctx.notes["ind_cti"] = ctx.notes.get("ind_cti", 0) + 1
            ctx._record(f"IND depth {depth}: {nm} (CTI found; inductive argument not closed, BMC verdict stands)", "induction", "cti", dt)
        else:
            ctx._record(f"IND depth {depth}: {nm} from any state satisfying the invariant", "obligation", r, dt)


def _reexec(old, new):
    import inspect
    import textwrap
    import transactron.lib.stack as S

    src = textwrap.dedent(inspect.getsource(S.Stack.elaborate))
    assert old in src
    ns = {}
    exec(src.replace(old, new), S.__dict__, ns)
    S.Stack.elaborate = ns["elaborate"]


def _canary_push_ignores_read():
    # next_level without the ~read.run guard: read||write grows the stack instead of replacing the top
    _reexec("with m.If(self.write.run & ~self.read.run):", "with m.If(self.write.run):")


def _canary_write_ready_off_by_one():
    _reexec("write_ready.eq(self.level != self.depth)", "write_ready.eq(self.level < self.depth - 1)")


def _canary_read_addr_not_forwarded():
    # read port looks at the old top instead of the next one
    _reexec("data_rdport.addr.eq(next_level - 1)", "data_rdport.addr.eq(self.level - 1)")


CANARIES = [("Stack: simultaneous read and write increments the level", _canary_push_ignores_read),
            ("Stack: write not ready with one free slot", _canary_write_ready_off_by_one),
            ("Stack: read port addressed by the current instead of the next level", _canary_read_addr_not_forwarded)]


def _callers_items():
    from transactron.lib import Stack

    return [("Stack(2 bits, depth 3)", lambda: Stack([("d", 2)], 3), [("read", ["read"]), ("write", ["write"])], [("peek", ["peek"]), ("clear", ["clear"])])]


from ..excl import install as _install  # noqa: E402
_install(globals(), _callers_items())
