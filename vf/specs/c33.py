"""C33: the event log captures and decodes events faithfully.

Four groups of configurations, one per obligation of DESIGN.md §3 C33:

(a) `trig` (netlist engine, all input valuations): small TModule designs place `EventSource.emit` / `top_emit` sites with a
    free multi-bit `when` at top level, inside a transaction body, inside a method body and inside the body of the calling
    transaction, under If / Else / Elif / Switch-Case / Switch-Default nests.  The design is wrapped by the REAL
    `VerilogDebugWrapper(TransactronContextElaboratable(design))`; the harness adds one observer signal per registered
    `EmittedEvent.trigger` / field Value (exactly the Values the capture process samples).  Proved on the netlist:
    trigger == (when != 0) & enclosing conditions & `run` of the enclosing body (top_emit: when != 0 only), field value ==
    the emitted expression, the wrapper's trigger / field signals equal them and bit i of `evlog_triggers` is trigger i.
    Concretely checked: registration order, `schema_from_records` (names, widths, signedness, statics) and the
    `GeneratedEvLog` built by the real `collect_evlog` from the RTLIL name map of that very design.
(b)+(c) `capture` (symbolic execution, E4 pysym): the REAL coroutine of `capture_evlog()` on the records of such an elaborated
    design is driven by a stub simulator whose `tick().sample(...)` rows are K <= 3 cycles of proxies (one per sampled Value
    and cycle); in the same path the REAL `GeneratedEvLogSampler.sample` runs once per cycle with the packed trigger vector and
    once with per-site triggers, its readers resolving the handles of the real `GeneratedEvLog` to the same proxies.  Proved
    per path: the EventLog filled by the process holds exactly `(tick, site, fields)` of every (cycle, site) with non-zero
    trigger in cycle-then-site order, and both sampler logs are equal to it.
(d) `decode` / `consumer` (pysym): symbolic raw records through the real `EventLog.emit_raw`, `decoded()` / `EventDecoder.decode`
    (int fields symbolic, bool fields fork, raw values of Enum fields enumerated path by path over the member set), `save` ->
    `load` and `EventLogWriter` -> `EventLogReader` through an in-memory `open`; `EventConsumer.run` on <= 4 decoded records
    with symbolic cycles: every record dispatched exactly once to the handler of its event type (else `on_unhandled`), cycles
    non-decreasing along the call sequence.

Every solver model of a Python-level obligation is re-executed on the real functions with plain ints before it is reported;
random concrete inputs are pushed through the explored paths and through the real code (proxy validation).  The JSON text
layer is replaced by a structural stub and is outside the claim; a few concrete logs additionally go through the real `json`
(sampled, not part of the proof).
"""
import contextlib
import enum
import importlib
import itertools
import random
import time
import z3
from amaranth import Elaboratable, Module, Signal, Value, signed
from amaranth.hdl import Fragment

from ..harness import Built
from ..seq import Unroll, cosim
from ..util import zx
from ..pysym import Engine, SInt, SBool, Unsupported, ite, model_int

PROP = "C33"
LEVEL = "model_checking"
ENGINES = ["E1 nir2smt", "E4 pysym"]
TECHNIQUE = ("SMT (z3 QF_BV) over the Amaranth netlist of designs with emission sites wrapped by the real VerilogDebugWrapper (all input "
             "valuations, counterexamples replayed on amaranth.sim); symbolic execution (pysym, exhaustive DFS over forks) of the real capture "
             "coroutine, samplers, decoder, log (de)serialisation and consumer on proxies for <= 3 cycles / <= 4 records; models re-executed concretely")
BOUNDS = {
    "quick": "trig: 20 designs of <= 4 sites covering every (body in {top level, transaction, method, calling transaction}) x (context in {none, If, Else, Elif, "
             "Case, Default, If>If, If>Case, Else>Default}) x {emit, top_emit}, when width 0(omitted)..3, <= 3 dynamic fields of width <= 8 "
             "(unsigned, signed, expression, constant, Enum, bool), all input valuations; capture: (sites, cycles) in {(1,3),(2,3),(3,2),(4,2),(2,2),(0,2)} all "
             "trigger / field / tick histories; decode: 8 record lists of <= 4 records; consumer: 6 record lists of <= 4 records, all cycle values",
    "thorough": "trig: 96 designs (the 20 + 76 seeded); capture: 14 designs up to (4 sites, 3 cycles) = 4096 histories of fired sites; decode: 24 record lists; consumer: 16 record lists",
}
OUTSIDE = ["the JSON text layer (json.dumps / json.loads, replaced by a structural stub; only sampled with the real json on concrete logs)",
           "the file system (open is an in-memory stub)", "amaranth.sim's tick().sample() semantics (the stub returns one value per sampled Value and cycle)",
           "more than 4 sites, 3 dynamic fields, 3 cycles, widths above 8, contexts deeper than 2 (FSM states, AvoidedIf)",
           "raw values of Enum-typed fields outside the member set (Enum(value) raises ValueError), records whose value count differs from the schema",
           "the Verilog text and simulators reading it (verilog.convert / cocotb); the name map is taken from amaranth.back.rtlil for the same design",
           "EvLogEnabledKey left disabled (emit is then a no-op by documentation), stability of EventConsumer's sort among equal cycles",
           "transactron.cmd.evlog pretty printer",
           "event fields that are bare, undriven top-level input ports of the design handed to generate_verilog (VerilogDebugWrapper.to_signal drives every undriven "
           "field Signal with its reset value; every field of the harness designs is a driven signal, an expression or a constant)"]
ASSUMES = ["'context active' of a site inside a transaction / method body = the body's own `run` signal of that cycle & the enclosing m.If/m.Switch conditions",
           "capture stub: sim.tick().sample(v...) yields per cycle (clk=True, rst=False, one value per sampled Value in order); the same Value object sampled "
           "twice gets the same value; values range over the full range of the Value's shape (ticks: 64-bit unsigned)",
           "sampler stub: HandleResolver maps a handle of the real GeneratedEvLog back to the signal of the debug wrapper via the (injective) RTLIL name map; that "
           "signal reads the proxy of the EmittedEvent Value it mirrors and the packed vector reads sum(trigger_i != 0) << i -- both equalities are obligations of group (a); "
           "the readers return a signed field in the same (signed) interpretation as amaranth.sim samples it",
           "coroutines are driven with send(None); a suspension of the stubbed awaitables would be reported as unsupported",
           "json stub: dumps(obj) returns a fresh token (no whitespace / newline) standing for a structural copy of obj with tuples turned into lists; loads(text) "
           "returns a copy of the structure behind text.strip(); installed as the module global `json` of transactron.evlog.log",
           "open stub: in-memory text files ('w' truncates, write appends, 'r' yields the lines with their newline); installed as module global `open` of transactron.evlog.log",
           "Enum raw values are enumerated (the harness forks on a symbolic selector), int/bool raw values and cycles stay symbolic (96-bit signed proxies, no "
           "arithmetic on them in the code under test except >> and &)",
           "EventConsumer: 'in cycle order' read as non-decreasing cycles (order among equal cycles not demanded)"]
TRUSTED = ["Amaranth 0.5 elaboration, NIR netlist construction and RTLIL name map", "vf/nir2smt.py translator (counterexamples replayed on amaranth.sim, random traces co-simulated)",
           "vf/pysym.py proxies and the local FastEngine front-end of its decide() (cross-checked against concrete runs of the same functions in every configuration; "
           "a solver query per configuration shows that the explored paths cover the whole input domain)", "dataclasses_json to_dict/from_dict on the concrete schema",
           "z3 5.1.0"]
FUNCTIONS = ["transactron/evlog/emit.py:EventSource.emit", "transactron/evlog/emit.py:EventSource.top_emit", "transactron/utils/gen.py:VerilogDebugWrapper.elaborate",
             "transactron/utils/gen.py:VerilogDebugWrapper.collect_evlog", "transactron/evlog/schema.py:schema_from_records", "transactron/testing/evlog.py:capture_evlog",
             "transactron/testing/evlog.py:_make_evlog_process", "transactron/evlog/sampler.py:GeneratedEvLogSampler.__init__", "transactron/evlog/sampler.py:GeneratedEvLogSampler.sample",
             "transactron/evlog/log.py:EventLog.emit_raw", "transactron/evlog/log.py:EventLog.decoded", "transactron/evlog/log.py:EventDecoder.decode",
             "transactron/evlog/log.py:EventLog.save", "transactron/evlog/log.py:EventLog.load", "transactron/evlog/log.py:EventLogWriter.emit_raw",
             "transactron/evlog/log.py:EventLogReader.__iter__", "transactron/evlog/event.py:Event.from_raw", "transactron/evlog/event.py:_convert_field",
             "transactron/evlog/consumer.py:EventConsumer.run", "transactron/evlog/consumer.py:EventConsumer.dispatch"]
W = 96
CONDW = {"c0": 1, "c1": 2, "c2": 1, "sel": 2}
BODIES = ("none", "T0", "M", "T1")
CTXS = {
    "none": [],
    "if": [["if", "c0"]],
    "else": [["else", "c0"]],
    "elif": [["elif", "c0", "c1"]],
    "case": [["case", "sel", 2]],
    "default": [["default", "sel", [0, 3]]],
    "if_if": [["if", "c1"], ["if", "c2"]],
    "if_case": [["if", "c0"], ["case", "sel", 1]],
    "else_default": [["else", "c2"], ["default", "sel", [1, 2]]],
}


# ---------------------------------------------------------------------------------------------------------------------
# event types (registered once per process in transactron's global registry)
# ---------------------------------------------------------------------------------------------------------------------
class Kind(enum.IntEnum):
    A = 0
    B = 1
    C = 2


class Mode(enum.Enum):
    X = 0
    Y = 1


_EV = None


def events():
    """name -> event class.  Dynamic fields: EvA none; EvB a:int; EvC a:int, b:bool; EvD k:Kind, a:int, m:Mode."""
    global _EV
    if _EV is None:
        from transactron.evlog import Event, event, Static

        class EvA(Event):
            note: Static[str] = "n"

        class EvB(Event):
            a: int
            lane: Static[int]

        class EvC(Event):
            a: int
            b: bool
            flag: Static[bool]

        class EvD(Event):
            k: Kind
            a: int
            m: Mode
            mode: Static[Kind]
            unit: Static[str]

        _EV = {c.__name__: event("verif.c33." + c.__name__)(c) for c in (EvA, EvB, EvC, EvD)}
    return _EV


DYN = {"EvA": [], "EvB": [("a", "int")], "EvC": [("a", "int"), ("b", "bool")], "EvD": [("k", "Kind"), ("a", "int"), ("m", "Mode")]}
ENUMS = {"Kind": Kind, "Mode": Mode}


def statics_of(ev, k):
    """(constructor kwargs, expected raw statics in the schema, expected decoded statics) of site k."""
    if ev == "EvA":
        return ({}, {"note": "n"}, {"note": "n"}) if k % 2 else ({"note": f"s{k}"}, {"note": f"s{k}"}, {"note": f"s{k}"})
    if ev == "EvB":
        return {"lane": k}, {"lane": k}, {"lane": k}
    if ev == "EvC":
        return {"flag": bool(k % 2)}, {"flag": bool(k % 2)}, {"flag": bool(k % 2)}
    md = list(Kind)[k % 3]
    return {"mode": md, "unit": f"u{k}"}, {"mode": md.value, "unit": f"u{k}"}, {"mode": md, "unit": f"u{k}"}


def field_shape(src):
    """(width, signed) the schema must report for a field source description."""
    kind = src[0]
    if kind == "u":
        return src[1], False
    if kind == "s":
        return src[1], True
    if kind == "x":
        return src[1] + 1, False
    if kind == "e":
        return (2, False) if src[1] == "Kind" else (1, False)
    v = int(src[1])
    return (max(v.bit_length(), 1), False) if v >= 0 else ((-v - 1).bit_length() + 1, True)


# ---------------------------------------------------------------------------------------------------------------------
# the design: sites under contexts, wrapped by the real debug wrapper (shared with C34)
# ---------------------------------------------------------------------------------------------------------------------
class CtxDesign(Elaboratable):
    """Harness top.  Subclasses implement place(m, k, site) (the call under test at site k) and post(m) (observer signals)."""

    use_dbg = True

    def __init__(self, cfg):
        self.cfg = cfg
        self.inputs = {}
        self.named = {}
        self.dut = None
        self.ad = {}

    def inp(self, name, width=1):
        if name not in self.inputs:
            self.inputs[name] = Signal(width, name=name)
        return self.inputs[name]

    def obs(self, name, value):
        value = Value.cast(value)
        s = Signal(value.shape(), name=name.replace(".", "_"))
        self.top_m.d.comb += s.eq(value)
        self.named[name] = s
        return s

    def named_signals(self):
        return {n: s for n, s in {**self.inputs, **self.named}.items() if len(s)}

    def input_signals(self):
        return dict(self.inputs)

    def with_ctx(self, m, ctx, leaf):
        if not ctx:
            leaf()
            return
        h, rest = ctx[0], ctx[1:]
        sig = lambda n: self.inp(n, CONDW[n])
        if h[0] == "if":
            with m.If(sig(h[1])):
                self.with_ctx(m, rest, leaf)
        elif h[0] == "else":
            with m.If(sig(h[1])):
                pass
            with m.Else():
                self.with_ctx(m, rest, leaf)
        elif h[0] == "elif":
            with m.If(sig(h[1])):
                pass
            with m.Elif(sig(h[2])):
                self.with_ctx(m, rest, leaf)
        elif h[0] == "case":
            with m.Switch(sig(h[1])):
                with m.Case((h[2] + 1) % 4):
                    pass
                with m.Case(h[2]):
                    self.with_ctx(m, rest, leaf)
        elif h[0] == "default":
            with m.Switch(sig(h[1])):
                for v in h[2]:
                    with m.Case(v):
                        pass
                with m.Default():
                    self.with_ctx(m, rest, leaf)
        else:  # pragma: no cover
            raise AssertionError(h)

    class _Inner(Elaboratable):
        def __init__(self, top):
            self.top = top

        def elaborate(self, platform):
            from transactron import TModule, Transaction, Method, def_method

            d = self.top
            sites = d.cfg["sites"]
            m = TModule()

            def emit_all(body):
                for k, s in enumerate(sites):
                    if s["body"] == body:
                        d.with_ctx(m, s["ctx"], lambda k=k, s=s: d.place(m, k, s))

            emit_all("none")
            d.T0 = Transaction(name="T0")
            with d.T0.body(m, ready=d.inp("req0")):
                emit_all("T0")
            d.M = Method(name="M")

            @def_method(m, d.M, ready=d.inp("rdy"))
            def _():
                emit_all("M")

            d.T1 = Transaction(name="T1")
            with d.T1.body(m, ready=d.inp("req1")):
                d.M(m)
                emit_all("T1")
            return m

    def elaborate(self, platform):
        from transactron.core.context import TransactronContextElaboratable
        from transactron.utils.dependencies import DependencyContext
        from transactron.utils.gen import VerilogDebugWrapper

        m = self.top_m = Module()
        keep = Signal(name="_keep_sync")
        m.d.sync += keep.eq(1)
        self.dm = DependencyContext.get()
        inner = TransactronContextElaboratable(self._Inner(self), dependency_manager=self.dm)
        if self.use_dbg:
            self.dbg = VerilogDebugWrapper(inner)
            m.submodules.dbg = Fragment.get(self.dbg, platform)
        else:
            m.submodules.main = Fragment.get(inner, platform)
        self.named["T0.run"] = self.T0._body.run
        self.named["T1.run"] = self.T1._body.run
        self.named["M.run"] = self.M._body.run
        self.post(m)
        return m


def ctx_cond(o, ctx):
    """enclosing conditions of a site, from the configuration alone."""
    out = []
    for h in ctx:
        if h[0] == "if":
            out.append(o.sig(h[1]) != 0)
        elif h[0] == "else":
            out.append(o.sig(h[1]) == 0)
        elif h[0] == "elif":
            out.append(z3.And(o.sig(h[1]) == 0, o.sig(h[2]) != 0))
        elif h[0] == "case":
            out.append(o.sig(h[1]) == h[2])
        else:
            out.append(z3.And(*[o.sig(h[1]) != v for v in h[2]]))
    return z3.And(*out) if out else z3.BoolVal(True)


def site_active(o, site):
    """'surrounding context active': run of the enclosing body (if any) and the enclosing conditions."""
    run = z3.BoolVal(True) if site["body"] == "none" else o.sig(site["body"] + ".run") == 1
    return z3.And(run, ctx_cond(o, site["ctx"]))


def site_desc(site):
    c = ">".join(h[0] for h in site["ctx"]) or "no condition"
    b = {"none": "top level", "T0": "transaction body", "M": "method body", "T1": "body of the calling transaction"}[site["body"]]
    return f"{site['api']} in {b} under {c}"


def expected_order(sites):
    return [k for body in BODIES for k, s in enumerate(sites) if s["body"] == body]


class EvDesign(CtxDesign):
    def place(self, m, k, site):
        from transactron.evlog import EventSource, EvLogKey

        cls = events()[site["ev"]]
        vals = {}
        self.site_vals = getattr(self, "site_vals", {})
        for j, ((fname, _), src) in enumerate(zip(DYN[site["ev"]], site["fields"])):
            if "share_fields_with" in site:  # the very same Value objects feed two sites
                vals = dict(self.site_vals[site["share_fields_with"]])
                break
            kind = src[0]
            if kind == "c":
                v = src[1]
            else:
                w = 2 if src == ["e", "Kind"] else 1 if src == ["e", "Mode"] else src[1]
                i = self.inp(f"f{k}_{j}", w)
                if kind == "x":
                    v = i + 1
                else:
                    v = Signal(ENUMS[src[1]] if kind == "e" else signed(w) if kind == "s" else w, name=f"fs{k}_{j}")
                    m.d.top_comb += v.eq(i)
            vals[fname] = v
        self.site_vals[k] = vals
        self.index_of = getattr(self, "index_of", {})
        self.index_of[k] = len(self.dm.dependencies[EvLogKey()])
        src_ = EventSource(f"src{k % 2}.u{k}")
        ev = cls.hw(**vals, **statics_of(site["ev"], k)[0])
        kw = {} if site["ww"] == 0 else {"when": self.inp(f"w{k}", site["ww"])}
        if site["api"] == "emit":
            src_.emit(m, ev, **kw)
        else:
            src_.top_emit(ev, **kw)

    def post(self, m):
        from transactron.evlog import get_emitted_events

        self.events = get_emitted_events()
        for i, ev in enumerate(self.events):
            self.obs(f"obs_trig{i}", ev.trigger)
            _, ts, fs = self.dbg.evlog_records[i]
            self.named[f"dbg_trig{i}"] = ts
            for j, fv in enumerate(ev.fields.values()):
                self.obs(f"obs_f{i}_{j}", fv)
                self.named[f"dbg_f{i}_{j}"] = fs[j]
        if self.dbg.evlog_triggers is not None:
            self.named["packed"] = self.dbg.evlog_triggers


def _deps():
    from transactron.evlog import EvLogEnabledKey

    return [(EvLogEnabledKey(), True)]


def elab(cfg, ctx):
    b = Built(lambda: EvDesign(cfg), deps=_deps(), wrap=False, trace_functions=(ctx.index == 0))
    if b.functions:
        ctx.functions = b.functions
    return b


# ---------------------------------------------------------------------------------------------------------------------
# configurations
# ---------------------------------------------------------------------------------------------------------------------
def _rand_fields(rng, ev):
    out = []
    for _, typ in DYN[ev]:
        if typ == "int":
            k = rng.choice("ussxc")
            out.append(["c", rng.choice([0, 5, 200, -3])] if k == "c" else [k, rng.randint(1, 7 if k == "x" else 8)])
        elif typ == "bool":
            out.append(rng.choice([["u", 1], ["u", 1], ["c", True]]))
        else:
            out.append(["e", typ])
    return out


def _site(rng, body, ctxname, api, ev=None, ww=None):
    ev = ev or rng.choice(list(DYN))
    return dict(body=body, ctx=CTXS[ctxname], api=api, ev=ev, ww=rng.randint(0, 3) if ww is None else ww, fields=_rand_fields(rng, ev))


def _trig_configs(tier, seed):
    rng = random.Random(seed * 7919 + 33)
    combos = [(b, c, a) for a in ("emit", "top") for c in CTXS for b in BODIES]
    rng.shuffle(combos)
    out = []
    evs = itertools.cycle(list(DYN))
    for n in range(0, len(combos), 4):
        sites = [_site(rng, b, c, a, next(evs)) for b, c, a in combos[n:n + 4]]
        out.append(dict(group="trig", sites=sites))
    out.append(dict(group="trig", sites=[_site(rng, "T0", "if", "emit", "EvD", 1)]))
    out.append(dict(group="trig", sites=[_site(rng, "M", "none", "emit", "EvC", 0), _site(rng, "M", "else", "emit", "EvC", 3)]))
    if tier != "quick":
        for _ in range(76):
            n = rng.randint(1, 4)
            out.append(dict(group="trig", sites=[_site(rng, rng.choice(BODIES), rng.choice(list(CTXS)), rng.choice(["emit", "emit", "top"])) for _ in range(n)]))
    return out


def _capture_configs(tier, seed):
    rng = random.Random(seed * 104729 + 33)
    shapes = [(1, 3, ["EvD"]), (2, 3, ["EvC", "EvC"]), (3, 2, ["EvB", "EvA", "EvD"]), (4, 2, ["EvC", "EvB", "EvA", "EvB"]), (2, 2, ["EvB", "EvC"]), (0, 2, [])]
    if tier != "quick":
        shapes += [(4, 3, ["EvB", "EvC", "EvA", "EvB"]), (3, 3, ["EvC", "EvC", "EvB"]), (2, 3, ["EvD", "EvD"]), (3, 3, ["EvD", "EvC", "EvB"]),
                   (4, 2, ["EvD", "EvD", "EvC", "EvC"]), (1, 1, ["EvA"]), (2, 1, ["EvB", "EvD"]), (3, 3, ["EvA", "EvA", "EvA"])]
    out = []
    for n, K, evs in shapes:
        sites = [_site(rng, rng.choice(BODIES), rng.choice(list(CTXS)), rng.choice(["emit", "emit", "top"]), ev) for ev in evs]
        if n >= 2 and sites[0]["ev"] == sites[1]["ev"] == "EvC":
            sites[1].update(share_fields_with=0, body=sites[0]["body"], fields=sites[0]["fields"])  # the same Signal objects feed two sites (sampled twice)
        c = dict(group="capture", sites=sites, K=K)
        out += split_cfgs(c) if n * K >= 12 else [c]  # 4096 histories: four tasks of 1024
    return out


def _decode_configs(tier, seed):
    rng = random.Random(seed * 1299709 + 33)
    base = ["EvA", "EvB", "EvC", "EvD"]
    lists = [[1], [2, 0], [3, 1], [0, 0, 1, 1], [2, 2, 1], [3, 2], [1, 3, 0, 2], []]
    if tier != "quick":
        lists += [[3, 3], [2, 2, 2, 2], [1, 1, 1, 1], [0, 3, 0], [2, 3, 2], [3, 0, 1, 1]]
        while len(lists) < 24:
            lists.append([rng.randrange(4) for _ in range(rng.randint(1, 4))])
            if sum(1 for r in lists[-1] if r == 3) > 2:
                lists.pop()
    out = []
    for recs in lists:
        sites = [_site(rng, "none", "none", "emit", ev) for ev in base]
        out.append(dict(group="decode", sites=sites, records=recs))
    return out


def _consumer_configs(tier, seed):
    rng = random.Random(seed * 15485863 + 33)
    lists = [[1, 2], [1, 1, 1], [0, 1, 2, 3], [2, 2, 1, 1], [3], []]
    if tier != "quick":
        lists += [[1, 1, 1, 1], [0, 0, 0, 0], [3, 2, 1, 0], [2, 1, 2, 1], [1, 0], [0, 2, 0], [3, 3, 1], [1, 2, 3], [2, 0, 0, 1], [3, 1, 3, 1]]
    out = []
    for n, recs in enumerate(lists):
        sites = [_site(rng, "none", "none", "emit", ev) for ev in ["EvA", "EvB", "EvC", "EvD"]]
        out.append(dict(group="consumer", sites=sites, records=recs, derived=bool(n % 2)))
    return out


def configs(tier, seed):
    # the heaviest configurations first (one configuration per worker task)
    cap = sorted(_capture_configs(tier, seed), key=lambda c: -len(c["sites"]) * c["K"])
    trig = _trig_configs(tier, seed)
    for c in trig[:3]:
        c["cosim"] = True  # random traces through amaranth.sim and through the encoding
    return cap + _decode_configs(tier, seed) + _consumer_configs(tier, seed) + trig


# ---------------------------------------------------------------------------------------------------------------------
# (a) trigger hardware
# ---------------------------------------------------------------------------------------------------------------------
def field_expected(o, k, j, src):
    """bit-vector the field Value must carry (width of its shape)."""
    w, _ = field_shape(src)
    if src[0] == "c":
        return z3.BitVecVal(int(src[1]), w)
    i = o.sig(f"f{k}_{j}")
    return zx(i, w) + 1 if src[0] == "x" else i


def _structure_facts(b, cfg):
    """concrete facts about registration order, schema and generated locations; returns the list of complaints."""
    from transactron.evlog import schema_from_records
    from amaranth.back import rtlil

    d = b.h
    sites = cfg["sites"]
    n = len(sites)
    bad = []
    order = expected_order(sites)
    if [d.index_of.get(k) for k in order] != list(range(n)) or len(d.events) != n:
        return [f"registration order {getattr(d, 'index_of', None)} is not the emission order {order} ({len(d.events)} sites registered)"]
    schema = schema_from_records(d.events, {"cfg": "x"})
    for k, s in enumerate(sites):
        i = d.index_of[k]
        ss = schema.sites[i]
        exp_f = [(fn, *field_shape(src)) for (fn, _), src in zip(DYN[s["ev"]], s["fields"])]
        got_f = [(f.name, f.width, f.signed) for f in ss.fields]
        if (ss.source_name, ss.event_name, got_f, ss.statics) != (f"src{k % 2}.u{k}", "verif.c33." + s["ev"], exp_f, statics_of(s["ev"], k)[1]):
            bad.append(f"schema of site {k}: {ss} (expected fields {exp_f}, statics {statics_of(s['ev'], k)[1]})")
        if d.events[i].event_type is not events()[s["ev"]] or list(d.events[i].fields) != [fn for fn, _ in DYN[s["ev"]]]:
            bad.append(f"event type of site {k}")
    if schema.metadata != {"cfg": "x"}:
        bad.append(f"metadata {schema.metadata}")
    _, name_map = rtlil.convert_fragment(b.design, name="top")
    inv = {}
    for sig, path in name_map.items():
        inv.setdefault(tuple(path), []).append(sig)
    gen = d.dbg.collect_evlog(name_map)
    look = lambda h: inv.get(tuple(h), [None])
    if gen.schema != schema_from_records(d.events) or len(gen.site_locations) != n:
        bad.append("GeneratedEvLog.schema / number of site locations")
    for i in range(min(n, len(gen.site_locations))):
        loc = gen.site_locations[i]
        _, ts, fs = d.dbg.evlog_records[i]
        if look(loc.trigger) != [ts] or [look(f) for f in loc.fields] != [[f] for f in fs]:
            bad.append(f"site_locations[{i}] does not name the trigger / field signals of site {i}")
    if n and look(gen.triggers_location) != [d.dbg.evlog_triggers]:
        bad.append("triggers_location does not name evlog_triggers")
    if n == 0 and gen.triggers_location is not None:
        bad.append("triggers_location without sites")
    return bad


def _run_trig(cfg, ctx):
    b = elab(cfg, ctx)
    d = b.h
    sites = cfg["sites"]
    n = len(sites)
    u = Unroll(b, free_init=True)
    o = u.cycle()
    ctx.frames += 1
    if cfg.get("cosim"):
        pts, mism = cosim(b, 8, ctx.seed)
        ctx.cosim_points += pts
        ctx.cosim_traces += 1
        if mism:
            ctx.errors.append(f"cosim mismatch encoder vs pysim in cfg {cfg}: {mism[:4]}")
    bad = _structure_facts(b, cfg)
    ctx._record(f"registration order, schema_from_records and GeneratedEvLog locations of {n} site(s)", "obligation", "sat" if bad else "unsat", 0.0)
    if bad:
        again = _structure_facts(Built(lambda: EvDesign(cfg), deps=_deps(), wrap=False), cfg)
        if again:
            ctx.violation("schema / locations of the registered emission sites", "; ".join(again)[:1500], "re-elaborated from scratch with the same outcome")
        else:
            ctx.errors.append(f"non-deterministic structure facts: {bad[:2]}")
        return
    if n and o.sig("packed").size() != n:
        ctx.violation("width of evlog_triggers", f"{o.sig('packed').size()} != {n}", "elaboration")
        return
    gated = [k for k, s in enumerate(sites) if s["api"] == "emit" and (s["body"] != "none" or s["ctx"])]
    if gated:
        k = gated[0]
        ctx.witness(f"site {k}: when holds while the context is inactive", [o.sig(f"w{k}") != 0 if sites[k]["ww"] else z3.BoolVal(True), z3.Not(site_active(o, sites[k]))])
    for k, s in enumerate(sites):
        i = d.index_of[k]
        when = (o.sig(f"w{k}") != 0) if s["ww"] else z3.BoolVal(True)
        exp = z3.And(when, site_active(o, s)) if s["api"] == "emit" else when
        obs = o.sig(f"obs_trig{i}")
        ctx.witness(f"site {k} ({site_desc(s)}) can fire", [exp])
        ctx.prove(f"site {k} ({site_desc(s)}, when {s['ww']} bits): trigger == (when != 0) & context active", [], (obs == 1) == exp, u)
        ctx.prove(f"site {k}: debug-wrapper trigger signal and bit {i} of evlog_triggers equal the trigger", [],
                  z3.And(o.sig(f"dbg_trig{i}") == obs, z3.Extract(i, i, o.sig("packed")) == obs), u)
        eqs = []
        for j, src in enumerate(s["fields"]):
            fo = o.sig(f"obs_f{i}_{j}")
            if fo.size() != field_shape(src)[0]:
                ctx.violation(f"site {k} field {j}: width", f"{fo.size()} != {field_shape(src)[0]}", "elaboration")
                return
            eqs += [fo == field_expected(o, s.get("share_fields_with", k), j, src), o.sig(f"dbg_f{i}_{j}") == fo]
        if eqs:
            ctx.prove(f"site {k}: the {len(s['fields'])} field Value(s) and their debug-wrapper signals carry the emitted values", [], z3.And(*eqs), u)


# ---------------------------------------------------------------------------------------------------------------------
# pysym helpers
# ---------------------------------------------------------------------------------------------------------------------
def lift(x):
    """proxy / int / bool -> signed W-bit term."""
    if isinstance(x, SInt):
        return x.e
    if isinstance(x, SBool):
        return z3.If(x.e, z3.BitVecVal(1, W), z3.BitVecVal(0, W))
    if isinstance(x, (int, bool)):
        return z3.BitVecVal(int(x), W)
    raise Unsupported(f"no term for {type(x).__name__}")


def nonzero(x):
    return z3.simplify(lift(x) != 0)


def subseq_goal(items, got, eq):
    """`got` == [payload for (fired, payload) in items if fired], as one z3 formula.
    items: [(z3 Bool, payload)]; eq(payload, element of got) -> z3 Bool."""
    cnt = z3.BitVecVal(0, 8)
    cl = []
    for f, pay in items:
        alts = [z3.And(cnt == j, eq(pay, g)) for j, g in enumerate(got)]
        cl.append(z3.Implies(f, z3.Or(*alts) if alts else z3.BoolVal(False)))
        cnt = cnt + z3.If(f, z3.BitVecVal(1, 8), z3.BitVecVal(0, 8))
    cl.append(cnt == len(got))
    return z3.And(*cl)


def raw_eq(pay, g):
    """payload (cycle, site, [values]) against a raw record of an EventLog."""
    cyc, site, vals = pay
    try:
        gc, gs, gv = g
        gv = list(gv)
    except Exception:  # noqa
        return z3.BoolVal(False)
    if not isinstance(gs, int) or gs != site or len(gv) != len(vals):
        return z3.BoolVal(False)
    return z3.And(lift(gc) == lift(cyc), *[lift(a) == lift(b) for a, b in zip(gv, vals)])


def raws_equal(a, b):
    if len(a) != len(b):
        return z3.BoolVal(False)
    return z3.And(*[raw_eq(x, y) for x, y in zip(a, b)]) if a else z3.BoolVal(True)


def drive(coro):
    try:
        coro.send(None)
    except StopIteration:
        return
    coro.close()
    raise Unsupported("coroutine suspended: the stub simulator awaited something real")


class StubTick:
    """sim.tick().sample(...).sample(...): an async iterator over K rows of one value per sampled Value."""

    def __init__(self, K, value_of):
        self.K, self.value_of, self.sampled = K, value_of, []

    def sample(self, *vals):
        self.sampled += list(vals)
        return self

    def __aiter__(self):
        self.t = 0
        return self

    async def __anext__(self):
        if self.t >= self.K:
            raise StopAsyncIteration
        t = self.t
        self.t += 1
        return (True, False, *[self.value_of(t, v) for v in self.sampled])


class StubSim:
    def __init__(self, tick):
        self._tick = tick
        self.ticks = 0

    def tick(self, domain="sync"):
        self.ticks += 1
        return self._tick


class Values:
    """one value per (cycle, sampled Value object); mk(name, lo, hi) creates a proxy or looks an int up."""

    def __init__(self, mk):
        self.mk, self.memo, self.names, self.keep = mk, {}, {}, []
        self.derived = {}  # id(Value) -> function(t) for Values that are functions of other sampled Values

    def __call__(self, t, v):
        v = Value.cast(v)
        key = (t, id(v))
        if id(v) in self.derived:
            return self.derived[id(v)](t)
        if key not in self.memo:
            self.keep.append(v)
            n = self.names.setdefault(id(v), len(self.names))
            shp = v.shape()
            lo, hi = (-(1 << (shp.width - 1)), (1 << (shp.width - 1)) - 1) if shp.signed else (0, (1 << shp.width) - 1)
            if shp.width == 0:
                lo = hi = 0
            self.memo[key] = self.mk(f"c{t}_v{n}", lo, hi)
        return self.memo[key]


def prove_py(ctx, name, assumes, goal, replay):
    """ctx.prove for a query about Python code: the model is replayed on the real functions with plain ints; only a reproduced
    counterexample stays a violation (anything else is a defect of the proxies / the harness = harness error)."""
    box = {}

    def detail(m):
        box["r"] = replay(m)
        return box["r"][1]

    r = ctx.prove(name, assumes, goal, None, detail=detail)
    if r is False:
        ctx.violations.pop()
        rep, det = box["r"]
        if rep:
            ctx.violation(name, det, confirmed="re-executed concretely")
        else:
            ctx.errors.append(f"solver model of '{name}' does not reproduce on the real functions: {det}")
    return r


def note(ctx, key, n=1):
    ctx.notes[key] = ctx.notes.get(key, 0) + n


def model_env(m, names):
    return {n: model_int(m, z3.BitVec(n, W)) for n in names}


class FastEngine(Engine):
    """pysym Engine with a sound syntactic front-end for `decide`: the atoms already decided on this path (the literals of the path
    condition) are substituted by their truth values; if the condition simplifies to a constant it is implied (or refuted) by the
    path condition and no solver call is needed; it is recorded as a decision with a single feasible outcome, exactly as the base
    class records a solver-decided one, so the re-execution of a decision prefix stays aligned."""

    _cpc, _cn, _csubs, _cknown = None, 0, None, None
    _SKIP = (z3.Z3_OP_SLEQ, z3.Z3_OP_SGEQ, z3.Z3_OP_ULEQ, z3.Z3_OP_UGEQ)  # range constraints of the inputs: never sub-terms of a condition

    @staticmethod
    def _strip(c):
        pol = True
        while z3.is_not(c):
            c, pol = c.arg(0), not pol
        return c, pol

    def _atoms(self):
        if self._cpc is not self.pc or self._cn > len(self.pc):
            self._cpc, self._cn, self._csubs, self._cknown = self.pc, 0, [], {}
        for c in self.pc[self._cn:]:
            c, pol = self._strip(c)
            if z3.is_app(c) and c.decl().kind() not in self._SKIP and not (z3.is_true(c) or z3.is_false(c)) and c.get_id() not in self._cknown:
                self._csubs.append((c, z3.BoolVal(pol)))
                self._cknown[c.get_id()] = pol
        self._cn = len(self.pc)
        return self._csubs

    retries = 0

    def _check(self, *conds):
        """as the base class, but an `unknown` answer (seen once on a heavily overloaded machine for a trivial query) is retried with a
        fresh solver and a longer timeout before it is reported as unsupported."""
        for attempt in range(3):
            s_ = z3.SolverFor("QF_BV")
            s_.set("timeout", self.timeout_ms * (attempt + 1))
            s_.add(*conds)
            t = time.time()
            r = s_.check()
            self.solver_time += time.time() - t
            self.queries += 1
            if r != z3.unknown:
                return r == z3.sat
            self.retries += 1
        self.unsupported("solver answered unknown on a feasibility query (3 attempts)")

    def known(self, cond):
        """True / False if the (simplified) condition is literally decided on this path, else None."""
        cond = z3.simplify(cond)
        if z3.is_true(cond) or z3.is_false(cond):
            return z3.is_true(cond)
        self._atoms()
        a, pol = self._strip(cond)
        v = self._cknown.get(a.get_id())
        return None if v is None else (v == pol)

    def decide(self, cond):
        cond = z3.simplify(cond)
        if z3.is_true(cond) or z3.is_false(cond) or self._pos < len(self._pending) or not self.pc:
            return super().decide(cond)  # constants, replay of the decision prefix (implied decisions are part of it), first decision
        d = self.known(cond)
        if d is None:
            subs = self._csubs
            c2 = z3.simplify(z3.substitute(cond, *subs)) if subs else cond
            if z3.is_true(c2) or z3.is_false(c2):
                d = z3.is_true(c2)
        if d is not None:
            self._pending.append([d, False])  # recorded like a solver-decided fork with one feasible outcome
            self._pos += 1
            self.pc.append(cond if d else z3.Not(cond))
            return d
        return super().decide(cond)


def eval_paths(paths, env, result_of):
    """concrete inputs -> result of the unique explored path whose path condition they satisfy (proxy validation)."""
    subs = [(z3.BitVec(n, W), z3.BitVecVal(v, W)) for n, v in env.items()]
    ev = lambda t: z3.simplify(z3.substitute(t, *subs))
    memo = {}

    def holds(c):
        k = c.get_id()
        if k not in memo:
            memo[k] = z3.is_true(ev(c))
        return memo[k]

    hit = [p for p in paths if all(holds(c) for c in p.pc)]
    if len(hit) != 1:
        raise Unsupported(f"{len(hit)} paths cover the concrete input {env} (expected exactly 1)")

    def conc(x):
        if isinstance(x, (SInt, SBool)):
            v = ev(x.e)
            if z3.is_bv_value(v):
                return v.as_signed_long()
            if z3.is_true(v) or z3.is_false(v):
                return z3.is_true(v)
            raise Unsupported(f"result not concrete after substitution: {v}")
        if isinstance(x, (list, tuple)):
            return type(x)(conc(y) for y in x)
        return x

    return conc(result_of(hit[0]))


class _Stop(Exception):
    pass


def explore(ctx, label, body, per_path=None, max_paths=6000):
    """explores all paths of body; per_path(index, path) decides the obligations of a path as soon as it is found and returns
    False to stop the exploration (first violation).  Returns (engine, paths, complete)."""
    eng = FastEngine(width=W, max_paths=max_paths)
    t0 = time.time()
    paths = []

    def on_path(p):
        paths.append(p)
        if p.side:
            ok = eng.side_ok(p)
            ctx._record(f"{label}: no-overflow side conditions of the proxies", "side-condition", "unsat" if ok else "sat", 0.0)
            if not ok:
                ctx.errors.append(f"pysym: possible overflow of the {W}-bit proxies in {label}")
        if per_path is not None and per_path(len(paths) - 1, p) is False:
            raise _Stop()

    complete = True
    try:
        eng.run(body, on_path)
    except _Stop:
        complete = False
    ctx.solver_time += eng.solver_time
    note(ctx, "pysym_paths", len(paths))
    note(ctx, "pysym_feasibility_queries", eng.queries)
    if eng.retries:
        note(ctx, "pysym_feasibility_retries_after_unknown", eng.retries)
    ctx.notes["pysym_explore_and_prove_s"] = round(ctx.notes.get("pysym_explore_and_prove_s", 0) + time.time() - t0, 2)
    return eng, paths, complete


def split_cfgs(cfg, names=("c0_v1", "c1_v1")):
    """splits one large configuration into 2^len(names) ones by fixing whether the named sampled value (the first site's trigger in
    cycles 0 and 1) is zero; the cases are exhaustive by construction and every part proves coverage of its own sub-domain."""
    out = []
    for bits in itertools.product((0, 1), repeat=len(names)):
        out.append(dict(cfg, split=dict(zip(names, bits))))
    return out


def split_mk(eng, names, split):
    def mk(name, lo, hi):
        names[name] = (lo, hi)
        v = eng.int(name, lo, hi)
        if name in split:
            eng.assume(v.e != 0 if split[name] else v.e == 0)
        return v

    return mk


def split_dom(split):
    return [(z3.BitVec(n, W) != 0) if b else (z3.BitVec(n, W) == 0) for n, b in split.items()]


def split_fix(env, split, names):
    for n, b in split.items():
        if n in env and (env[n] != 0) != bool(b):
            env[n] = (1 if names[n][1] >= 1 else names[n][0]) if b else 0
    return env


def dom_of(names):
    dom = []
    for nm, (lo, hi) in names.items():
        v = z3.BitVec(nm, W)
        dom += [v >= z3.BitVecVal(lo, W), v <= z3.BitVecVal(hi, W)]
    return dom


def coverage(ctx, label, dom, paths):
    """dom => OR of the path conditions.  Literals of a path condition that are literally domain constraints are dropped from the
    disjuncts (equivalent under dom)."""
    ids = {d.get_id() for d in dom}
    disj = []
    for p in paths:
        rest = [c for c in p.pc if c.get_id() not in ids]
        disj.append(z3.And(*rest) if rest else z3.BoolVal(True))
    ctx.prove(f"{label}: the {len(paths)} explored path(s) cover the whole input domain", dom, z3.Or(*disj) if disj else z3.BoolVal(False), None)


# ---------------------------------------------------------------------------------------------------------------------
# (b) + (c) capture process and samplers
# ---------------------------------------------------------------------------------------------------------------------
class CaptureHarness:
    """Elaborates once; run(mk) executes the real capture process and both samplers for K cycles on values made by mk."""

    def __init__(self, cfg, ctx):
        from amaranth.back import rtlil
        from transactron.testing.tick_count import TicksKey

        self.cfg, self.K = cfg, cfg["K"]
        self.b = elab(cfg, ctx)
        self.d = self.b.h
        self.ticks = Signal(64, name="ticks")
        self.b.dm.add_dependency(TicksKey(), self.ticks)
        _, name_map = rtlil.convert_fragment(self.b.design, name="top")
        self.gen = self.d.dbg.collect_evlog(name_map)
        self.inv = {}
        for sig, path in name_map.items():
            self.inv.setdefault(tuple(path), []).append(sig)
        self.mirror = {}
        for (em, ts, fs) in self.d.dbg.evlog_records:
            self.mirror[id(ts)] = em.trigger
            for f, v in zip(fs, em.fields.values()):
                self.mirror[id(f)] = v
        self.recs = self.d.events

    def run(self, mk):
        import dataclasses
        from transactron.utils.dependencies import DependencyContext
        from transactron.testing.evlog import capture_evlog
        from transactron.evlog import GeneratedEvLogSampler, EventLog

        V = Values(mk)
        K = self.K
        tick = StubTick(K, V)
        sim = StubSim(tick)
        with DependencyContext(self.b.dm):
            log, process = capture_evlog({"run": 1})
            drive(process(sim))
        cur = {"t": 0}

        def packed():
            r = 0
            for i, rec in enumerate(self.recs):
                v = V(cur["t"], rec.trigger)
                nz = v != 0
                if isinstance(nz, SBool) and isinstance(nz.eng, FastEngine):
                    k = nz.eng.known(nz.e)  # already decided on this path (by the capture process): equal under the path condition
                    nz = nz if k is None else k
                r = ite(nz, 1 << i, 0) | r
            return r

        def resolve(handle):
            sigs = self.inv.get(tuple(handle))
            if not sigs or len(sigs) != 1:
                raise AssertionError(f"harness: handle {handle} is not a unique signal of the design")
            sig = sigs[0]
            if sig is self.d.dbg.evlog_triggers:
                return packed
            src = self.mirror[id(sig)]
            return lambda: V(cur["t"], src)

        s_packed = GeneratedEvLogSampler(self.gen, resolve)
        s_site = GeneratedEvLogSampler(dataclasses.replace(self.gen, triggers_location=None), resolve)
        log_p, log_s = EventLog(self.gen.schema), EventLog(self.gen.schema)
        for t in range(K):
            cur["t"] = t
            s_packed.sample(V(t, self.ticks), log_p)
            s_site.sample(V(t, self.ticks), log_s)
        items = []
        for t in range(K):
            for i, rec in enumerate(self.recs):
                items.append((V(t, rec.trigger), (V(t, self.ticks), i, [V(t, f) for f in rec.fields.values()])))
        return dict(log=log, raw=log.raw, raw_p=log_p.raw, raw_s=log_s.raw, items=items, sim=sim, tick=tick, V=V)


def _run_capture(cfg, ctx):
    h = CaptureHarness(cfg, ctx)
    n, K = len(cfg["sites"]), cfg["K"]
    split = cfg.get("split", {})
    label = f"capture {n} site(s) x {K} cycle(s)" + (f" [part {split}]" if split else "")
    dom_box = {}

    def body(eng):
        names = {}
        r = h.run(split_mk(eng, names, split))
        dom_box["names"] = names
        return r

    def concrete(env):
        r = h.run(lambda name, lo, hi: env.get(name, lo))
        exp = [(c, s, f) for trig, (c, s, f) in r["items"] if trig != 0]
        plain = lambda raw: [(c, s, list(v)) for c, s, v in raw]
        return exp, plain(r["raw"]), plain(r["raw_p"]), plain(r["raw_s"])

    def per_path(pi, p):
        r = p.result
        names = dom_box["names"]
        items = [(nonzero(trig), pay) for trig, pay in r["items"]]
        g_b = subseq_goal(items, r["raw"], raw_eq)
        goal = z3.And(g_b, raws_equal(r["raw"], r["raw_p"]), raws_equal(r["raw"], r["raw_s"]))

        def replay(m):
            env = model_env(m, names)
            exp, got, got_p, got_s = concrete(env)
            bad = got != exp or got_p != got or got_s != got
            return bad, f"sampled values {env}: expected records {exp}; capture process {got}; packed sampler {got_p}; per-site sampler {got_s}"

        return prove_py(ctx, f"{label} [path {pi}: {len(r['raw'])} record(s)]: log == fired (cycle, site, fields) in order; packed and per-site sampler logs identical",
                        p.pc, goal, replay) is not False

    eng, paths, complete = explore(ctx, label, body, per_path)
    ctx.frames += K * len(paths)  # symbolic cycles of the stub simulator
    ctx.steps += K * len(paths)
    names = dom_box.get("names", {})
    dom = dom_of(names) + split_dom(split)
    if not complete:
        return
    coverage(ctx, label, dom, paths)
    if n and not split:
        for wn, ok in (("some explored history records every (cycle, site)", any(len(p.result["raw"]) == n * K for p in paths)),
                       ("some explored history records nothing", any(len(p.result["raw"]) == 0 for p in paths))):
            ctx._record(f"{label}: {wn}", "witness", "sat" if ok else "unsat", 0.0)
            if not ok:
                ctx.errors.append(f"vacuity: {label}: no path where {wn}")
    r0 = paths[0].result if paths else None
    if r0 is not None:
        sampled_ok = (not n) or (r0["sim"].ticks == 1 and r0["tick"].sampled and r0["tick"].sampled[0] is h.ticks)
        ctx._record(f"{label}: the process samples one tick trigger with the tick counter first", "obligation", "unsat" if sampled_ok else "sat", 0.0)
        if not sampled_ok:
            ctx.violation(f"{label}: sampled Values", f"tick() calls {r0['sim'].ticks}, sampled {r0['tick'].sampled[:3]}", "re-executed concretely")
        if r0["log"].schema.metadata != {"run": 1}:
            ctx.violation(f"{label}: metadata of the captured log", str(r0["log"].schema.metadata), "re-executed concretely")
    # proxy validation: random concrete histories through the explored paths and through the real code
    rng = random.Random(ctx.seed * 31 + ctx.index)
    for _ in range(6 if names else 0):
        env = {nm: (rng.choice([lo, hi, 0 if lo <= 0 <= hi else lo]) if rng.random() < 0.3 else rng.randint(lo, hi)) for nm, (lo, hi) in names.items()}
        env = split_fix(env, split, names)
        exp, got, got_p, got_s = concrete(env)
        try:
            sym = eval_paths(paths, env, lambda p: [(c, s, list(v)) for c, s, v in p.result["raw"]])
        except Unsupported as e:
            ctx.errors.append(f"pysym validation: {e} in {label}")
            continue
        note(ctx, "pysym_concrete_crosschecks")
        if [tuple(x) for x in sym] != [tuple(x) for x in got]:
            ctx.errors.append(f"pysym validation: {label} on {env}: proxies give {sym}, real ints give {got}")


# ---------------------------------------------------------------------------------------------------------------------
# stubs of json / open for the (de)serialisation layer
# ---------------------------------------------------------------------------------------------------------------------
class JsonStub:
    """Structural stand-in of the json module: a token per dumped object.  Mirrors what JSON does to the STRUCTURE (tuples become
    lists, mapping keys must be strings, IntEnum members become ints, surrounding whitespace is ignored by loads)."""

    def __init__(self):
        self.table = {}

    def copy(self, x):
        if isinstance(x, (SInt, SBool)) or x is None or isinstance(x, (bool, str, float)):
            return x
        if isinstance(x, enum.Enum):
            if isinstance(x, int):
                return int(x)
            raise TypeError(f"Object of type {type(x).__name__} is not JSON serializable")
        if isinstance(x, int):
            return x
        if isinstance(x, (list, tuple)):
            return [self.copy(y) for y in x]
        if isinstance(x, dict):
            if not all(isinstance(k, str) for k in x):
                raise Unsupported("json stub: non-string mapping key")
            return {k: self.copy(v) for k, v in x.items()}
        raise TypeError(f"Object of type {type(x).__name__} is not JSON serializable")

    def dumps(self, obj, **kw):
        tok = f"<json#{len(self.table)}>"
        self.table[tok] = self.copy(obj)
        return tok

    def loads(self, s, **kw):
        if not isinstance(s, str) or s.strip() not in self.table:
            raise ValueError(f"json stub: {s!r} is not a dumped document")
        return self.copy(self.table[s.strip()])


class RealJson:
    """the real json module behind the same in-memory files (concrete sampled runs only)."""

    def __init__(self):
        import json

        self.dumps, self.loads = json.dumps, json.loads


class MemFS:
    def __init__(self):
        self.files = {}
        self.opened = []

    def open(self, name, mode="r", *a, **kw):
        fs = self
        self.opened.append((name, mode))
        if mode == "w":
            fs.files[name] = ""

            class Wr:
                closed = False

                def write(self, s):
                    if not isinstance(s, str) or self.closed:
                        raise TypeError("write() argument must be str / file closed")
                    fs.files[name] += s
                    return len(s)

                def close(self):
                    self.closed = True

                def __enter__(self):
                    return self

                def __exit__(self, *exc):
                    self.close()

            return Wr()
        if mode != "r":
            raise Unsupported(f"open stub: mode {mode!r}")
        if name not in fs.files:
            raise FileNotFoundError(name)
        lines = fs.files[name].splitlines(keepends=True)

        class Rd:
            pos = 0

            def readline(self):
                if self.pos >= len(lines):
                    return ""
                self.pos += 1
                return lines[self.pos - 1]

            def __iter__(self):
                return self

            def __next__(self):
                ln = self.readline()
                if ln == "":
                    raise StopIteration
                return ln

            def close(self):
                pass

            def __enter__(self):
                return self

            def __exit__(self, *exc):
                pass

        return Rd()


@contextlib.contextmanager
def patched_io(js, fs):
    L = importlib.import_module("transactron.evlog.log")
    old_json = L.json
    had_open = "open" in L.__dict__
    old_open = L.__dict__.get("open")
    L.json = js
    L.open = fs.open
    try:
        yield
    finally:
        L.json = old_json
        if had_open:
            L.open = old_open
        else:
            del L.open


# ---------------------------------------------------------------------------------------------------------------------
# (d) decode / save-load / writer-reader
# ---------------------------------------------------------------------------------------------------------------------
class Failed:
    """result of a guarded step that could not run on proxies (AttributeError on any use -> caught by the oracle below)."""

    def __init__(self, why):
        self.why = why


class DecodeHarness:
    def __init__(self, cfg, ctx):
        from transactron.utils.dependencies import DependencyContext
        from transactron.testing.evlog import capture_evlog

        self.cfg = cfg
        self.b = elab(cfg, ctx)
        self.d = self.b.h
        with DependencyContext(self.b.dm):
            self.schema = capture_evlog({"design": "d", "n": [1, 2]})[0].schema
        # site index in the schema -> configuration site
        self.cfg_site = {self.d.index_of[k]: k for k in range(len(cfg["sites"]))}

    def raw_inputs(self, mk, pick):
        """the symbolic raw records: [(cycle, schema site index, [values])]; Enum fields are picked (enumerated) by `pick`."""
        out = []
        for r, k in enumerate(self.cfg["records"]):
            s = self.cfg["sites"][k]
            i = self.d.index_of[k]
            vals = []
            for j, ((fn, typ), fs) in enumerate(zip(DYN[s["ev"]], self.schema.sites[i].fields)):
                lo, hi = (-(1 << (fs.width - 1)), (1 << (fs.width - 1)) - 1) if fs.signed else (0, (1 << fs.width) - 1)
                if typ in ENUMS:
                    vals.append(pick(f"r{r}_f{j}", [mbr.value for mbr in ENUMS[typ]]))
                else:
                    vals.append(mk(f"r{r}_f{j}", lo, hi))
            out.append((mk(f"r{r}_cycle", 0, (1 << 64) - 1), i, vals))
        return out

    def run(self, mk, pick, js, eng=None):
        """every step that consumes the result of an earlier one is guarded: if a (mutated) earlier step hands a proxy to a place that
        needs a concrete value the step is recorded as failed and the concrete re-execution decides."""
        from transactron.evlog import EventLog, EventLogWriter, EventLogReader

        def guard(fn):
            try:
                return fn()
            except Unsupported as e:
                if eng is not None:
                    eng._unsupported = None
                return Failed(f"not executable on symbolic values: {e}")
            except Exception as e:  # noqa: the code under test raised inside the documented domain
                return Failed(f"raised {type(e).__name__}: {e}")

        raws = self.raw_inputs(mk, pick)
        fs = MemFS()
        with patched_io(js, fs):
            log = EventLog(self.schema)
            for c, i, vals in raws:
                log.emit_raw(c, i, tuple(vals))
            dec = guard(log.decoded)
            log.save("a.jsonl")
            loaded = guard(lambda: EventLog.load("a.jsonl"))
            dec_loaded = guard(lambda: loaded.decoded())
            rd_a = guard(lambda: EventLogReader("a.jsonl"))
            dec_rd_a = guard(lambda: list(rd_a))

            def write_b():
                with EventLogWriter("b.jsonl", self.schema) as wr:
                    for c, i, vals in raws:
                        wr.emit_raw(c, i, vals)

            guard(write_b)
            rd_b = guard(lambda: EventLogReader("b.jsonl"))
            dec_rd_b = guard(lambda: list(rd_b))
            loaded_b = guard(lambda: EventLog.load("b.jsonl"))
        return dict(raws=raws, log=log, dec=dec, loaded=loaded, dec_loaded=dec_loaded, rd_a=rd_a, dec_rd_a=dec_rd_a, rd_b=rd_b, dec_rd_b=dec_rd_b,
                    loaded_b=loaded_b, files=dict(fs.files))

    # ---- oracle ----
    def decoded_goal(self, raws, dec):
        """z3 goal + list of concrete complaints: dec == the decoded form of raws (from the documentation of Event / EventDecoder)."""
        from transactron.evlog.log import DecodedEvent

        if not isinstance(dec, list) or len(dec) != len(raws):
            return z3.BoolVal(False), [f"{len(dec) if isinstance(dec, list) else type(dec)} decoded events for {len(raws)} records"]
        goals, bad = [], []
        for r, ((c, i, vals), de) in enumerate(zip(raws, dec)):
            k = self.cfg_site[i]
            s = self.cfg["sites"][k]
            cls = events()[s["ev"]]
            if not isinstance(de, DecodedEvent) or de.site is not self.site_obj(de, i) or type(de.event) is not cls or de.source_name != f"src{k % 2}.u{k}":
                bad.append(f"record {r}: wrong site / event type: {de!r:.200}")
                continue
            goals.append(lift(de.cycle) == lift(c))
            for (fn, typ), v in zip(DYN[s["ev"]], vals):
                got = getattr(de.event, fn)
                if typ == "int":
                    if isinstance(got, (SBool, bool)) and not isinstance(v, (SBool, bool)):
                        bad.append(f"record {r}: int field {fn} decoded as {type(got).__name__}")
                    goals.append(lift(got) == lift(v))
                elif typ == "bool":
                    if not isinstance(got, bool):
                        bad.append(f"record {r}: bool field {fn} decoded as {type(got).__name__}")
                    else:
                        goals.append(nonzero(v) == z3.BoolVal(got))
                else:
                    if not (isinstance(got, ENUMS[typ]) and isinstance(v, int) and got.value == v):
                        bad.append(f"record {r}: {typ} field {fn} decoded as {got!r} from raw {v!r}")
            for fn, want in statics_of(s["ev"], k)[2].items():
                got = getattr(de.event, fn)
                if type(got) is not type(want) or got != want:
                    bad.append(f"record {r}: static field {fn} decoded as {got!r}, expected {want!r}")
        if bad:
            return z3.BoolVal(False), bad
        return (z3.And(*goals) if goals else z3.BoolVal(True)), bad

    def site_obj(self, de, i):
        return self._cur_schema.sites[i]

    def check(self, r):
        """-> [(label, z3 goal, concrete complaints)] for one executed path (or one concrete run)."""
        out = []
        raws = r["raws"]
        plain = [(c, i, list(v)) for c, i, v in raws]
        lg = r["log"]
        F = z3.BoolVal(False)

        def add(label, needs, fn):
            failed = [x.why for x in needs if isinstance(x, Failed)]
            if failed:
                out.append((label, F, failed))
                return
            try:
                g, bad = fn()
            except Unsupported:
                raise
            except Exception as e:  # noqa: a malformed result (wrong types) is a complaint, decided by the concrete re-execution
                g, bad = F, [f"malformed result: {type(e).__name__}: {e}"]
            out.append((label, g, bad))

        def decoded(schema, dec):
            self._cur_schema = schema
            return self.decoded_goal(raws, dec)

        add("EventLog.emit_raw stores (cycle, site, list(values)) in call order", [],
            lambda: (raws_equal(plain, lg.raw), [] if all(isinstance(x, tuple) and isinstance(x[2], list) for x in lg.raw) else ["raw records are not (int, int, list) tuples"]))
        add("EventLog.decoded(): cycle, site schema, event class, int/bool/Enum dynamic fields in schema order, statics", [r["dec"]], lambda: decoded(lg.schema, r["dec"]))
        ld = r["loaded"]
        add("save -> load: same schema and same raw records in order", [ld],
            lambda: (raws_equal(plain, ld.raw), [] if ld.schema == self.schema and ld is not lg else [f"loaded schema differs: {ld.schema}"]))
        add("save -> load -> decoded() == decoded()", [ld, r["dec_loaded"]], lambda: decoded(ld.schema, r["dec_loaded"]))
        add("save -> EventLogReader: schema and the same decoded events", [r["rd_a"], r["dec_rd_a"]],
            lambda: self._with(decoded(r["rd_a"].schema, r["dec_rd_a"]), r["rd_a"].schema == self.schema, "reader schema differs"))
        add("EventLogWriter -> EventLogReader: schema and the same decoded events", [r["rd_b"], r["dec_rd_b"]],
            lambda: self._with(decoded(r["rd_b"].schema, r["dec_rd_b"]), r["rd_b"].schema == self.schema, "reader schema differs"))
        lb = r["loaded_b"]
        add("EventLogWriter -> EventLog.load: same schema and raw records", [lb], lambda: (raws_equal(plain, lb.raw), [] if lb.schema == self.schema else ["schema differs"]))
        nlines = [len(txt.splitlines()) for txt in r["files"].values()]
        add("JSON-lines layout: one header line and one line per record in both files", [], lambda: (z3.BoolVal(nlines == [len(raws) + 1] * 2), []))
        return out

    @staticmethod
    def _with(gb, ok, msg):
        g, bad = gb
        return (g, bad) if ok else (z3.BoolVal(False), bad + [msg])


def _enum_picker(eng, names):
    def pick(name, members):
        sel = eng.int(name, min(members), max(members))
        names[name] = (min(members), max(members))
        for v in members[:-1]:
            if eng.decide(sel.e == v):
                return v
        eng.assume(sel.e == members[-1])
        return members[-1]

    return pick


def _run_decode(cfg, ctx):
    h = DecodeHarness(cfg, ctx)
    nrec = len(cfg["records"])
    label = f"decode {[cfg['sites'][k]['ev'] for k in cfg['records']]}"
    box = {}

    def body(eng):
        names = {}

        def mk(name, lo, hi):
            names[name] = (lo, hi)
            return eng.int(name, lo, hi)

        r = h.run(mk, _enum_picker(eng, names), JsonStub(), eng)
        box["names"] = names
        return r

    enum_names = {f"r{r}_f{j}": [mbr.value for mbr in ENUMS[typ]] for r, k in enumerate(cfg["records"])
                  for j, (_, typ) in enumerate(DYN[cfg["sites"][k]["ev"]]) if typ in ENUMS}

    def concrete(env, js):
        r = h.run(lambda name, lo, hi: env.get(name, lo), lambda name, members: env.get(name, members[0]), js)
        res = []
        for lab, g, bad in h.check(r):
            res.append((lab, (not bad) and z3.is_true(z3.simplify(g)), bad))
        return res

    def per_path(pi, p):
        names = box["names"]
        ok = True
        for gi, (lab, g, bad) in enumerate(h.check(p.result)):
            def replay(m, gi=gi):
                env = model_env(m, names)
                res = concrete(env, JsonStub())
                return (not res[gi][1]), f"raw inputs {env}: '{res[gi][0]}' is {res[gi][1]} {res[gi][2][:3]}"

            if prove_py(ctx, f"{label}: {lab} [path {pi}]", p.pc, g, replay) is False:
                ok = False
        return ok

    eng, paths, complete = explore(ctx, label, body, per_path)
    names = box.get("names", {})
    dom = dom_of(names)
    if not complete:
        return
    dom_members = dom + [z3.Or(*[z3.BitVec(nm, W) == v for v in vs]) for nm, vs in enum_names.items()]
    if nrec:
        ctx.witness(f"{label}: records with distinct cycles out of order", dom + ([z3.BitVec("r0_cycle", W) > z3.BitVec(f"r{nrec - 1}_cycle", W)] if nrec > 1 else []))
    coverage(ctx, label, dom_members, paths)
    # sampled: the same harness on concrete values through the REAL json module (not part of the proof) + proxy validation
    rng = random.Random(ctx.seed * 131 + ctx.index)
    for _ in range(4):
        env = {}
        for nm, (lo, hi) in names.items():
            env[nm] = rng.choice(enum_names[nm]) if nm in enum_names else rng.choice([lo, hi, rng.randint(lo, hi)])
        for js, key in ((RealJson(), "real_json_concrete_samples"), (JsonStub(), "pysym_concrete_crosschecks")):
            res = concrete(env, js)
            note(ctx, key)
            for lab, ok, bad in res:
                if not ok:
                    again = concrete(env, RealJson() if key.startswith("real") else JsonStub())
                    if any(l2 == lab and not ok2 for l2, ok2, _ in again):
                        ctx.violation(f"{label}: {lab} (concrete sample, {'real json' if key.startswith('real') else 'json stub'})", f"raw inputs {env}: {bad[:3]}", "re-executed concretely")
                    break


# ---------------------------------------------------------------------------------------------------------------------
# (d) EventConsumer
# ---------------------------------------------------------------------------------------------------------------------
_CONS = None


def consumers():
    global _CONS
    if _CONS is None:
        from transactron.evlog import EventConsumer, handles

        ev = events()

        class Base(EventConsumer):
            def __init__(self):
                self.calls = []

            @handles(ev["EvB"])
            def on_b(self, rec):
                self.calls.append(("on_b", rec))

            def on_unhandled(self, rec):
                self.calls.append(("on_unhandled", rec))

        class Derived(Base):
            @handles(ev["EvD"])
            def on_d(self, rec):
                self.calls.append(("on_d", rec))

            @handles(ev["EvA"])
            def on_a(self, rec):
                self.calls.append(("on_a", rec))

        _CONS = (Base, Derived)
    return _CONS


def _run_consumer(cfg, ctx):
    from transactron.evlog import EventLog

    h = DecodeHarness(cfg, ctx)
    derived = cfg["derived"]
    nrec = len(cfg["records"])
    label = f"consumer {'Derived' if derived else 'Base'} on {[cfg['sites'][k]['ev'] for k in cfg['records']]}"
    want = {"EvB": "on_b", "EvD": "on_d" if derived else "on_unhandled", "EvA": "on_a" if derived else "on_unhandled", "EvC": "on_unhandled"}
    box = {}

    def execute(mk):
        raws = h.raw_inputs(mk, lambda name, members: members[len(name) % len(members)])
        log = EventLog(h.schema)
        for c, i, vals in raws:
            log.emit_raw(c, i, vals)
        recs = log.decoded()
        cons = consumers()[1 if derived else 0]()
        ret = cons.run(iter(recs))
        return dict(raws=raws, recs=recs, calls=cons.calls, ret=ret)

    def body(eng):
        names = {}

        def mk(name, lo, hi):
            if name.endswith("_cycle"):
                names[name] = (lo, hi)
                return eng.int(name, lo, hi)
            return lo + (hi - lo) // 3  # field values are irrelevant for dispatch: concrete

        r = execute(mk)
        box["names"] = names
        return r

    def verdict(r):
        """(structural complaints, z3 goal 'cycles non-decreasing along the calls')."""
        bad = []
        calls, recs = r["calls"], r["recs"]
        if sorted(id(x) for _, x in calls) != sorted(id(x) for x in recs):
            bad.append(f"{len(calls)} handler calls for {len(recs)} records (every record must be dispatched exactly once)")
        for hn, rec in calls:
            evn = type(rec.event).__name__
            if want.get(evn) != hn:
                bad.append(f"{evn} dispatched to {hn}, expected {want.get(evn)}")
        mono = [lift(a[1].cycle) <= lift(b_[1].cycle) for a, b_ in zip(calls, calls[1:])]
        return bad, (z3.And(*mono) if mono else z3.BoolVal(True))

    def concrete(env):
        r = execute(lambda name, lo, hi: env.get(name, lo + (hi - lo) // 3))
        bad, g = verdict(r)
        return (not bad) and z3.is_true(z3.simplify(g)), [(hn, rec.cycle) for hn, rec in r["calls"]], bad

    def per_path(pi, p):
        names = box["names"]
        bad, g = verdict(p.result)

        def replay(m):
            env = model_env(m, names)
            ok, calls, bad2 = concrete(env)
            return (not ok), f"cycles {env}: handler calls {calls} {bad2[:3]}"

        goal = z3.BoolVal(False) if bad else g
        return prove_py(ctx, f"{label} [path {pi}]: every record dispatched once to the handler of its event type, cycles non-decreasing", p.pc, goal, replay) is not False

    eng, paths, complete = explore(ctx, label, body, per_path)
    names = box.get("names", {})
    dom = dom_of(names)
    if not complete:
        return
    if nrec > 1:
        ctx.witness(f"{label}: capture order differs from cycle order, with a tie", dom + [z3.BitVec("r0_cycle", W) > z3.BitVec(f"r{nrec - 1}_cycle", W)] +
                    ([z3.BitVec("r0_cycle", W) == z3.BitVec("r1_cycle", W)] if nrec > 2 else []))
    coverage(ctx, label, dom, paths)
    note(ctx, "consumer_orderings_explored", len(paths))
    rng = random.Random(ctx.seed * 17 + ctx.index)
    for _ in range(4 if names else 0):
        env = {nm: rng.choice([0, 1, 2, 3, hi]) for nm, (lo, hi) in names.items()}
        ok, calls, bad = concrete(env)
        note(ctx, "pysym_concrete_crosschecks")
        try:
            sym = eval_paths(paths, env, lambda p: [(hn, rec.cycle) for hn, rec in p.result["calls"]])
        except Unsupported as e:
            ctx.errors.append(f"pysym validation: {e} in {label}")
            continue
        if sym != [(hn, cyc) for hn, cyc in calls]:
            ctx.errors.append(f"pysym validation: {label} on {env}: proxies give {sym}, real ints give {calls}")


def run(cfg, ctx):
    events()
    g = cfg["group"]
    if g == "trig":
        _run_trig(cfg, ctx)
    elif g == "capture":
        _run_capture(cfg, ctx)
    elif g == "decode":
        _run_decode(cfg, ctx)
    else:
        _run_consumer(cfg, ctx)


# ---------------------------------------------------------------------------------------------------------------------
# canaries
# ---------------------------------------------------------------------------------------------------------------------
def _patch_src(modname, path, old, new):
    """re-exec the source of modname.path (a function or Class.method) with old replaced by new (idempotent)."""
    import inspect
    import textwrap

    mod = importlib.import_module(modname)
    owner = mod
    parts = path.split(".")
    for p_ in parts[:-1]:
        owner = getattr(owner, p_)
    fn = getattr(owner, parts[-1])
    if getattr(fn, "_verif_canary", False):
        return
    src = textwrap.dedent(inspect.getsource(fn))
    assert old in src, (path, old)
    ns = {}
    exec(src.replace(old, new), mod.__dict__, ns)
    new_fn = ns[parts[-1]]
    new_fn._verif_canary = True
    setattr(owner, parts[-1], new_fn)
    return new_fn


def _canary_emit_ignores_context():
    _patch_src("transactron.evlog.emit", "EventSource.emit", "m.d.comb += trigger.eq", "m.d.top_comb += trigger.eq")


def _canary_packed_precedence():
    _patch_src("transactron.evlog.sampler", "GeneratedEvLogSampler.sample", "if packed >> site & 1:", "if packed >> site:")


def _canary_consumer_no_sort():
    _patch_src("transactron.evlog.consumer", "EventConsumer.run", "sorted(records, key=lambda rec: rec.cycle)", "records")


CANARIES = [("EventSource.emit drives the trigger with top_comb (ignores m.If / body context)", _canary_emit_ignores_context),
            ("GeneratedEvLogSampler tests 'packed >> site' instead of bit 'site' of the packed vector", _canary_packed_precedence),
            ("EventConsumer.run dispatches in capture order (no sorting by cycle)", _canary_consumer_no_sort)]
