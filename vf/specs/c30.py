"""C30: InputSampler.get and OutputBuffer.put follow their trigger.

The real components are elaborated for all eight (edge, polarity, synchronize) settings with `trigger` (and, for the
sampler, `data`) as free input pins and the method behind an AdapterTrans.  The reference is the docstring semantics
written over the recorded pin history: the (optionally one-cycle synchronised) trigger is active when it equals the
polarity; level mode is ready while active, edge mode in the first cycle of activity (active now, inactive in the
previous cycle).  `get` returns the pin data of the same (synchronised) cycle; an executed `put` shows its argument on
`data` in the next cycle and `data` keeps its value in cycles without an executed `put`.  BMC from reset over every
trigger/data/enable history of K cycles; obligations start once the synchroniser (and, for edges, the previous-cycle
sample) holds values taken from the pins.
"""
import z3
from ..harness import Harness, Built
from ..seq import bmc

PROP = "C30"
LEVEL = "model_checking"
TECHNIQUE = "BMC from reset on the netlist of the real component against a trigger-history reference (z3 QF_BV), counterexamples replayed on amaranth.sim"
BOUNDS = {
    "quick": "InputSampler and OutputBuffer, all 8 settings of edge x polarity x synchronize, 2-bit data, BMC 5 cycles, all trigger/data/enable histories",
    "thorough": "same 16 configurations with 2-bit data and with a 2-field struct layout (1+2 bits), BMC 8 cycles",
}
OUTSIDE = ["readiness in the cycles before the synchroniser / edge detector holds pin samples (cycle 0 for synchronize or edge, cycles 0..1 for both)",
           "data layouts other than the enumerated ones", "metastability (the synchroniser is a single register, as implemented)"]
ASSUMES = ["single clock domain, reset held low", "caller is an AdapterTrans transaction", "trigger and data pins change only at clock edges"]


def _layout(kind):
    return ([("a", 1), ("b", 2)], 3) if kind == "s" else ([("d", 2)], 2)


def configs(tier, seed):
    out = []
    for comp in ("InputSampler", "OutputBuffer"):
        for lay in (("2",) if tier == "quick" else ("2", "s")):
            for edge in (False, True):
                for pol in (False, True):
                    for syn in (False, True):
                        out.append(dict(comp=comp, edge=edge, polarity=pol, synchronize=syn, layout=lay, K=5 if tier == "quick" else 8))
    return out


def make(cfg):
    from amaranth import Value
    from transactron.lib.basicio import InputSampler, OutputBuffer

    lay, _ = _layout(cfg["layout"])
    kw = dict(edge=cfg["edge"], polarity=cfg["polarity"], synchronize=cfg["synchronize"])
    if cfg["comp"] == "InputSampler":
        d = InputSampler(lay, **kw)
        return Harness(d, {"get": d.get}, inputs={"trigger": d.trigger, "data": Value.cast(d.data)})
    d = OutputBuffer(lay, **kw)
    return Harness(d, {"put": d.put}, inputs={"trigger": d.trigger}, observe=lambda d: {"data": Value.cast(d.data)})


def _step(cfg):
    edge, pol, syn = cfg["edge"], cfg["polarity"], cfg["synchronize"]
    sampler = cfg["comp"] == "InputSampler"
    dly = 1 if syn else 0
    first = dly + (1 if edge else 0)
    meth = "get" if sampler else "put"

    def active(x):
        return x if pol else z3.Not(x)

    def step(model, o, t):
        hist, prev_put = model
        trig = o.sig("trigger") == 1
        data = o.sig("data")
        hist = hist + [(trig, data if sampler else None)]
        ob, wit = [], {}
        done, en = o.done(meth), o.en(meth)
        if t >= first:
            cur = hist[t - dly]
            exp = active(cur[0])
            if edge:
                exp = z3.And(exp, z3.Not(active(hist[t - dly - 1][0])))
            ob.append((f"{meth} ready iff the {'synchronised ' if syn else ''}trigger {'has its edge' if edge else 'is at its level'}", done == z3.And(en, exp)))
            if sampler:
                ob.append(("get returns the (synchronised) data pins", z3.Implies(done, o.out("get") == cur[1])))
            wit[f"{meth} executes"] = done
            wit[f"{meth} enabled but blocked"] = z3.And(en, z3.Not(done))
            if edge and t > first:
                wit["trigger stays active after its edge"] = z3.And(active(hist[t - dly][0]), active(hist[t - dly - 1][0]))
        if not sampler:
            if prev_put is not None:
                pdone, parg, pdata = prev_put
                ob.append(("data shows the argument of the put executed in the previous cycle", z3.Implies(pdone, data == parg)))
                ob.append(("data unchanged without an executed put", z3.Implies(z3.Not(pdone), data == pdata)))
                wit["data changes"] = z3.And(pdone, data != pdata)
            prev_put = (done, o.arg("put"), data)
        return ob, [], (hist, prev_put), wit

    return step


def run(cfg, ctx):
    b = Built(lambda: make(cfg), trace_functions=(ctx.index == 0))
    ctx.functions = b.functions
    name = f"{cfg['comp']} edge={cfg['edge']} polarity={cfg['polarity']} synchronize={cfg['synchronize']} layout={cfg['layout']}"
    bmc(ctx, name, b, cfg["K"], _step(cfg), lambda h: ([], None), cosim_k=10 if ctx.index < 3 or ctx.index == 8 else 0)


def _patch_trigger(old, new):
    import inspect
    import textwrap
    import transactron.lib.basicio as B

    if getattr(B.BasicIOBase._trigger, "_verif_mutant", False):
        return
    src = textwrap.dedent(inspect.getsource(B.BasicIOBase._trigger))
    assert old in src
    ns = {}
    exec(src.replace(old, new), B.__dict__, ns)
    ns["_trigger"]._verif_mutant = True
    B.BasicIOBase._trigger = ns["_trigger"]


def _canary_edge_is_level():
    # edge detector forgets to mask with the previous sample
    _patch_trigger("m.d.comb += trigger.eq(new_trigger & ~old_trigger)", "m.d.comb += trigger.eq(new_trigger)")


def _canary_polarity_swapped():
    _patch_trigger("if not self._polarity:", "if self._polarity:")


def _canary_sampler_unsynchronised_data():
    # synchronize=True delays the trigger but returns the unsynchronised data
    import inspect
    import textwrap
    import transactron.lib.basicio as B

    if getattr(B.InputSampler.elaborate, "_verif_mutant", False):
        return
    src = textwrap.dedent(inspect.getsource(B.InputSampler.elaborate))
    old = "m.d.sync += data.eq(self.data)"
    assert old in src
    ns = {}
    exec(src.replace(old, "m.d.comb += data.eq(self.data)"), B.__dict__, ns)
    ns["elaborate"]._verif_mutant = True
    B.InputSampler.elaborate = ns["elaborate"]


CANARIES = [("edge mode behaves like level mode", _canary_edge_is_level),
            ("polarity inverted", _canary_polarity_swapped),
            ("InputSampler returns unsynchronised data", _canary_sampler_unsynchronised_data)]


def _callers_items():
    from transactron.lib.basicio import InputSampler, OutputBuffer

    return [("InputSampler(2 bits)", lambda: InputSampler([("d", 2)]), [("get", ["get"])], []),
            ("OutputBuffer(2 bits)", lambda: OutputBuffer([("d", 2)]), [("put", ["put"])], [])]


from ..excl import install as _install  # noqa: E402
_install(globals(), _callers_items())
