"""C35: the profiler records what actually ran.

Per generated design (vf.designgen, real TModule / TransactionManager with the eager scheduler) the REAL
`CycleProfile.make` is executed by `vf.pysym` on samples whose z3 terms are THE NETLIST's `ready / runnable / run`
expressions of that design, together with the REAL `ProfileData.make(transaction_manager)`.  Every `if sample:` forks
after asking the solver which outcomes the circuit can produce, so exactly the sample combinations of the circuit
(from any register state with valid FSM registers) are explored, and each explored path is judged by one validity
query under its path condition:

(a) one cycle: `running` has exactly the transactions and methods whose `run` is high (transactions map to None);
    every running method maps to a running body that CALLS it according to the generator's oracle (computed from
    the design description, not from the code); `locked[t] = j` only if `ready_t & runnable_t & ~run_t`, j is a
    transaction that conflicts with t according to the oracle, and `run_j`; no foreign keys; no exception.  The
    tables of `ProfileData` (names, method parents, transactions by method, conflicts) are compared with the oracle.
(b) <= 3 consecutive cycles (unrolled transition relation, symbolic start state): `Profile.analyze_transactions`
    (plain and recursive) over the cycle profiles: `stat.run` = number of cycles in which the transaction's `run` was
    high, `stat.locked` = number of cycles in which the profile lists it as locked (each such cycle satisfies (a)).
(c) the REAL `profiler_process` coroutine over the real amaranth.sim `ProcessContext` / `TickTrigger` classes on a
    stub engine that returns, per clock edge, the netlist values of the sampled expressions: the appended cycle
    profiles satisfy (a) for their cycle and `transactions_and_methods` names the design's bodies.

A failing query is replayed on amaranth.sim (circuit part) and the real function is re-executed on the plain bools of
the model (Python part); only a failure reproduced both ways is reported.
"""
import random
import z3

from ..core import Analysis, same_transaction_conflict
from ..designgen import rand_spec
from ..seq import Unroll
from ..pysym import Engine, SInt, SBool, Unsupported
from ..util import onehot, zx

PROP = "C35"
LEVEL = "model_checking"
ENGINES = ["E1 nir2smt", "E2 designgen+oracle", "E4 pysym"]
TECHNIQUE = ("symbolic execution of the real CycleProfile.make / analyze_transactions / profiler_process on samples that are netlist terms of "
             "generated designs (forks pruned by the solver to what the circuit can produce); one validity query per explored path; "
             "counterexamples replayed on amaranth.sim and re-executed concretely")
BOUNDS = {
    "quick": "12 generated designs (seeded): <= 3 top-level transactions (+ nested, <= 4 transaction bodies), <= 3 methods, If/Switch/FSM contexts, "
             "conflicts / priorities / schedule_before, eager scheduler, every second design drawn such that a lock situation is reachable; (a) all register states with valid FSM registers and all inputs; (b) 3 cycles "
             "(2 when one cycle has more than 8 paths, 1 above 40); (c) 1 cycle (2 when one cycle of the process has at most 12 paths)",
    "thorough": "60 generated designs, same grammar; (b) 3 cycles up to 14 paths per cycle; (c) 2 cycles up to 24 paths per cycle",
}
OUTSIDE = ["`locked` entries of METHODS and analyze_methods (the statement speaks of locked transactions only); only absence of exceptions is checked there",
           "designs outside the generator grammar, the round-robin scheduler, designs the library rejects, designs with add_conflict inside one "
           "transaction's own call tree (known finding C02: oracle ambiguous) - skipped",
           "Profile.encode / decode (JSON files), the __TRANSACTRON_PROFILE plumbing in transactron/testing/test_case.py, the pretty printers in scripts",
           "the converse of the locked clause (a ready, runnable, not running transaction IS listed as locked): the statement says 'only when'",
           "more than 3 consecutive cycles"]
ASSUMES = ["FSM state registers hold a declared state (frame 0 of every unrolling); all other registers and all inputs are free",
           "stub engine under the real amaranth.sim ProcessContext / TickTrigger: at each clock edge the sampled expressions have the values the netlist "
           "gives them in the cycle that ends at this edge; no reset; the process is abandoned after the last cycle",
           "sampled struct values are stand-ins for amaranth.lib.data.Const: field f = bits [offset, offset+width) of the sampled bit pattern",
           "oracle of vf.designgen for 'calls' and 'conflicts' (implicit conflicts through a common exclusive method and explicit add_conflict, "
           "minus structurally exclusive definitions)"]
TRUSTED = ["Amaranth 0.5 elaboration and NIR netlist construction", "vf/nir2smt.py translator (counterexamples replayed on amaranth.sim)",
           "vf/pysym.py proxies and fork enumeration (coverage of all circuit-producible sample combinations is a solver query per design)",
           "vf/designgen.py oracle", "amaranth.sim._async ProcessContext / TickTrigger / TriggerCombination (real classes, executed)", "z3 5.1.0"]
FUNCTIONS = ["transactron/profiler.py:CycleProfile.make", "transactron/profiler.py:ProfileData.make", "transactron/profiler.py:Profile.analyze_transactions",
             "transactron/testing/profiler.py:profiler_process"]
OPTS = dict(alias=True, combiner=True, fsm=True, nested_methods=True, p_fresh=0.96, max_tr=3, nleaf=(1, 2), p_conflict=0.6, p_mconflict=0.4, mprio=True,
            p_before=0.3, ready_dep=True)
W = 16
MAX_VIOLATIONS = 3  # per design: further paths are not examined once this many counterexamples were confirmed


def configs(tier, seed):
    n = 12 if tier == "quick" else 60
    return [dict(design=k, seed=seed * 1000003 + k * 7919 + (0 if tier == "quick" else 500009), min_tr=(1 if k % 4 == 0 else 2), want_conflict=(k % 2 == 1))
            for k in range(n)]


# ---------------------------------------------------------------------------------------------------------------------
# design selection
# ---------------------------------------------------------------------------------------------------------------------
def _pick(cfg, trace):
    """first accepted, unambiguous design of the seeded stream inside the size bound (or the recorded one on replay)."""
    if cfg.get("spec") is not None:
        return cfg["spec"], Analysis(cfg["spec"], "eager", trace_functions=trace), 0
    for j in range(400):
        spec = rand_spec(random.Random(cfg["seed"] * 1009 + j), dict(OPTS, min_tr=cfg["min_tr"]))
        if len(spec["methods"]) > 3 or sum(1 + len(t["nested"]) for t in spec["transactions"]) > 4:
            continue
        an = Analysis(spec, "eager", trace_functions=trace)
        if an.err is not None:
            continue
        try:
            if an.orc.ill_formed() is not None or getattr(an.orc, "ambiguous", None) or same_transaction_conflict(an):
                continue
        except OverflowError:
            continue
        if cfg["want_conflict"] and not _lock_reachable(an):
            continue  # every second design is chosen such that a lock situation exists (conflicts may be unreachable, e.g. behind FSM states)
        return spec, an, j
    raise Unsupported("no admissible design in 400 draws")


def _conflict_pairs(an, info):
    tk = an.orc.tkeys()
    return [(info.id_of[a], info.id_of[b]) for a in tk for b in tk if a != b and an.orc.conflict(a, b)]


def _lock_formula(info, S, pairs):
    return z3.Or(*[z3.And(S(a, "ready"), S(a, "runnable"), z3.Not(S(a, "run")), S(b, "run")) for a, b in pairs])


def _lock_reachable(an):
    """some ready and runnable transaction can lose to a running conflicting one (decided on the netlist)."""
    info = _Info(an)
    pairs = _conflict_pairs(an, info)
    if not pairs:
        return False
    an.open()
    s = z3.SolverFor("QF_BV")
    s.add(*an.state_assumes, _lock_formula(info, _Sig(info, an.o), pairs))
    return s.check() == z3.sat


def _frame_assumes(an, o):
    out = []
    for data, n in an.d.fsm_states:
        out.append(z3.ULT(zx(o.sig(data["signal"]), 8), n))
    for sig, lst in an.b.paths.items():
        if any(name == "grant_reg" for _, name in lst):
            out.append(onehot(o.sig(sig)))
    return out


class _Info:
    """ids and oracle view of one design."""

    def __init__(self, an):
        from transactron.core.keys import TransactionManagerKey
        from transactron.core.manager import MethodMap
        from transactron.profiler import ProfileData
        from transactron.utils.dependencies import DependencyContext

        self.an = an
        self.tm = an.b.dm.get_dependency(TransactionManagerKey())
        with DependencyContext(an.b.dm):
            self.pdata, self.get_id = ProfileData.make(self.tm)
            mm = MethodMap(self.tm.transactions, self.tm.methods)
        self.T, self.M = list(mm.transactions), list(mm.methods)
        orc = an.orc
        self.key_of = {}  # profile id -> oracle key
        self.body = {}    # profile id -> body object
        for tk in orc.tkeys():
            b = an.tobj(tk)._body
            hit = [t for t in self.T if t is b]
            if len(hit) != 1:
                raise Unsupported(f"transaction {tk} is not in the manager's method map")
            self.key_of[self.get_id(hit[0])] = tk
        for mi, m in enumerate(an.d.M):
            hit = [x for x in self.M if x is m._body]
            if hit:
                self.key_of[self.get_id(hit[0])] = ("m", mi)
        for b in self.T + self.M:
            self.body[self.get_id(b)] = b
        self.tids = [self.get_id(t) for t in self.T]
        self.mids = [self.get_id(m) for m in self.M]
        self.id_of = {k: i for i, k in self.key_of.items()}

    def oracle_tables(self):
        """what ProfileData should contain, from the design description."""
        orc = self.an.orc
        parents, by_method, confl = {}, {}, {}
        for mid in self.mids:
            mi = self.key_of[mid][1]
            parents[mid] = sorted({self.id_of[s.body] for s in orc.sites_of.get(mi, []) if s.body in self.id_of})
            by_method[mid] = sorted(self.id_of[t] for t in orc.callers(("m", mi)))
        for tid in self.tids:
            tk = self.key_of[tid]
            confl[tid] = sorted(self.id_of[j] for j in orc.tkeys() if j != tk and orc.conflict(tk, j))
        return parents, by_method, confl


def _structure_facts(info):
    """concrete comparison of ProfileData with the oracle; returns list of discrepancies."""
    p, bad = info.pdata, []
    parents, by_method, confl = info.oracle_tables()
    if sorted(p.transactions_and_methods) != sorted(info.tids + info.mids):
        bad.append(f"transactions_and_methods keys {sorted(p.transactions_and_methods)} != bodies {sorted(info.tids + info.mids)}")
    for i, inf in p.transactions_and_methods.items():
        b = info.body.get(i)
        if b is None or inf.name != b.owned_name or inf.is_transaction != (i in info.tids):
            bad.append(f"entry {i}: {inf.name}/{inf.is_transaction}")
    for mid in info.mids:
        if sorted(set(p.method_parents.get(mid, []))) != parents[mid]:
            bad.append(f"method_parents[{mid}] = {p.method_parents.get(mid)} but the design's call sites give {parents[mid]}")
        if sorted(set(p.transactions_by_method.get(mid, []))) != by_method[mid]:
            bad.append(f"transactions_by_method[{mid}] = {p.transactions_by_method.get(mid)} but the design's call trees give {by_method[mid]}")
    for tid in info.tids:
        got = sorted(x for x in set(p.transaction_conflicts.get(tid, [])) if x != tid)
        if got != confl[tid]:
            bad.append(f"transaction_conflicts[{tid}] = {p.transaction_conflicts.get(tid)} but the design's conflicts are {confl[tid]}")
    return bad


# ---------------------------------------------------------------------------------------------------------------------
# judging one cycle profile against the circuit
# ---------------------------------------------------------------------------------------------------------------------
class _Sig:
    """ready / runnable / run of every body in one frame as z3 Bools (or, with a model, as their concrete values)."""

    def __init__(self, info, o, model=None):
        self.info, self.o, self.m = info, o, model

    def __call__(self, bid, what):
        t = self.o.sig(getattr(self.info.body[bid], what)) == 1
        if self.m is not None:
            return z3.BoolVal(z3.is_true(self.m.eval(t, model_completion=True)))
        return t


def _cycle_obligations(info, cp, S, tag=""):
    orc = info.an.orc
    ob = []
    T, F = z3.BoolVal(True), z3.BoolVal(False)
    known = set(info.tids) | set(info.mids)
    ob.append((f"{tag}running / locked mention only bodies of the design", T if set(cp.running) <= known and set(cp.locked) <= known else F))
    for tid in info.tids:
        ob.append((f"{tag}transaction {info.body[tid].name} is listed as running iff its run is high", S(tid, "run") if tid in cp.running else z3.Not(S(tid, "run"))))
        if tid in cp.running:
            ob.append((f"{tag}running transaction {info.body[tid].name} has no caller", T if cp.running[tid] is None else F))
        if tid in cp.locked:
            j = cp.locked[tid]
            ok = j in info.tids and j != tid and orc.conflict(info.key_of[tid], info.key_of[j])
            ob.append((f"{tag}transaction {info.body[tid].name} is listed as locked only when ready, runnable, not running and the named conflicting transaction runs",
                       z3.And(S(tid, "ready"), S(tid, "runnable"), z3.Not(S(tid, "run")), S(j, "run")) if ok else F))
    for mid in info.mids:
        ob.append((f"{tag}method {info.body[mid].name} is listed as running iff its run is high", S(mid, "run") if mid in cp.running else z3.Not(S(mid, "run"))))
        if mid in cp.running:
            par = cp.running[mid]
            mi = info.key_of[mid][1]
            calls = par in info.key_of and any(s.body == info.key_of[par] for s in orc.sites_of.get(mi, []))
            ob.append((f"{tag}running method {info.body[mid].name} maps to a running body that calls it", S(par, "run") if calls else F))
    return ob


def _samples(info, eng, o):
    from transactron.profiler import ProfileSamples, TransactionSamples, MethodSamples

    g = lambda s: SBool(eng, o.sig(s) == 1)
    s = ProfileSamples()
    for t in info.T:
        s.transactions[info.get_id(t)] = TransactionSamples(g(t.ready), g(t.runnable), g(t.run))
    for m in info.M:
        s.methods[info.get_id(m)] = MethodSamples(g(m.run))
    return s


def _concrete_samples(info, o, model):
    from transactron.profiler import ProfileSamples, TransactionSamples, MethodSamples

    g = lambda s: z3.is_true(model.eval(o.sig(s) == 1, model_completion=True))
    s = ProfileSamples()
    for t in info.T:
        s.transactions[info.get_id(t)] = TransactionSamples(g(t.ready), g(t.runnable), g(t.run))
    for m in info.M:
        s.methods[info.get_id(m)] = MethodSamples(g(m.run))
    return s


def _cosim(ctx, an, info, K):
    """translator validation: a random K-cycle input trace through amaranth.sim and through the encoding; every ready / runnable / run
    signal the profiler samples is compared."""
    rng = random.Random(ctx.seed * 31 + 7)
    u = Unroll(an.b, tag="c")
    eqs = []
    for t in range(K):
        o = u.cycle()
        for b in info.T:
            for what in ("ready", "runnable", "run"):
                o.sig(getattr(b, what))
        for b in info.M:
            o.sig(b.run)
        for pn, var in u.ins[t].items():
            if pn not in ("clk", "rst"):
                eqs.append(var == (rng.getrandbits(var.size()) | (1 if var.size() == 1 and rng.random() < 0.5 else 0)))
        u.advance()
    s = z3.SolverFor("QF_BV")
    s.add(*eqs)
    if s.check() != z3.sat:
        ctx.errors.append("C35 cosim: input equalities unsat")
        return
    trace, force, enc, mism = u.replay(s.model())
    ctx.cosim_traces += 1
    ctx.cosim_points += sum(len(r) for r in enc)
    if mism:
        ctx.errors.append(f"C35 cosim mismatch encoder vs pysim: {mism[:4]}")


def _failed(ob):
    return [lab for lab, g in ob if not z3.is_true(z3.simplify(g))]


def _decide(ctx, name, assumes, ob, u, rerun):
    """one validity query for a path; sat => circuit replay (framework) + concrete re-execution of the real function (rerun)."""
    box = {}

    def detail(m):
        box["again"] = rerun(m)
        return dict(failed_symbolically=[lab for lab, g in ob if z3.is_false(m.eval(g, model_completion=True))][:4], failed_concretely=box["again"][:4])

    r = ctx.prove(name, assumes, z3.And(*[g for _, g in ob]), u, detail=detail)
    if r is False:
        if box.get("again"):
            ctx.violations[-1]["confirmed"] = str(ctx.violations[-1].get("confirmed")) + "; the real function re-executed on the model's plain bools fails the same way"
        else:
            ctx.violations.pop()
            ctx.errors.append(f"C35: failure of '{name}' does not reproduce when the real function is re-executed concretely")
    return r


def _exception_path(ctx, name, p, u, rerun_exc):
    """the real code raised on a feasible path: confirm on a model of the path condition."""
    s = z3.SolverFor("QF_BV")
    s.add(*p.pc)
    if s.check() != z3.sat:
        ctx.errors.append(f"C35: exception path with an unsatisfiable path condition ({name})")
        return
    again = rerun_exc(s.model())
    ctx._record(name, "obligation", "sat", 0.0)
    if again is not None:
        ctx.violation(name, f"{type(p.exc).__name__}: {p.exc}; concrete re-execution raises {again}", confirmed="re-executed concretely")
    else:
        ctx.errors.append(f"C35: exception {p.exc!r} does not reproduce concretely ({name})")


# ---------------------------------------------------------------------------------------------------------------------
# stub engine under the real ProcessContext (for profiler_process)
# ---------------------------------------------------------------------------------------------------------------------
class _SimEnd(Exception):
    pass


class _SymConst:
    """stand-in for amaranth.lib.data.Const over a symbolic bit pattern."""

    def __init__(self, eng, layout, bv):
        self._eng, self._layout, self._bv = eng, layout, bv

    def __getitem__(self, name):
        f = self._layout[name]
        return SInt(self._eng, z3.ZeroExt(W - f.width, z3.Extract(f.offset + f.width - 1, f.offset, self._bv)))

    def __getattr__(self, name):
        if name.startswith("_"):
            raise AttributeError(name)
        return self[name]


class _NetWorld:
    """engine stub: values of sampled expressions come from the frames of an unrolling (model given: plain ints)."""

    def __init__(self, eng, frames, model=None):
        self.eng, self.frames, self.model, self.t = eng, frames, model, 0
        self.rst = None

    def bits(self, v):
        from amaranth.hdl import Signal, Const
        from amaranth.hdl._ast import Concat

        if isinstance(v, Const):
            return z3.BitVecVal(v.value, len(v)) if len(v) else None
        if isinstance(v, Concat):
            parts = [p for p in (self.bits(x) for x in v.parts) if p is not None]
            return z3.Concat(*reversed(parts)) if len(parts) > 1 else (parts[0] if parts else None)
        if not isinstance(v, Signal):
            raise Unsupported(f"stub engine cannot evaluate {v!r}")
        if v is self.rst:
            return z3.BitVecVal(0, 1)
        return self.frames[self.t].sig(v)

    def value(self, v, shape):
        from amaranth.hdl import ShapeCastable

        bv = self.bits(v)
        if self.model is not None and bv is not None:
            bv = self.model.eval(bv, model_completion=True)
        if isinstance(shape, ShapeCastable):
            if self.model is not None:
                return shape.from_bits(bv.as_long())
            return _SymConst(self.eng, shape, bv)
        if bv is None:
            return 0
        if self.model is not None:
            return bv.as_long()
        return SInt(self.eng, z3.ZeroExt(W - bv.size(), bv))

    def add_trigger_combination(self, combination, *, oneshot):
        return _TriggerState(self, combination)

    def clock_edge(self, combination):
        from amaranth.sim._async import SampleTrigger, EdgeTrigger

        if self.t >= len(self.frames):
            raise _SimEnd()
        res = []
        for trg in combination._triggers:
            if isinstance(trg, EdgeTrigger):
                res.append(True)
            elif isinstance(trg, SampleTrigger):
                res.append(self.value(trg.value, trg.shape))
            else:
                raise Unsupported(f"stub engine: trigger {type(trg).__name__}")
        self.t += 1
        return tuple(res)


class _TriggerState:
    def __init__(self, world, combination):
        self.world, self.combination = world, combination

    def __await__(self):
        return self.world.clock_edge(self.combination)
        yield  # pragma: no cover - a generator that never suspends


def _process_context(world):
    from amaranth.hdl import ClockDomain
    from amaranth.sim._async import ProcessContext

    class _Design:
        sync = ClockDomain("sync")

        def lookup_domain(self, name, context):
            if name != "sync":
                raise KeyError(name)
            return self.sync

    class _Proc:
        critical = False
        waits_on = None

    d = _Design()
    world.rst = d.sync.rst
    return ProcessContext(d, world, _Proc())


def _run_process(info, world):
    """drives the REAL profiler_process over the stub engine; returns the Profile it filled."""
    from transactron.profiler import Profile
    from transactron.testing.profiler import profiler_process
    from transactron.utils.dependencies import DependencyContext

    profile = Profile()
    with DependencyContext(info.an.b.dm):
        coro = profiler_process(info.tm, profile)(_process_context(world))
        try:
            coro.send(None)
        except StopIteration:
            pass
        except _SimEnd:
            pass
        else:
            coro.close()
            raise Unsupported("profiler_process suspended: the stub awaited something real")
    return profile


# ---------------------------------------------------------------------------------------------------------------------
# run
# ---------------------------------------------------------------------------------------------------------------------
def run(cfg, ctx):
    from transactron.profiler import CycleProfile, Profile

    spec, an, drawn = _pick(cfg, trace=(ctx.index == 0))
    ctx.cfg = dict(cfg, spec=spec)
    if an.b.functions:
        ctx.functions = an.b.functions
    note = lambda k, n=1: ctx.notes.__setitem__(k, ctx.notes.get(k, 0) + n)
    note("designs")
    note("designs_drawn_and_skipped", drawn)
    info = _Info(an)
    nt, nm = len(info.tids), len(info.mids)
    note("transaction_bodies", nt)
    note("method_bodies", nm)
    d = f"design {cfg['design']} ({nt} transactions, {nm} methods)"
    thorough = ctx.tier == "thorough"

    # ---- ProfileData against the oracle
    bad = _structure_facts(info)
    ctx._record(f"{d}: ProfileData tables (names, method parents, transactions by method, conflicts) agree with the design description", "obligation",
                "sat" if bad else "unsat", 0.0)
    if bad:
        if _structure_facts(_Info(Analysis(spec, "eager"))):
            ctx.violation(f"{d}: ProfileData disagrees with the design description", bad[:4], confirmed="re-elaborated from scratch with the same outcome")
        else:
            ctx.errors.append(f"C35: ProfileData discrepancy not reproducible: {bad[:2]}")
        return

    if ctx.index < 4 and ctx.tier != "replay":
        _cosim(ctx, an, info, 8)

    # ---- (a) one cycle from any state
    an.open()
    u, o, A = an.u, an.o, list(an.state_assumes)
    ctx.frames += 1
    S = _Sig(info, o)
    eng = Engine(width=W, max_paths=4000, catch=(Exception,))

    def body(e):
        for a in A:
            e.assume(a)
        return CycleProfile.make(_samples(info, e, o), info.pdata)

    paths = eng.run(body)
    ctx.solver_time += eng.solver_time
    note("pysym_paths_one_cycle", len(paths))
    note("pysym_feasibility_queries", eng.queries)
    ctx.witness(f"{d}: some transaction runs", A + [z3.Or(*[S(t, "run") for t in info.tids])])
    pairs = _conflict_pairs(an, info)
    if pairs:
        note("designs_with_conflicts")
    if cfg.get("want_conflict"):
        ctx.witness(f"{d}: a ready and runnable transaction loses to a running conflicting one", A + [_lock_formula(info, S, pairs)])
    if info.mids:
        ctx.witness(f"{d}: some method runs", A + [z3.Or(*[S(m, "run") for m in info.mids])])
    ctx.prove(f"{d}: the {len(paths)} explored paths of CycleProfile.make cover every sample combination the circuit can produce", A,
              z3.Or(*[z3.And(*p.pc) for p in paths]), None)
    for pi, p in enumerate(paths):
        if len(ctx.violations) >= MAX_VIOLATIONS:
            return
        name = f"{d} (a) path {pi}"
        if p.exc is not None:
            def rerun_exc(m):
                try:
                    CycleProfile.make(_concrete_samples(info, o, m), info.pdata)
                except Exception as e:  # noqa
                    return f"{type(e).__name__}: {e}"
                return None

            _exception_path(ctx, f"{name}: CycleProfile.make raises {type(p.exc).__name__}", p, u, rerun_exc)
            continue
        cp = p.result
        note("paths_with_locked_transaction", 1 if any(t in cp.locked for t in info.tids) else 0)
        note("paths_with_running_method", 1 if any(m in cp.running for m in info.mids) else 0)
        ob = _cycle_obligations(info, cp, S)

        def rerun(m):
            cpc = CycleProfile.make(_concrete_samples(info, o, m), info.pdata)
            return _failed(_cycle_obligations(info, cpc, _Sig(info, o, m)))

        _decide(ctx, f"{name}: running = bodies with run, running methods have a running caller, locked only behind a running conflicting transaction "
                     f"[running {sorted(cp.running)}, locked {sorted(cp.locked)}]", p.pc, ob, u, rerun)
    p1 = len(paths)

    # ---- (b) analyze_transactions over K cycles
    lim3, lim2 = (14, 60) if thorough else (8, 40)
    K = 3 if p1 <= lim3 else 2 if p1 <= lim2 else 1
    u2 = Unroll(an.b, free_init=True, tag="m")
    frames = []
    for t in range(K):
        frames.append(u2.cycle())
        u2.advance()
    ctx.frames += K
    ctx.steps += K
    A2 = _frame_assumes(an, frames[0])
    Ss = [_Sig(info, f) for f in frames]

    def analyze(cycles):
        prof = Profile(transactions_and_methods=info.pdata.transactions_and_methods, cycles=list(cycles))
        return prof.analyze_transactions(), prof.analyze_transactions(recursive=True)

    def stat_obligations(cycles, stats_pair, sigs):
        ob = []
        for c, cp in enumerate(cycles):
            ob += _cycle_obligations(info, cp, sigs[c], tag=f"cycle {c}: ")
        for variant, stats in zip(("", "recursive "), stats_pair):
            names = sorted(st.stat.name for st in stats)
            ob.append((f"{variant}analyze_transactions reports exactly the design's transactions", z3.BoolVal(names == sorted(info.pdata.transactions_and_methods[t].name for t in info.tids))))
            by_name = {}
            for tid in info.tids:
                by_name.setdefault(info.pdata.transactions_and_methods[tid].name, []).append(tid)
            for st in stats:
                tids = by_name.get(st.stat.name, [])
                if len(tids) != 1:
                    continue  # names are unique in generated designs
                tid = tids[0]
                runs = sum([z3.If(sigs[c](tid, "run"), z3.BitVecVal(1, 8), z3.BitVecVal(0, 8)) for c in range(len(cycles))], z3.BitVecVal(0, 8))
                ob.append((f"{variant}stat.run of {st.stat.name} = number of cycles in which it ran", runs == st.stat.run))
                ob.append((f"{variant}stat.locked of {st.stat.name} = number of cycles in which the profile lists it as locked",
                           z3.BoolVal(st.stat.locked == sum(1 for cp in cycles if tid in cp.locked))))
        return ob

    eng2 = Engine(width=W, max_paths=6000, catch=(Exception,))

    def body2(e):
        for a in A2:
            e.assume(a)
        cycles = [CycleProfile.make(_samples(info, e, f), info.pdata) for f in frames]
        return cycles, analyze(cycles)

    paths2 = eng2.run(body2)
    ctx.solver_time += eng2.solver_time
    note("pysym_paths_multi_cycle", len(paths2))
    note("pysym_feasibility_queries", eng2.queries)
    note(f"designs_with_{K}_cycle_analysis")
    ctx.prove(f"{d}: the {len(paths2)} explored paths over {K} cycles cover every behaviour of the circuit", A2, z3.Or(*[z3.And(*p.pc) for p in paths2]), None)
    if K > 1:
        ctx.witness(f"{d}: some transaction runs in two different cycles", A2 + [z3.Or(*[z3.And(Ss[0](t, "run"), Ss[K - 1](t, "run")) for t in info.tids])])
    for pi, p in enumerate(paths2):
        if len(ctx.violations) >= MAX_VIOLATIONS:
            return
        name = f"{d} (b) {K} cycles path {pi}"

        def conc_cycles(m):
            return [CycleProfile.make(_concrete_samples(info, f, m), info.pdata) for f in frames]

        if p.exc is not None:
            def rerun_exc(m):
                try:
                    analyze(conc_cycles(m))
                except Exception as e:  # noqa
                    return f"{type(e).__name__}: {e}"
                return None

            _exception_path(ctx, f"{name}: {type(p.exc).__name__} raised", p, u2, rerun_exc)
            continue
        cycles, stats_pair = p.result

        def rerun(m):
            cc = conc_cycles(m)
            return _failed(stat_obligations(cc, analyze(cc), [_Sig(info, f, m) for f in frames]))

        _decide(ctx, f"{name}: analyze_transactions: run / locked statistics equal the counts over the cycles", p.pc, stat_obligations(cycles, stats_pair, Ss), u2, rerun)

    # ---- (c) the real profiler_process on a stub engine
    pc1 = 0
    for Kc in (1, 2):
        if Kc == 2 and (K < 2 or pc1 > (24 if thorough else 12)):
            break
        eng3 = Engine(width=W, max_paths=6000, catch=(Exception,))

        def body3(e, Kc=Kc):
            for a in A2:
                e.assume(a)
            return _run_process(info, _NetWorld(e, frames[:Kc]))

        paths3 = eng3.run(body3)
        ctx.solver_time += eng3.solver_time
        note("pysym_paths_profiler_process", len(paths3))
        note("pysym_feasibility_queries", eng3.queries)
        if Kc == 1:
            pc1 = len(paths3)
        ctx.prove(f"{d}: the {len(paths3)} explored paths of profiler_process over {Kc} cycle(s) cover every behaviour of the circuit", A2,
                  z3.Or(*[z3.And(*p.pc) for p in paths3]), None)
        for pi, p in enumerate(paths3):
            if len(ctx.violations) >= MAX_VIOLATIONS:
                return
            name = f"{d} (c) profiler_process {Kc} cycle(s) path {pi}"

            def proc_obligations(profile, sigs, Kc=Kc):
                ob = [("the process appends one cycle profile per clock cycle", z3.BoolVal(len(profile.cycles) == Kc)),
                      ("profile.transactions_and_methods names the design's bodies",
                       z3.BoolVal({i: (x.name, x.is_transaction) for i, x in profile.transactions_and_methods.items()} ==
                                  {i: (info.body[i].owned_name, i in info.tids) for i in info.tids + info.mids}))]
                for c, cp in enumerate(profile.cycles[:Kc]):
                    ob += _cycle_obligations(info, cp, sigs[c], tag=f"cycle {c}: ")
                return ob

            if p.exc is not None:
                def rerun_exc(m, Kc=Kc):
                    try:
                        _run_process(info, _NetWorld(None, frames[:Kc], m))
                    except Exception as e:  # noqa
                        return f"{type(e).__name__}: {e}"
                    return None

                _exception_path(ctx, f"{name}: {type(p.exc).__name__} raised", p, u2, rerun_exc)
                continue

            def rerun(m, Kc=Kc, proc_obligations=proc_obligations):
                prof = _run_process(info, _NetWorld(None, frames[:Kc], m))
                return _failed(proc_obligations(prof, [_Sig(info, f, m) for f in frames]))

            _decide(ctx, f"{name}: appended cycle profiles record what ran", p.pc, proc_obligations(p.result, Ss), u2, rerun)


# ---------------------------------------------------------------------------------------------------------------------
# canaries
# ---------------------------------------------------------------------------------------------------------------------
def _patch_static(modname, clsname, fname, old, new):
    import importlib
    import inspect
    import textwrap

    mod = importlib.import_module(modname)
    cls = getattr(mod, clsname)
    if getattr(getattr(cls, fname), "_verif_canary", False):
        return
    src = textwrap.dedent(inspect.getsource(getattr(cls, fname)))
    static = src.lstrip().startswith("@staticmethod")
    assert old in src, (fname, old)
    ns = {}
    exec(src.replace("@staticmethod\n", "", 1).replace(old, new), mod.__dict__, ns)
    ns[fname]._verif_canary = True
    setattr(cls, fname, staticmethod(ns[fname]) if static else ns[fname])


def _canary_locked_not_runnable():
    # a transaction is reported as locked although it could not have run anyway (a method it calls was not ready).
    # (Dropping `ready` instead is NOT observable: in the circuit runnable implies ready - the check explores only producible samples.)
    _patch_static("transactron.profiler", "CycleProfile", "make", "elif transaction_samples.ready and transaction_samples.runnable:", "elif transaction_samples.ready:")


def _canary_parent_not_running():
    # the caller of a running method is taken from the call graph without looking at what ran
    _patch_static("transactron.profiler", "CycleProfile", "make", "if t_or_m_id in running:\n", "if True:\n")


def _canary_stat_run():
    # analyze_transactions counts a locked cycle as a run
    _patch_static("transactron.profiler", "Profile", "analyze_transactions", "stats[i].stat.locked += 1", "stats[i].stat.run += 1")


CANARIES = [("CycleProfile.make marks non-runnable transactions as locked", _canary_locked_not_runnable),
            ("CycleProfile.make names a caller that did not run", _canary_parent_not_running),
            ("analyze_transactions books locked cycles as runs", _canary_stat_run)]


def classify(v):
    n = v.get("name", "")
    for k in ("(a)", "(b)", "(c)", "ProfileData"):
        if k in n:
            return k
    return "other"
