"""C09 round-robin scheduler on generated designs elaborated with trivial_roundrobin_cc_scheduler: arbiter register one-hot (induction), at most one grant per conflict component, a grant whenever a member is fully enabled, and fairness by BMC over |component| cycles from any one-hot arbiter state (vf/core.py check_rr)."""
from ._core_common import *  # noqa

PROP = "C09"
LEVEL = "model_checking"
SCHEDULERS = ("rr",)
OPTS = dict(alias=True, combiner=False, fsm=False, nested=False, nested_methods=False, p_fresh=0.97, p_conflict=0.7, p_mconflict=0.4, p_before=0.0, min_tr=2, max_tr=4, nleaf=(1, 3))
BOUNDS = {"quick": "32 batches x 6 random designs with 2..4 transactions, components up to 4 transactions; fairness window = component size", "thorough": "600 batches x 20 designs, up to 5 transactions"}
OUTSIDE = OUTSIDE_COMMON
ASSUMES = ASSUMES_COMMON


def configs(tier, seed):
    return batch_configs(tier, seed, 32, 600, 6 if tier == "quick" else 20, OPTS, SCHEDULERS)


def run(cfg, ctx):
    run_batch(cfg, ctx, {PROP})
