"""C03 on generated designs: see vf/core.py (obligations) and vf/designgen.py (design grammar + oracle)."""
from ._core_common import *  # noqa

PROP = "C03"
SCHEDULERS = ("eager", "rr")
OPTS = dict(multi=True, mgroup=True, p_single_group=0.3, alias=True, combiner=True, fsm=True, nested_methods=True, p_fresh=0.96)
BOUNDS = {"quick": "10 designs with validate_arguments behind a condition() branch (outer called plainly / under m.If / with enable_call / conditionally by a helper method, blocking / non-blocking) + fixed relation family (61 designs: cross-module add_conflict in same-position alternatives of If/Switch/FSM, prioritised method conflicts lifted over an exclusive caller pair, bodies with two ready-dependency sources) + exhaustive small family (2 transactions x call through {direct, alias, nonexclusive method, exclusive method, enable_call} in If/Else alternatives: 93 designs, plus 42 designs with two non-exclusive call sites of one exclusive method through the same / different Method objects) + 40 batches x 12 random designs (<=3 transactions + nested, <=5 methods, If/Elif/Else, sibling If, Switch, FSM, enable_call, aliases, combiners, nested bodies), "
                   "both schedulers where applicable; per design all inputs and all register states",
          "thorough": "1600 batches x 25 random designs, VERIF_SEED-seeded"}
OUTSIDE = OUTSIDE_COMMON
ASSUMES = ASSUMES_COMMON


def configs(tier, seed):
    # plus the "deep" condition() family of C12: branches are nested transactions of their enclosing body, so
    # "a nested body / its callees run only with the enclosing body" is this property as well
    from . import c12

    condval = [dict(condval=how, nonblocking=nb) for how in ("plain", "if", "enable", "via_if", "via_enable") for nb in (False, True)]
    return condval + systematic_configs(SCHEDULERS, family="relations") + systematic_configs(SCHEDULERS) + c12.deep_configs(tier) + batch_configs(tier, seed, 40, 1600, 12 if tier == "quick" else 25, OPTS, SCHEDULERS)


def _make_condval(how, nonblocking):
    """a transaction calls `outer` (plainly / under m.If(en) / with enable_call=en); outer's condition() branch (condition c) calls the
    method v(x) which is defined with validate_arguments (x != 0) and has a free readiness."""
    from amaranth import Elaboratable, Signal
    from transactron import TModule, Transaction, Method, def_method
    from transactron.lib.simultaneous import condition
    from ..harness import Harness

    class D(Elaboratable):
        def __init__(self):
            self.req, self.en, self.c, self.vready = Signal(name="req"), Signal(name="en"), Signal(name="c"), Signal(name="vready")
            self.arg, self.seen = Signal(2, name="arg"), Signal(2, name="seen")
            self.o = {n: Signal(name="o_" + n) for n in ("caller", "outer", "branch", "v")}

        def elaborate(self, platform):
            m = TModule()
            keep = Signal(name="_keep_sync")
            m.d.sync += keep.eq(1)
            outer, v = Method(name="outer"), Method(name="v", i=[("x", 2)])

            @def_method(m, v, ready=self.vready, validate_arguments=lambda x: x != 0)
            def _(x):
                m.d.comb += [self.o["v"].eq(1), self.seen.eq(x)]

            @def_method(m, outer)
            def _():
                m.d.comb += self.o["outer"].eq(1)
                with condition(m, nonblocking=nonblocking) as branch:
                    with branch(self.c):
                        m.d.comb += self.o["branch"].eq(1)
                        v(m, x=self.arg)

            callee, mode = outer, how
            if how.startswith("via_"):
                helper = Method(name="helper")

                @def_method(m, helper)
                def _():
                    if how == "via_if":
                        with m.If(self.en):
                            outer(m)
                    else:
                        outer(m, enable_call=self.en)

                callee, mode = helper, "plain"
            with Transaction(name="caller").body(m, ready=self.req):
                m.d.comb += self.o["caller"].eq(1)
                if mode == "if":
                    with m.If(self.en):
                        callee(m)
                elif mode == "enable":
                    callee(m, enable_call=self.en)
                else:
                    callee(m)
            return m

    d = D()
    obs = dict(d.o)
    obs["seen"] = d.seen
    return Harness(d, {}, inputs=dict(req=d.req, en=d.en, c=d.c, vready=d.vready, arg=d.arg), observe=lambda d: obs)


def _run_condval(cfg, ctx):
    import z3
    from ..harness import Built
    from ..seq import Unroll

    how, nb = cfg["condval"], cfg["nonblocking"]
    tag = f"validate_arguments behind a condition() branch, outer called {how}, {'non' if nb else ''}blocking condition: "
    b = Built(lambda: _make_condval(how, nb))  # a combinational cycle would make netlist construction fail here (harness error)
    u = Unroll(b, free_init=True)
    o = u.cycle()
    ctx.frames += 1
    B = lambda n: o.sig(n) == 1
    en = B("en") if how != "plain" else z3.BoolVal(True)
    valid = o.sig("arg") != 0
    ctx.witness(tag + "the validated method runs", [B("v")])
    ctx.witness(tag + "the caller runs without the call" if how != "plain" else tag + "the caller runs", [B("caller")] + ([z3.Not(en)] if how != "plain" else []))
    ctx.prove(tag + "the caller runs only when requested", [], z3.Implies(B("caller"), B("req")), u)
    ctx.prove(tag + "outer runs iff the caller runs and the call is enabled", [], B("outer") == z3.And(B("caller"), en), u)
    ctx.prove(tag + "the branch runs only with outer, and exactly when its condition holds then", [], B("branch") == z3.And(B("outer"), B("c")), u)
    ctx.prove(tag + "the validated method runs exactly when the branch runs and sees its argument", [], z3.And(B("v") == B("branch"), z3.Implies(B("v"), o.sig("seen") == o.sig("arg"))), u)
    ctx.prove(tag + "C03 the validated method runs only when it is ready and its argument is valid", [], z3.Implies(B("v"), z3.And(B("vready"), valid)), u)
    if nb:
        ctx.prove(tag + "with a non-blocking condition a false branch condition does not block the caller", [B("req"), z3.Not(B("c")), B("vready")], B("caller"), u)


def run(cfg, ctx):
    if "condval" in cfg:
        return _run_condval(cfg, ctx)
    if cfg.get("deep"):
        from . import c12

        return c12.run_deep(cfg, ctx)
    run_batch(cfg, ctx, {PROP})


def classify(v):
    from . import c12

    return c12.classify(v)
