"""C40: structured assignment copies exactly the selected fields.

A generator enumerates pairs of assign() arguments (views over struct / array / union layouts of amaranth.lib.data, dicts
and lists of signals and views, nesting <= 2, leaf widths 1..3, optionally with a dropped / extra / renamed / mis-shaped
field on one side) together with a `fields` selection (AssignType.COMMON / LHS / RHS / ALL, an iterable of names, a
nested mapping).  The REAL `assign()` is executed concretely on the pair.  An oracle written from the docstring of
`assign` (and, for lists/arrays/unions which the docstring does not mention, from the way the unit tests use them)
classifies the pair as

* well-formed  -> assign must NOT raise and its statements must implement exactly the expected bit copies,
* ill-formed   -> assign MUST raise (a selected field is missing on one side, bit widths of a selected field differ,
                  a container is assigned to a plain value, field names are selected inside a non-structure),
* unspecified  -> the docstring is silent (same width but different shape/signedness, empty selection, multi-member
                  union against an AssignType mode): raising is accepted, and if statements are returned they are
                  checked like in the well-formed case.

The agreement "raises <=> ill-formed" is decided on a CONCRETE execution of assign() per pair (it is Python control flow,
not a solver query).  When statements are returned they are added (`m.d.comb += stmts`) to a module in which every lhs
bit was first assigned from a free input `untouched` and every rhs bit is driven from a free input `rhs`; the netlist
is translated to z3 and it is proved for ALL rhs / untouched values that every selected lhs field equals the rhs field
and every other lhs bit still has its untouched value.  Solver counterexamples are replayed on amaranth.sim.
"""
import importlib
import random
import z3

from ..comb import comb

PROP = "C40"
LEVEL = "proof"
ENGINES = ["E1 nir2smt"]
TECHNIQUE = ("concrete execution of the real assign() against a docstring-derived well-formedness oracle; SMT proof (z3 QF_BV) on the Amaranth "
             "netlist of the returned statements: selected fields copied, every other lhs bit untouched, for all values; counterexamples replayed on amaranth.sim")
BOUNDS = {
    "quick": "204 argument pairs: 134 fixed ones (pairings of the struct / dict / nested struct / list / array / union presentations used by the unit "
             "tests x representative selections, plus targeted array / nested-selection / whole-value / union / empty-selection cases) + 70 seeded random "
             "ones; containers of <= 3 fields, nesting <= 2, leaf widths 1..3 (mutated leaves up to 4, flattened arrays wider), <= 1 mutation per pair",
    "thorough": "2434 pairs: the 134 fixed ones + 2300 seeded random ones (same generator, nesting <= 2, plus 10% with nesting 3)",
}
OUTSIDE = ["ArrayProxy arguments, data.Const / int / enum constants on the right-hand side, enum-shaped fields, FlexibleLayout",
           "layouts deeper than the generated nesting or wider than 3 fields per level",
           "which exception type is raised and its message", "the order of the generated statements"]
ASSUMES = ["lists / arrays / unions are not described by the docstring of assign: lists and arrays are read as structures whose field names are the indices, "
           "a one-entry dict against a union names the member to be assigned (as in test_assign.py)",
           "where the docstring is silent the check accepts both raising and correct statements (same bit width but different shape, empty selection, "
           "AssignType modes on a multi-member union paired with a one-entry dict)",
           "every leaf has an explicit shape (Signal or field of a View), so the documented bit-width check always applies",
           "'raises' is observed on one concrete execution of assign() per pair (repeated once before a disagreement is reported)"]
MODES = ("COMMON", "LHS", "RHS", "ALL")
T_ALL = ["T", "ALL"]


# ---------------------------------------------------------------------------------------------------------------------
# descriptors (JSON-able):  ["u", w] ["s", w] | ["struct", [[name, node]..]] | ["union", [[name, node]..]] | ["array", node, n]
#                           | ["dict", [[key, node]..]] | ["list", [node..]]
# field selections:         ["T", mode] | ["I", [names]] (list) | ["IS", [names]] (set) | ["M", [[name, selection]..]]
# ---------------------------------------------------------------------------------------------------------------------
def is_value(n):
    return n[0] in ("u", "s", "struct", "union", "array")


def width(n):
    k = n[0]
    if k in "us":
        return n[1]
    if k == "struct":
        return sum(width(c) for _, c in n[1])
    if k == "union":
        return max([width(c) for _, c in n[1]] + [0])
    if k == "array":
        return width(n[1]) * n[2]
    raise ValueError(k)


def swidth(n):
    """storage bits of an argument (python containers are laid out child after child)."""
    if n[0] == "dict":
        return sum(swidth(c) for _, c in n[1])
    if n[0] == "list":
        return sum(swidth(c) for c in n[1])
    return width(n)


def keys(n):
    k = n[0]
    if k in ("struct", "union", "dict"):
        return [name for name, _ in n[1]]
    if k == "array":
        return list(range(n[2]))
    if k == "list":
        return list(range(len(n[1])))
    return None


def fieldset(n):
    """field names of a field-containing argument (None for plain values and unions)."""
    return None if n[0] in ("u", "s", "union") else keys(n)


def child(n, off, key):
    k = n[0]
    if k == "array":
        return n[1], off + key * width(n[1])
    if k == "list":
        for i, c in enumerate(n[1]):
            if i == key and type(key) is int:
                return c, off
            off += swidth(c)
        raise KeyError(key)
    for name, c in n[1]:
        if name == key and type(name) is type(key):
            return c, off
        if k == "struct":
            off += width(c)
        elif k == "dict":
            off += swidth(c)
    raise KeyError(key)


def depth(n):
    k = n[0]
    if k in "us":
        return 0
    if k == "array":
        return 1 + depth(n[1])
    cs = [c for _, c in n[1]] if k != "list" else n[1]
    return 1 + max([depth(c) for c in cs] + [0])


def show(n):
    k = n[0]
    if k in "us":
        return f"{k}{n[1]}"
    if k == "array":
        return f"array[{n[2]}]({show(n[1])})"
    if k == "list":
        return "[" + ", ".join(show(c) for c in n[1]) + "]"
    body = ", ".join(f"{name}: {show(c)}" for name, c in n[1])
    return {"struct": "struct{%s}", "union": "union{%s}", "dict": "dict{%s}"}[k] % body


def show_fields(f):
    if f[0] == "T":
        return f[1]
    if f[0] in ("I", "IS"):
        return ("set" if f[0] == "IS" else "list") + str(f[1])
    return "{" + ", ".join(f"{k!r}: {show_fields(v)}" for k, v in f[1]) + "}"


# ---- amaranth objects ------------------------------------------------------------------------------------------------
def layout_of(n):
    from amaranth import signed, unsigned
    from amaranth.lib import data

    k = n[0]
    if k == "u":
        return unsigned(n[1])
    if k == "s":
        return signed(n[1])
    if k == "struct":
        return data.StructLayout({name: layout_of(c) for name, c in n[1]})
    if k == "union":
        return data.UnionLayout({name: layout_of(c) for name, c in n[1]})
    if k == "array":
        return data.ArrayLayout(layout_of(n[1]), n[2])
    raise ValueError(k)


def build(n):
    from amaranth import Signal

    if n[0] == "dict":
        return {name: build(c) for name, c in n[1]}
    if n[0] == "list":
        return [build(c) for c in n[1]]
    return Signal(layout_of(n))


def storages(obj):
    from amaranth import Value

    if isinstance(obj, dict):
        return [s for v in obj.values() for s in storages(v)]
    if isinstance(obj, list):
        return [s for v in obj for s in storages(v)]
    return [Value.cast(obj)]


def fields_py(f):
    A = importlib.import_module("transactron.utils.assign")
    if f[0] == "T":
        return A.AssignType[f[1]]
    if f[0] == "I":
        return list(f[1])
    if f[0] == "IS":
        return set(f[1])
    return {k: fields_py(v) for k, v in f[1]}


# ---------------------------------------------------------------------------------------------------------------------
# oracle (from the docstring of assign; see ASSUMES for lists / arrays / unions)
# ---------------------------------------------------------------------------------------------------------------------
class Verdict:
    def __init__(self):
        self.must_raise = []   # (reason, path): documented reasons to raise
        self.gray = []         # (reason, path): docstring silent; raising or correct statements are both accepted
        self.nocheck = []      # (reason, path): docstring silent and no natural meaning for returned statements
        self.copies = []       # (lhs offset, rhs offset, width, path)
        self.tags = set()

    @property
    def kind(self):
        return "raise" if self.must_raise else "nocheck" if self.nocheck else "gray" if self.gray else "ok"


def _selection(f, lf, rf):
    """names selected at this level and the selection for each sub-field."""
    if f[0] == "T":
        m = f[1]
        a, b = set(lf), set(rf)
        names = a & b if m == "COMMON" else a if m == "LHS" else b if m == "RHS" else a | b
        return names, (lambda n: f)
    if f[0] in ("I", "IS"):   # "Items are field names. For subfields, AssignType.ALL is assumed."
        return set(f[1]), (lambda n: T_ALL)
    d = {k: v for k, v in f[1]}  # "Keys are field names, values follow the format for fields."
    return set(d), (lambda n: d[n])


def _key(n):
    return (isinstance(n, str), n)


def oracle(l, loff, r, roff, f, path, V):
    lf, rf = fieldset(l), fieldset(r)
    if lf is not None and rf is not None:
        names, sub = _selection(f, lf, rf)
        if not names and (lf or rf):
            V.gray.append(("nothing selected although fields exist", path))
        for n in sorted(names, key=_key):
            if n not in lf or n not in rf:
                V.must_raise.append((f"selected field {n!r} missing in {'lhs' if n not in lf else 'rhs'}", path))
                continue
            (lc, lo), (rc, ro) = child(l, loff, n), child(r, roff, n)
            oracle(lc, lo, rc, ro, sub(n), path + [n], V)
        return
    if {l[0], r[0]} == {"union", "dict"}:
        u, d = (l, r) if l[0] == "union" else (r, l)
        if len(d[1]) != 1:
            V.nocheck.append(("dict paired with a union does not have exactly one entry", path))
            return
        name = d[1][0][0]
        if name not in keys(u):
            V.must_raise.append((f"field {name!r} missing in the union", path))
            return
        if f[0] == "T":
            # reading 1: the union side has all its members as fields; reading 2: only the member named by the dict
            names1, _ = _selection(f, keys(l), keys(r))
            if names1 != {name}:
                V.gray.append(("AssignType mode on a multi-member union", path))
            sub = f
        else:
            names, subf = _selection(f, [name], [name])
            other = sorted((n for n in names if n != name), key=_key)
            if other:
                V.tags.add("union-selection")
                V.must_raise.append((f"selected field {other[0]!r} missing in the one-entry dict paired with a union", path))
                return
            if name not in names:
                V.tags.add("union-selection")
                V.gray.append(("nothing selected on a union/dict pair", path))
                return
            sub = subf(name)
        (lc, lo), (rc, ro) = child(l, loff, name), child(r, roff, name)
        oracle(lc, lo, rc, ro, sub, path + [name], V)
        return
    # at least one side is not field-containing: whole-value assignment
    if f[0] != "T":
        names = set(f[1]) if f[0] != "M" else {k for k, _ in f[1]}
        if names:
            V.must_raise.append((f"field {sorted(names, key=_key)[0]!r} selected inside a non-structure", path))
        else:
            V.gray.append(("empty field selection on a non-structure", path))
        return
    if not is_value(l) or not is_value(r):
        V.must_raise.append(("a dict/list cannot be assigned to/from a plain value", path))
        return
    if width(l) != width(r):
        V.must_raise.append((f"bit widths differ: {width(l)} vs {width(r)}", path))
        return
    if l != r:
        V.gray.append((f"same bit width, different shapes {show(l)} vs {show(r)}", path))
    V.copies.append((loff, roff, width(l), path))


# ---------------------------------------------------------------------------------------------------------------------
# generator
# ---------------------------------------------------------------------------------------------------------------------
def S(**kw):
    return ["struct", [[k, v] for k, v in kw.items()]]


def U(**kw):
    return ["union", [[k, v] for k, v in kw.items()]]


def D(*pairs, **kw):
    return ["dict", [list(p) for p in pairs] + [[k, v] for k, v in kw.items()]]


def u(w):
    return ["u", w]


def _as_dict(n):
    """struct -> dict of its fields (presentation change)."""
    return ["dict", [[k, c] for k, c in n[1]]] if n[0] == "struct" else n


def _fixed():
    """Pairs modelled on test_assign.py: inner layouts x presentations x selections, plus targeted cases."""
    a, ab, ac, a2, as_, abc = S(a=u(1)), S(a=u(1), b=u(2)), S(a=u(1), c=u(3)), S(a=u(2)), S(a=["s", 1]), S(a=u(1), b=u(2), c=u(3))
    wraps = {
        "normal": (lambda x: x, lambda f: f),
        "py": (lambda x: _as_dict(x), lambda f: f),
        "rec": (lambda x: S(x=x), lambda f: ["M", [["x", f]]]),
        "dict": (lambda x: D(x=x), lambda f: ["M", [["x", f]]]),
        "list": (lambda x: ["list", [x]], lambda f: ["M", [[0, f]]]),
        "array": (lambda x: ["array", x, 1], lambda f: ["M", [[0, f]]]),
        "union": (lambda x: U(x=x, y=u(2)), lambda f: ["M", [["x", f]]]),
    }
    pairs = [(k, k) for k in wraps if k != "union"] + [("normal", "py"), ("py", "normal"), ("rec", "dict"), ("dict", "rec"), ("list", "array"),
                                                       ("array", "list"), ("union", "dict"), ("dict", "union")]
    inner = [(a, ab, ["T", "LHS"]), (ab, a, ["T", "RHS"]), (ab, ab, ["T", "ALL"]), (ab, ac, ["T", "COMMON"]), (ab, ab, ["IS", ["a"]]),
             (a, ab, ["T", "RHS"]), (ab, ac, ["T", "ALL"]), (a, a, ["I", ["b"]]), (a, a2, ["T", "RHS"]), (a, as_, ["T", "ALL"]),
             (abc, abc, ["M", [["a", ["T", "ALL"]], ["c", ["T", "COMMON"]]]]), (abc, ab, ["T", "LHS"])]
    out = []
    n = 0
    for (wl, wr) in pairs:
        for (x, y, f) in inner:
            n += 1
            if n % 4 and (wl, wr) not in (("union", "dict"), ("dict", "union")):
                continue  # every fourth combination (all of them for the union pairs)
            out.append((wraps[wl][0](x), wraps[wr][0](y), wraps[wl][1](f)))
            if n % 2 == 0 and wl != "normal" and wl != "py":
                out.append((wraps[wl][0](x), wraps[wr][0](y), f))  # the bare selection applied at the wrapper level
    arr = lambda e, k: ["array", e, k]
    two = S(p=S(a=u(1), b=u(2)), q=arr(u(2), 2))
    out += [
        # arrays and lists of different lengths; every element selected
        (arr(u(2), 3), arr(u(2), 3), ["T", "ALL"]), (arr(u(2), 3), ["list", [u(2), u(2), u(2)]], ["T", "LHS"]), (arr(u(2), 2), arr(u(2), 3), ["T", "LHS"]),
        (arr(u(2), 3), arr(u(2), 2), ["T", "LHS"]), (arr(u(2), 3), arr(u(2), 2), ["T", "COMMON"]), (arr(ab, 2), ["list", [ab, _as_dict(ab)]], ["T", "RHS"]),
        (arr(u(1), 3), D([0, u(1)], [2, u(1)]), ["T", "RHS"]), (arr(u(3), 2), arr(u(3), 2), ["I", [1]]),
        # nested selections: an iterable selects ALL below, a mapping passes its own selection down
        (two, two, ["I", ["p"]]), (two, S(p=S(a=u(1)), q=arr(u(2), 2)), ["I", ["p"]]), (two, S(p=S(a=u(1)), q=arr(u(2), 2)), ["M", [["p", ["T", "COMMON"]]]]),
        (two, S(p=S(a=u(1)), q=arr(u(2), 2)), ["M", [["p", ["T", "LHS"]]]]), (two, D(p=D(a=u(1), b=u(2)), q=["list", [u(2), u(2)]]), ["T", "ALL"]),
        (two, two, ["M", [["q", ["I", [0]]], ["p", ["IS", ["b"]]]]]), (two, S(p=u(3), q=arr(u(2), 2)), ["T", "ALL"]), (two, S(p=u(3), q=u(4)), ["T", "COMMON"]),
        # whole-value assignments
        (u(3), u(3), ["T", "RHS"]), (u(3), u(2), ["T", "RHS"]), (u(2), ["s", 2], ["T", "RHS"]), (S(x=u(3)), u(3), ["T", "RHS"]), (ab, u(3), ["T", "LHS"]),
        (u(3), ab, ["I", ["a"]]), (u(2), u(2), ["I", []]), (D(a=u(1)), u(1), ["T", "RHS"]),
        # unions
        (U(x=u(2), y=u(3)), U(x=u(2), y=u(3)), ["T", "ALL"]), (U(x=u(2), y=u(3)), U(x=u(3), y=u(2)), ["T", "ALL"]), (U(x=u(2), y=u(3)), u(3), ["T", "RHS"]),
        (U(x=u(2), y=u(3)), D(y=u(3)), ["T", "RHS"]), (U(x=u(2), y=u(3)), D(x=u(2)), ["T", "LHS"]), (D(x=u(2)), U(x=u(2), y=u(3)), ["T", "COMMON"]),
        (U(x=u(2), y=u(3)), D(z=u(3)), ["T", "RHS"]), (U(x=u(2), y=u(3)), D(x=u(2), y=u(3)), ["T", "RHS"]), (U(x=ab, y=u(2)), D(x=_as_dict(ab)), ["M", [["x", ["I", ["b"]]]]]),
        (S(f=U(x=u(2), y=u(3)), g=u(1)), D(f=D(x=u(2)), g=u(1)), ["T", "ALL"]), (S(f=U(x=u(2), y=u(3)), g=u(1)), D(f=D(y=u(3)), g=u(1)), ["M", [["f", ["T", "RHS"]]]]),
        # empty selections
        (ab, ab, ["I", []]), (ab, ac, ["M", []]), (S(a=u(1)), S(b=u(1)), ["T", "COMMON"]),
    ]
    return out


NAMES = ["a", "b", "c", "d"]
UNAMES = ["x", "y", "z"]


def _rand_tree(rng, d):
    if d == 0 or rng.random() < 0.25:
        return ["s" if rng.random() < 0.08 else "u", rng.randint(1, 3)]
    k = rng.choices(["struct", "array", "union"], [0.55, 0.27, 0.18])[0]
    if k == "array":
        return ["array", _rand_tree(rng, d - 1), rng.randint(1, 3)]
    n = rng.randint(1, 3) if k == "struct" else rng.randint(1, 2)
    names = sorted(rng.sample(NAMES[:3] if k == "struct" else UNAMES, n))
    return [k, [[nm, _rand_tree(rng, d - 1)] for nm in names]]


def _paths(n, p=()):
    """paths of all nodes of an abstract (layout) tree."""
    yield p
    if n[0] == "array":
        yield from _paths(n[1], p + (1,))
    elif n[0] in ("struct", "union"):
        for i, (_, c) in enumerate(n[1]):
            yield from _paths(c, p + (1, i, 1))


def _get(n, p):
    for i in p:
        n = n[i]
    return n


def _mutate(rng, tree):
    """one local change of an abstract tree (deep-copied): returns (tree, description) or None."""
    import copy

    t = copy.deepcopy(tree)
    p = rng.choice(list(_paths(t)))
    n = _get(t, p)
    k = n[0]
    if k in "us":
        c = rng.choice(["width", "width", "sign", "wrap", "split"])
        if c == "width":
            n[1] = n[1] + 1 if n[1] == 1 or rng.random() < 0.5 else n[1] - 1
        elif c == "sign":
            n[0] = "s" if k == "u" else "u"
        elif c == "wrap":
            n[:] = ["struct", [["a", [k, n[1]]]]]
        else:
            if n[1] < 2:
                return None
            n[:] = ["struct", [["a", ["u", 1]], ["b", ["u", n[1] - 1]]]]
        return t, c
    if k == "array":
        c = rng.choice(["len", "len", "flatten"])
        if c == "len":
            n[2] = n[2] + 1 if n[2] == 1 or rng.random() < 0.5 else n[2] - 1
        else:
            w = width(n)
            n[:] = ["u", w]
        return t, "array " + c
    pool = NAMES if k == "struct" else UNAMES
    free = [x for x in pool if x not in keys(n)]
    c = rng.choice(["drop", "add", "rename", "kind", "reorder"])
    if c == "drop":
        if len(n[1]) < 2:
            return None
        del n[1][rng.randrange(len(n[1]))]
    elif c == "add":
        if not free:
            return None
        n[1].insert(rng.randint(0, len(n[1])), [free[0], ["u", rng.randint(1, 3)]])
    elif c == "rename":
        if not free:
            return None
        n[1][rng.randrange(len(n[1]))][0] = free[-1]
    elif c == "kind":
        n[0] = "union" if k == "struct" else "struct"
    else:
        if len(n[1]) < 2:
            return None
        n[1].reverse()
    return t, f"{k} {c}"


def _present(rng, n, allow_py, p_py):
    """choose a presentation: python containers may only sit above layouts."""
    k = n[0]
    if k in "us" or not allow_py or rng.random() >= p_py:
        return n
    if k == "struct":
        return ["dict", [[nm, _present(rng, c, True, p_py)] for nm, c in n[1]]]
    if k == "array":
        elems = [_present(rng, n[1], True, p_py) for _ in range(n[2])]
        if rng.random() < 0.2:
            return ["dict", [[i, e] for i, e in enumerate(elems)]]
        return ["list", elems]
    # union: a dict naming one member (rarely two)
    members = n[1] if rng.random() < 0.08 and len(n[1]) > 1 else [rng.choice(n[1])]
    return ["dict", [[nm, _present(rng, c, True, p_py)] for nm, c in members]]


def _rand_fields(rng, l, r, d=0):
    """a selection for the pair of (abstract) trees."""
    x = rng.random()
    lk, rk = keys(l) or [], keys(r) or []
    allk = list(dict.fromkeys(lk + rk))
    if x < 0.5 or d > 1 or not allk:
        return ["T", rng.choice(MODES)]
    pick = [k for k in allk if rng.random() < 0.6]
    if rng.random() < 0.1:
        pick.append("q" if isinstance((allk + ["a"])[0], str) else 5)
    if not pick and rng.random() < 0.8:
        pick = [rng.choice(allk)]
    if x < 0.72:
        if rng.random() < 0.15 and pick:
            pick = pick + [pick[0]]
        return [rng.choice(["I", "IS"]), pick] if len(set(pick)) == len(pick) else ["I", pick]
    out = []
    for k in dict.fromkeys(pick):
        try:
            lc, rc = child(l, 0, k)[0], child(r, 0, k)[0]
        except (KeyError, IndexError, TypeError):
            out.append([k, ["T", rng.choice(MODES)]])
            continue
        out.append([k, _rand_fields(rng, lc, rc, d + 1)])
    return ["M", out]


def _random_pairs(n, seed, deep_share):
    rng = random.Random(seed * 100003 + 40)
    out = []
    seen = set()
    while len(out) < n:
        d = 3 if rng.random() < deep_share else rng.choice([1, 2, 2, 2])
        base = _rand_tree(rng, d)
        if base[0] in "us" and rng.random() < 0.8:
            continue
        if swidth(base) > 40 or swidth(base) == 0:
            continue
        lt, rt, mut = base, base, None
        if rng.random() < 0.55:
            m = _mutate(rng, base)
            if m is None:
                continue
            mut = m[1]
            if rng.random() < 0.5:
                lt = m[0]
            else:
                rt = m[0]
        if max(swidth(lt), swidth(rt)) > 40 or min(width(lt), width(rt)) == 0:
            continue
        p_py = rng.choice([0.0, 0.3, 0.5, 0.9])
        lp, rp = _present(rng, lt, True, p_py), _present(rng, rt, True, rng.choice([0.0, 0.3, 0.5, 0.9]))
        f = _rand_fields(rng, lp, rp)
        key = repr((lp, rp, f))
        if key in seen:
            continue
        seen.add(key)
        out.append((lp, rp, f, mut))
    return out


def configs(tier, seed):
    out = [dict(lhs=l, rhs=r, fields=f, origin="fixed") for l, r, f in _fixed()]
    nrand = 70 if tier == "quick" else 2300
    out += [dict(lhs=l, rhs=r, fields=f, origin="random" + (f", mutation: {m}" if m else ""))
            for l, r, f, m in _random_pairs(nrand, seed, 0.0 if tier == "quick" else 0.1)]
    return out


# ---------------------------------------------------------------------------------------------------------------------
# run
# ---------------------------------------------------------------------------------------------------------------------
def _call_assign(L, R, F):
    """one concrete execution of the real assign(); returns (statements | None, exception | None)."""
    A = importlib.import_module("transactron.utils.assign")
    lhs, rhs = build(L), build(R)
    try:
        return list(A.assign(lhs, rhs, fields=fields_py(F))), None
    except Exception as e:  # noqa
        return None, e


def run(cfg, ctx):
    from amaranth import Cat

    A = importlib.import_module("transactron.utils.assign")
    L, R, F = cfg["lhs"], cfg["rhs"], cfg["fields"]
    desc = f"assign({show(L)}, {show(R)}, fields={show_fields(F)})"
    note = lambda key, n=1: ctx.notes.__setitem__(key, ctx.notes.get(key, 0) + n)
    V = Verdict()
    oracle(L, 0, R, 0, F, [], V)
    tag = " [explicit selection on a union/dict pair]" if "union-selection" in V.tags else ""
    stmts, exc = _call_assign(L, R, F)
    raised = exc is not None
    note(f"pairs_oracle_{V.kind}")
    note("pairs_where_assign_raised" if raised else "pairs_where_assign_returned_statements")
    if raised != (_call_assign(L, R, F)[1] is not None):
        raise AssertionError("harness: assign() is not deterministic on this pair")
    if V.kind == "raise":
        if not raised:
            ctx.violation(f"assign must raise{tag}: {V.must_raise[0][0]} (at {V.must_raise[0][1]})",
                          f"{desc} returned {len(stmts)} statement(s): {[repr(s) for s in stmts][:4]}", "re-executed concretely")
        return
    if raised:
        if V.kind == "ok":
            ctx.violation("assign raises on a well-formed pair (all selected fields present on both sides with identical shapes)",
                          f"{desc} raised {type(exc).__name__}: {exc}", "re-executed concretely")
        else:
            note("unspecified_pairs_where_assign_raised")
        return
    if V.kind == "nocheck":
        note("unspecified_pairs_not_checked")
        return
    if V.kind == "gray":
        note("unspecified_pairs_where_statements_were_checked")
    lw, rw = swidth(L), swidth(R)
    src = [None] * lw
    for lo, ro, w, path in V.copies:
        for t in range(w):
            if src[lo + t] is not None:
                raise AssertionError("harness: expected copies overlap")
            src[lo + t] = ro + t
    if lw == 0:
        if stmts:
            ctx.violation("assign returns statements for an lhs without bits", f"{desc}: {stmts!r}", "re-executed concretely")
        return

    def fn(m, s):
        lhs, rhs = build(L), build(R)
        ls, rs = storages(lhs), storages(rhs)
        off = 0
        for sig in rs:
            m.d.comb += sig.eq(s["rhs"][off:off + len(sig)])
            off += len(sig)
        off = 0
        for sig in ls:
            m.d.comb += sig.eq(s["untouched"][off:off + len(sig)])
            off += len(sig)
        assert off == lw
        m.d.comb += list(A.assign(lhs, rhs, fields=fields_py(F)))  # later assignments override the untouched pattern
        return {"lhs": Cat(*ls)}

    b, un, o = comb({"rhs": rw, "untouched": lw}, fn, trace_functions=ctx.index == 0)
    ctx.functions = b.functions
    out, unt = o.sig("o.lhs"), o.sig("untouched")
    rhs = o.sig("rhs") if rw else None
    ex = lambda x, off, w: z3.Extract(off + w - 1, off, x)
    sel = {tuple(path): ex(out, lo, w) == ex(rhs, ro, w) for lo, ro, w, path in V.copies}
    keep = {j: ex(out, j, 1) == ex(unt, j, 1) for j in range(lw) if src[j] is None}

    def detail(eqs, what):
        return lambda m: [what(k) for k, e in eqs.items() if z3.is_false(m.eval(e, model_completion=True))][:6]

    if sel:
        ctx.witness(f"the statements can change lhs: {desc}", [out != unt])
        ctx.prove(f"every selected lhs field equals the rhs field{tag}: {desc}", [], z3.And(*sel.values()), un,
                  detail=detail(sel, lambda k: "field " + ".".join(map(str, k)) + " differs from rhs"))
    if keep:
        ctx.prove(f"every non-selected lhs bit keeps its untouched value{tag}: {desc}", [], z3.And(*keep.values()), un,
                  detail=detail(keep, lambda j: f"lhs bit {j} was assigned"))
    note("selected_bits", lw - len(keep))
    note("untouched_bits", len(keep))


# ---------------------------------------------------------------------------------------------------------------------
# canaries / classification
# ---------------------------------------------------------------------------------------------------------------------
def _patch_src(fname, old, new):
    import inspect
    import textwrap

    mod = importlib.import_module("transactron.utils.assign")
    if getattr(getattr(mod, fname), "_verif_canary", False):  # the driver applies the patch once per task, not per process
        return
    src = textwrap.dedent(inspect.getsource(getattr(mod, fname)))
    assert old in src, (fname, old)
    ns = {}
    exec(src.replace(old, new), mod.__dict__, ns)
    ns[fname]._verif_canary = True
    setattr(mod, fname, ns[fname])


def _canary_lhs_mode_skips_missing():
    # AssignType.LHS silently skips the fields that rhs does not have
    _patch_src("assign", "elif fields is AssignType.LHS:\n            names = lhs_fields", "elif fields is AssignType.LHS:\n            names = lhs_fields & rhs_fields")


def _canary_array_last_element():
    # the field set of an ArrayLayout view misses the last index: that element is silently not assigned
    _patch_src("assign_arg_fields", "set(range(layout.length))", "set(range(max(layout.length - 1, 1)))")


def _canary_no_shape_check():
    _patch_src("assign", "if shape_of(lhs) != shape_of(rhs):", "if False:")


CANARIES = [("AssignType.LHS skips fields missing in rhs instead of raising", _canary_lhs_mode_skips_missing),
            ("last element of an array view is not a field", _canary_array_last_element),
            ("shape check of whole-value assignments removed", _canary_no_shape_check)]


def classify(v):
    n = v.get("name", "")
    if "[explicit selection on a union/dict pair]" in n:
        return "union_pair_ignores_explicit_selection"
    if n.startswith("assign must raise"):
        return "missing_raise"
    if n.startswith("assign raises on a well-formed"):
        return "spurious_raise"
    if "non-selected" in n:
        return "extra_assignment"
    if "selected lhs field" in n:
        return "wrong_copy"
    return "other"
