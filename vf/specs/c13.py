"""C13: bodies related by simultaneous() (Connect.read / Connect.write) run in the same cycles and exchange data.

A small family of hand-written designs is elaborated through the real TransactionManager: caller transactions with a
free `ready` request pin each call one side of a real `Connect` (family "connect") or one of two/three user-defined
methods related by a raw `simultaneous()` (families "raw", "chain", "mt") and, besides, 0..2 mocked methods whose
readiness is free.  Several callers may compete for the same side, a caller may reach its side through an
intermediate method.  All pins, arguments, results and readiness bits are symbolic; every statement is a single-cycle
statement decided from a free state (the designs are stateless), complete per design.
"""
import itertools
import z3
from ..harness import HarnessError, Harness, Built
from ..seq import Unroll, cosim
from ..util import atmost1

PROP = "C13"
LEVEL = "proof"
TECHNIQUE = "SMT (z3 QF_BV) over the netlist of the real manager output for each design of the family, one combinational frame, all inputs free; counterexamples replayed on amaranth.sim"
BOUNDS = {
    "quick": "11 condwrap designs (Connect behind 0..2 conditionally called wrapper methods; both sides conditional), 6 nested2 designs (simultaneous "
             "chain meth ~ outer ~ inner under a conditional call, with / without Connect), 9 chains of 1..3 Connects whose first write / last read side has no caller "
             "(each: refused at elaboration or correct), and 32 designs: Connect with 1..2 callers per side, 0..2 extra mocked callees per caller, data widths 2/0..2 (reverse direction), "
             "callers through an intermediate method; raw simultaneous() between two methods with free ready pins, a chain of three, "
             "and a method with a transaction; every readiness/request/data value",
    "thorough": "about 300 designs: up to 3 callers per side, 0..2 extra callees, data widths 1..3, reverse widths 0..3, intermediate methods on either side, "
                "shared extra callee between the callers of one side",
}
OUTSIDE = ["designs outside the enumerated family (e.g. simultaneous_alternatives, conditionally called simultaneous methods which the manager rejects)",
           "round-robin scheduler", "simultaneous() combined with explicit add_conflict / schedule_before between the callers"]
ASSUMES = ["default (eager) scheduler", "callers are transactions with a free `ready` pin; extra callees are transactron.lib.Adapter mocks with free readiness",
           "for raw simultaneous() the two method bodies forward their argument to the other body's result through av_comb signals (as Connect does); "
           "the statement about data concerns these user-level assignments under the runs granted by the manager",
           "progress obligation ('some fully ready writer/reader pair => the pair of bodies runs') relies on the eager scheduler and is only a sanity "
           "obligation against bodies that never run; atomicity obligations (the caller's other callees run with it) are implied by C03/C04 and kept for sensitivity"]


class _Caller:
    def __init__(self, side, k, extras, arg_w, res_w):
        from amaranth import Signal

        self.side, self.k = side, k
        self.name = f"{side}{k}"
        self.req = Signal(name=f"req_{self.name}")
        self.arg = Signal(arg_w, name=f"arg_{self.name}")
        self.got = Signal(res_w, name=f"got_{self.name}")
        self.run = Signal(name=f"run_{self.name}")
        self.extras = extras  # list of mock names


def make(cfg):
    from amaranth import Elaboratable, Signal
    from transactron import TModule, Transaction, Method, def_method
    from transactron.lib import Adapter, Connect

    fam = cfg["family"]
    dw, rw = cfg["dw"], cfg["rw"]
    sides = ["w", "r"] + (["c"] if fam == "chain" else [])
    ncall = {"w": cfg["writers"], "r": cfg["readers"], "c": cfg.get("thirds", 1)}

    class D(Elaboratable):
        def __init__(self):
            self.mocks = {}
            self.callers = []
            for s in sides:
                for k in range(ncall[s]):
                    ex = []
                    for e in range(cfg["extra"]):
                        if cfg.get("shared") and e == 0:
                            nm = f"x_{s}"
                        else:
                            nm = f"x_{s}{k}_{e}"
                        if nm not in self.mocks:
                            self.mocks[nm] = Adapter()
                        ex.append(nm)
                    aw, gw = (dw, rw) if s == "w" else (rw, dw) if s == "r" else (0, 0)
                    self.callers.append(_Caller(s, k, ex, aw, gw))
            self.pins = {}
            if fam == "connect":
                self.c = Connect([("d", dw)], [("r", rw)] if rw else [])
                self.body = {"w": self.c.write, "r": self.c.read}
            else:
                self.mw = Method(i=[("d", dw)], o=[("r", rw)] if rw else [])
                self.mr = Method(i=[("r", rw)] if rw else [], o=[("d", dw)])
                self.body = {"w": self.mw, "r": self.mr}
                self.rdy = {s: Signal(name=f"rdy_{s}") for s in sides}
                if fam == "chain":
                    self.mc = Method()
                    self.body["c"] = self.mc
                if fam == "mt":
                    # the "read side" is a plain transaction (no data), related to the method by simultaneous()
                    self.treq = Signal(name="req_t")
                    self.trun = Signal(name="run_t")
                    self.mocks["x_t"] = Adapter()
            self.via = {s: Method(i=self.body[s].layout_in, o=self.body[s].layout_out, name=f"via_{s}") for s in cfg.get("via", "") if s in self.body}

        def elaborate(self, platform):
            m = TModule()
            if fam == "connect":
                m.submodules.c = self.c
            else:
                fwd = Signal(dw)
                rev = Signal(max(rw, 0))

                @def_method(m, self.mw, ready=self.rdy["w"])
                def _(arg):
                    m.d.av_comb += fwd.eq(arg.d)
                    return {"r": rev} if rw else None

                if fam != "mt":
                    @def_method(m, self.mr, ready=self.rdy["r"])
                    def _(arg):
                        if rw:
                            m.d.av_comb += rev.eq(arg.r)
                        return {"d": fwd}

                    self.mw.simultaneous(self.mr)
                if fam == "chain":
                    @def_method(m, self.mc, ready=self.rdy["c"])
                    def _():
                        pass

                    self.mr.simultaneous(self.mc)
                if fam == "mt":
                    with Transaction(name="T").body(m, ready=self.treq) as t:
                        self.mocks["x_t"].iface(m)
                        m.d.comb += self.trun.eq(1)
                    self.mw.simultaneous(t)
            def define_via(vm, target):
                @def_method(m, vm)
                def _(arg):
                    return target(m, arg)

            for s, vm in self.via.items():
                define_via(vm, self.body[s])
            for c in self.callers:
                if fam == "mt" and c.side == "r":
                    continue
                tgt = self.via.get(c.side, self.body[c.side])
                with Transaction(name=f"T_{c.name}").body(m, ready=c.req):
                    for e in c.extras:
                        self.mocks[e].iface(m)
                    if len(c.arg):
                        res = tgt(m, c.arg)
                    else:
                        res = tgt(m)
                    if len(c.got):
                        m.d.top_comb += c.got.eq(res)
                    m.d.comb += c.run.eq(1)
            return m

    d = D()
    if fam == "mt":
        d.callers = [c for c in d.callers if c.side != "r"]
    inputs = {}
    for c in d.callers:
        inputs[f"req_{c.name}"] = c.req
        if len(c.arg):
            inputs[f"arg_{c.name}"] = c.arg
    if fam != "connect":
        for s, sig in d.rdy.items():
            if fam == "mt" and s == "r":
                continue
            inputs[f"rdy_{s}"] = sig
    if fam == "mt":
        inputs["req_t"] = d.treq

    def observe(d):
        o = {}
        for c in d.callers:
            o[f"run_{c.name}"] = c.run
            if len(c.got):
                o[f"got_{c.name}"] = c.got
        for s, b in d.body.items():
            if fam == "mt" and s == "r":
                continue
            o[f"{s}.run"] = b.run
            o[f"{s}.in"] = b.data_in
            o[f"{s}.out"] = b.data_out
        if fam == "mt":
            o["run_t"] = d.trun
        return o

    return Harness(d, {}, mocks=d.mocks, inputs=inputs, observe=observe)


def configs(tier, seed):
    out = []

    def add(**kw):
        base = dict(family="connect", writers=1, readers=1, extra=1, dw=2, rw=2, via="", shared=False)
        base.update(kw)
        if base not in out:
            out.append(base)

    for wrap in (0, 1, 2):
        for how in ("if", "enable"):
            out.append(dict(family="condwrap", wrap=wrap, how=how))
    for how, rhow in (("if", "if"), ("enable", "enable"), ("if", "enable"), ("enable", "if")):  # BOTH sides of the Connect called conditionally
        out.append(dict(family="condwrap", wrap=0, how=how, rhow=rhow))
    out.append(dict(family="condwrap", wrap=1, how="if", rhow="if"))
    for how in ("plain", "if", "enable"):
        for conn in (False, True):
            out.append(dict(family="nested2", how=how, connect=conn))
    for n in (1, 2, 3):  # chains of Connects T0 -> c0 -> T1 -> c1 ... whose first write / last read side has no caller at all
        for missing in ("none", "last_read", "first_write"):
            out.append(dict(family="uncalled", n=n, missing=missing))
    for n in (2, 3):  # fully connected chains whose two END transactions call one exclusive method (they can never run together)
        out.append(dict(family="uncalled", n=n, missing="none", shared_ends=True))
    if tier == "quick":
        for nw, nr in ((1, 1), (2, 1), (1, 2), (2, 2)):
            for ex in (0, 1, 2):
                add(writers=nw, readers=nr, extra=ex, rw=2 if ex != 2 else 0)
        add(via="w")
        add(via="r", writers=2)
        add(via="wr", extra=2)
        add(writers=2, readers=1, extra=2, shared=True)
        add(dw=1, rw=1, extra=0)
        add(dw=3, rw=0, extra=1)
        for nw, nr in ((1, 1), (2, 1), (1, 2)):
            for ex in (0, 1):
                add(family="raw", writers=nw, readers=nr, extra=ex)
        add(family="raw", via="w", extra=1)
        add(family="raw", rw=0, extra=2, writers=2, readers=2)
        add(family="chain", extra=0)
        add(family="chain", extra=1, writers=2)
        add(family="chain", extra=1, thirds=2)
        add(family="mt", extra=0)
        add(family="mt", extra=1, writers=2)
        add(family="mt", extra=2, rw=0)
    else:
        for fam in ("connect", "raw"):
            for nw, nr in itertools.product((1, 2, 3), repeat=2):
                for ex in (0, 1, 2):
                    for (dw, rw) in ((2, 2), (1, 0), (3, 1), (2, 3)):
                        if (nw + nr) >= 5 and (dw, rw) not in ((2, 2), (1, 0)):
                            continue
                        add(family=fam, writers=nw, readers=nr, extra=ex, dw=dw, rw=rw)
            for via in ("w", "r", "wr"):
                for nw, nr in ((1, 1), (2, 1), (1, 2), (2, 2)):
                    for ex in (0, 1):
                        add(family=fam, via=via, writers=nw, readers=nr, extra=ex)
            for nw, nr in ((2, 1), (2, 2), (3, 2), (1, 3)):
                for ex in (1, 2):
                    add(family=fam, writers=nw, readers=nr, extra=ex, shared=True)
        for nw, nr, nc in itertools.product((1, 2), (1, 2), (1, 2, 3)):
            for ex in (0, 1, 2):
                add(family="chain", writers=nw, readers=nr, thirds=nc, extra=ex)
        for nw in (1, 2, 3):
            for ex in (0, 1, 2):
                for rw in (0, 2):
                    add(family="mt", writers=nw, extra=ex, rw=rw)
    return out


def _spec(cfg, h, o):
    """-> (obligations [(label, bool)], witnesses {label: bool}); everything read through Obs."""
    d = h.dut
    fam = cfg["family"]
    B = lambda n: o.sig(n) == 1
    sides = [s for s in d.body if not (fam == "mt" and s == "r")]
    run = {s: B(f"{s}.run") for s in sides}
    callers = {s: [c for c in d.callers if c.side == s] for s in sides}
    crun = {c.name: B(f"run_{c.name}") for c in d.callers}
    creq = {c.name: B(f"req_{c.name}") for c in d.callers}
    ob, wit = [], {}

    # ---- the property proper
    others = [run[s] for s in sides[1:]]
    if fam == "mt":
        others = [B("run_t")]
    for i, x in enumerate(others):
        ob.append((f"simultaneous bodies run in exactly the same cycles (#{i})", run["w"] == x))
    if fam != "mt":
        ob.append(("data passed to write is the result of read in the same cycle", z3.Implies(run["w"], o.sig("r.out") == o.sig("w.in"))))
        if cfg["rw"]:
            ob.append(("data passed to read is the result of write in the same cycle (reverse direction)",
                       z3.Implies(run["r"], o.sig("w.out") == o.sig("r.in"))))
        # caller level: the running writer and the running reader exchange their values
        for cw in callers["w"]:
            for cr in callers["r"]:
                both = z3.And(crun[cw.name], crun[cr.name])
                ob.append((f"caller {cr.name} receives the argument of caller {cw.name} when both run",
                           z3.Implies(both, o.sig(f"got_{cr.name}") == o.sig(f"arg_{cw.name}"))))
                if cfg["rw"]:
                    ob.append((f"caller {cw.name} receives the argument of caller {cr.name} when both run",
                               z3.Implies(both, o.sig(f"got_{cw.name}") == o.sig(f"arg_{cr.name}"))))
    # ---- bodies run iff exactly one of their callers runs (C04 restated: needed to tie callers to bodies)
    for s in sides:
        cs = [crun[c.name] for c in callers[s]]
        ob.append((f"body {s} runs iff one of its callers runs", run[s] == z3.Or(*cs)))
        ob.append((f"at most one caller of body {s} runs", atmost1(cs)))
    # ---- atomicity with the callers' other callees (arbitrary readiness of the other methods)
    owners = {}
    for c in d.callers:
        for e in c.extras:
            owners.setdefault(e, []).append(c)
    for c in d.callers:
        need = [creq[c.name]] + [o.en(e) for e in c.extras]
        if fam not in ("connect",):
            need.append(B(f"rdy_{c.side}"))
        ob.append((f"caller {c.name} runs only when requested and all of its callees are ready", z3.Implies(crun[c.name], z3.And(*need))))
    for e, cs in owners.items():
        ob.append((f"extra callee {e} runs iff one of its callers runs", o.done(e) == z3.Or(*[crun[c.name] for c in cs])))
    if fam == "mt":
        ob.append(("transaction T runs only when requested and its callee is ready", z3.Implies(B("run_t"), z3.And(B("req_t"), o.en("x_t")))))
        ob.append(("callee of T runs iff T runs", o.done("x_t") == B("run_t")))
    # ---- progress (eager scheduler): a fully ready combination of one caller per side runs the group
    def ready(c):
        return z3.And(creq[c.name], *[o.en(e) for e in c.extras])

    combos = []
    for tup in itertools.product(*[callers[s] for s in sides]):
        # callers of different sides sharing an extra callee cannot be merged; the family never does that
        combos.append(z3.And(*[ready(c) for c in tup]))
    allready = z3.Or(*combos)
    if fam != "connect":
        allready = z3.And(allready, *[B(f"rdy_{s}") for s in sides])
    if fam == "mt":
        allready = z3.And(allready, B("req_t"), o.en("x_t"))
    ob.append(("progress: a fully ready caller combination makes the bodies run", z3.Implies(allready, run["w"])))
    # ---- witnesses
    wit["the bodies run"] = run["w"]
    wit["nothing runs although every writer-side caller is requested and ready"] = z3.And(z3.Not(run["w"]), *[ready(c) for c in callers["w"]])
    if len(callers["w"]) > 1:
        wit["two writers compete and one runs"] = z3.And(ready(callers["w"][0]), ready(callers["w"][1]), run["w"])
    if cfg["extra"]:
        c0 = d.callers[-1]
        wit["a caller is requested but blocked by its extra callee"] = z3.And(creq[c0.name], z3.Not(o.en(c0.extras[0])), z3.Not(crun[c0.name]))
    return ob, wit


def _prove(ctx, name, goal, u, tries=6):
    """ctx.prove with re-tried replay.  The TransactionManager builds merged transactions by iterating over Python sets of
    bodies (hashed by id), so the priority among conflicting merged transactions may differ between the elaboration that was
    encoded and the fresh elaboration used for replay.  A counterexample counts only if some fresh elaboration reproduces
    every observed signal on amaranth.sim; a mismatch on all tries stays a harness error."""
    for k in range(tries):
        ne, nq = len(ctx.errors), len(ctx.queries)
        r = ctx.prove(name, [], goal, u)
        if r is None and k + 1 < tries and len(ctx.errors) > ne and "replay mismatch" in ctx.errors[-1]:
            del ctx.errors[ne:]
            del ctx.queries[nq:]
            ctx.notes["replay_retries"] = ctx.notes.get("replay_retries", 0) + 1
            continue
        return r


def _make_condwrap(cfg):
    """Connect whose write side is called CONDITIONALLY (m.If(valid) / enable_call), directly or through a wrapper method."""
    from amaranth import Elaboratable, Signal
    from transactron import TModule, Transaction, Method, def_method
    from transactron.lib import Connect

    class D(Elaboratable):
        def __init__(self):
            self.c = Connect([("d", 2)], [("r", 2)])
            self.req_w, self.req_r, self.valid = Signal(name="req_w"), Signal(name="req_r"), Signal(name="valid")
            self.valid_r = Signal(name="valid_r")
            self.arg_w, self.arg_r = Signal(2, name="arg_w"), Signal(2, name="arg_r")
            self.got_w, self.got_r = Signal(2, name="got_w"), Signal(2, name="got_r")
            self.run_w, self.run_r = Signal(name="run_w"), Signal(name="run_r")

        def elaborate(self, platform):
            m = TModule()
            m.submodules.c = self.c
            tgt = self.c.write
            for k in range(cfg["wrap"]):
                wv = Method(i=[("d", 2)], o=[("r", 2)], name=f"wrap{k}")

                def define(wv=wv, inner=tgt):
                    @def_method(m, wv)
                    def _(arg):
                        return inner(m, arg)

                define()
                tgt = wv
            with Transaction(name="T_w").body(m, ready=self.req_w):
                m.d.comb += self.run_w.eq(1)
                if cfg["how"] == "if":
                    with m.If(self.valid):
                        m.d.top_comb += self.got_w.eq(tgt(m, d=self.arg_w).r)
                else:
                    m.d.top_comb += self.got_w.eq(tgt(m, d=self.arg_w, enable_call=self.valid).r)
            with Transaction(name="T_r").body(m, ready=self.req_r):
                m.d.comb += self.run_r.eq(1)
                rhow = cfg.get("rhow", "plain")
                if rhow == "if":
                    with m.If(self.valid_r):
                        m.d.top_comb += self.got_r.eq(self.c.read(m, r=self.arg_r).d)
                elif rhow == "enable":
                    m.d.top_comb += self.got_r.eq(self.c.read(m, r=self.arg_r, enable_call=self.valid_r).d)
                else:
                    m.d.top_comb += self.got_r.eq(self.c.read(m, r=self.arg_r).d)
            return m

    d = D()
    inputs = dict(req_w=d.req_w, req_r=d.req_r, valid=d.valid, valid_r=d.valid_r, arg_w=d.arg_w, arg_r=d.arg_r)
    observe = lambda d: {"run_w": d.run_w, "run_r": d.run_r, "got_w": d.got_w, "got_r": d.got_r, "w.run": d.c.write.run, "r.run": d.c.read.run}
    return Harness(d, {}, inputs=inputs, observe=observe)


def _run_condwrap(cfg, ctx):
    try:
        b = Built(lambda: _make_condwrap(cfg))
    except HarnessError:
        raise
    except Exception as e:  # the library refuses the design: the safe outcome, nothing to prove
        ctx.notes["condwrap_rejected_by_library"] = ctx.notes.get("condwrap_rejected_by_library", 0) + 1
        ctx._record(f"condwrap wrap={cfg['wrap']} {cfg['how']}{' reader ' + cfg['rhow'] if cfg.get('rhow') else ''}: design refused at elaboration ({type(e).__name__}) - accepted outcome", "obligation", "unsat", 0.0)
        return
    u = Unroll(b, free_init=True)
    o = u.cycle()
    ctx.frames += 1
    B = lambda n: o.sig(n) == 1
    tag = f"condwrap wrap={cfg['wrap']} {cfg['how']}" + (f", reader side {cfg['rhow']}" if cfg.get("rhow") else "")
    if cfg.get("rhow"):
        ctx.witness(f"{tag}: both transactions run with exactly one of the two calls enabled", [B("run_w"), B("run_r"), o.sig("valid") != o.sig("valid_r")])
        ctx.prove(f"{tag}: Connect.read runs only when its conditional call is enabled", [], z3.Implies(B("r.run"), B("valid_r")), u)
    ctx.witness(f"{tag}: producer runs with the call disabled", [B("run_w"), o.sig("valid") == 0])
    ctx.prove(f"{tag}: Connect.read and Connect.write run in exactly the same cycles", [], B("r.run") == B("w.run"), u)
    ctx.prove(f"{tag}: Connect.write runs only when its conditional call is enabled and the producer runs", [], z3.Implies(B("w.run"), z3.And(B("run_w"), B("valid"))), u)
    ctx.prove(f"{tag}: Connect.read runs only when the consumer runs", [], z3.Implies(B("r.run"), B("run_r")), u)
    ctx.prove(f"{tag}: data is exchanged in both directions when the pair runs", [],
              z3.Implies(B("w.run"), z3.And(o.sig("got_r") == o.sig("arg_w"), o.sig("got_w") == o.sig("arg_r"))), u)


def _make_nested2(cfg):
    """meth ~ outer ~ inner: a method called (conditionally) by a transaction contains a nested transaction related by
    simultaneous(), which contains another one; optionally the innermost calls Connect.write whose read side is called by an
    independent reader transaction."""
    from amaranth import Elaboratable, Signal
    from transactron import TModule, Transaction, Method, def_method
    from transactron.lib import Connect

    class D(Elaboratable):
        def __init__(self):
            self.en, self.req, self.req_r = Signal(name="en"), Signal(name="req"), Signal(name="req_r")
            self.obs = {n: Signal(name="o_" + n) for n in ("meth", "outer", "inner", "target", "w", "r", "caller")}
            self.c = Connect([("d", 2)]) if cfg["connect"] else None

        def elaborate(self, platform):
            m = TModule()
            meth, target = Method(name="meth"), Method(name="target")
            if self.c is not None:
                m.submodules.c = self.c

            @def_method(m, target)
            def _():
                m.d.comb += self.obs["target"].eq(1)

            @def_method(m, meth)
            def _():
                with Transaction(name="outer").body(m) as outer:
                    with Transaction(name="inner").body(m) as inner:
                        target(m)
                        if self.c is not None:
                            self.c.write(m, d=1)
                    outer.simultaneous(inner)
                meth.simultaneous(outer)
                m.d.top_comb += self.obs["outer"].eq(outer.run)
                m.d.top_comb += self.obs["inner"].eq(inner.run)

            with Transaction(name="caller").body(m, ready=self.req):
                m.d.comb += self.obs["caller"].eq(1)
                if cfg["how"] == "if":
                    with m.If(self.en):
                        meth(m)
                elif cfg["how"] == "enable":
                    meth(m, enable_call=self.en)
                else:
                    meth(m)
            if self.c is not None:
                with Transaction(name="reader").body(m, ready=self.req_r):
                    self.c.read(m)
                m.d.top_comb += self.obs["w"].eq(self.c.write.run)
                m.d.top_comb += self.obs["r"].eq(self.c.read.run)
            m.d.top_comb += self.obs["meth"].eq(meth.run)
            return m

    d = D()
    inputs = dict(en=d.en, req=d.req)
    if cfg["connect"]:
        inputs["req_r"] = d.req_r
    return Harness(d, {}, inputs=inputs, observe=lambda d: dict(d.obs))


def _run_nested2(cfg, ctx):
    tag = f"nested2 {cfg['how']}" + (" +Connect" if cfg["connect"] else "")
    try:
        b = Built(lambda: _make_nested2(cfg))
    except HarnessError:
        raise
    except Exception as e:  # refused by the library: the safe outcome
        ctx.notes["nested2_rejected_by_library"] = ctx.notes.get("nested2_rejected_by_library", 0) + 1
        ctx._record(f"{tag}: design refused at elaboration ({type(e).__name__}) - accepted outcome", "obligation", "unsat", 0.0)
        return
    u = Unroll(b, free_init=True)
    o = u.cycle()
    ctx.frames += 1
    B = lambda n: o.sig(n) == 1
    ctx.witness(f"{tag}: the innermost body can run", [B("inner")])
    ctx.prove(f"{tag}: meth and its simultaneous nested transaction 'outer' run in the same cycles", [], B("meth") == B("outer"), u)
    ctx.prove(f"{tag}: 'outer' and its simultaneous nested transaction 'inner' run in the same cycles", [], B("outer") == B("inner"), u)
    ctx.prove(f"{tag}: the method called by 'inner' executes exactly when 'inner' runs", [], B("target") == B("inner"), u)
    if cfg["how"] != "plain":
        ctx.prove(f"{tag}: nothing of the chain runs while the conditional call is disabled", [], z3.Implies(B("meth"), z3.And(B("caller"), B("en"))), u)
    if cfg["connect"]:
        ctx.prove(f"{tag}: Connect.read and Connect.write run in exactly the same cycles", [], B("r") == B("w"), u)
        ctx.prove(f"{tag}: Connect.write executes exactly when its caller 'inner' runs", [], B("w") == B("inner"), u)


def _make_chain(cfg):
    """n Connects in a row; transaction T_i reads c_{i-1} and writes c_i.  `missing`: the read side of the last Connect
    (or the write side of the first one) is called by nobody, so that method never runs."""
    from amaranth import Elaboratable, Signal
    from transactron import TModule, Transaction
    from transactron.lib import Connect

    n, missing = cfg["n"], cfg["missing"]

    class D(Elaboratable):
        def __init__(self):
            self.cs = [Connect([("d", 2)]) for _ in range(n)]
            self.req = [Signal(name=f"req{i}") for i in range(n + 1)]
            self.run = [Signal(name=f"run{i}") for i in range(n + 1)]
            self.arg = Signal(2, name="arg")
            self.got = [Signal(2, name=f"got{i}") for i in range(n + 1)]

        def elaborate(self, platform):
            m = TModule()
            for i, c in enumerate(self.cs):
                m.submodules[f"c{i}"] = c
            shared = None
            if cfg.get("shared_ends"):
                from transactron import Method, def_method

                shared = Method(name="shared")

                @def_method(m, shared)
                def _():
                    pass
            for i in range(n + 1):
                reads = i > 0 and not (i == n and missing == "last_read")
                writes = i < n and not (i == 0 and missing == "first_write")
                if not reads and not writes:
                    continue
                with Transaction(name=f"T{i}").body(m, ready=self.req[i]):
                    m.d.comb += self.run[i].eq(1)
                    data = self.arg
                    if reads:
                        data = self.cs[i - 1].read(m).d
                        m.d.top_comb += self.got[i].eq(data)
                    if writes:
                        self.cs[i].write(m, d=data)
                    if shared is not None and i in (0, n):
                        shared(m)
            return m

    d = D()
    inputs = {f"req{i}": d.req[i] for i in range(n + 1)}
    inputs["arg"] = d.arg

    def observe(d):
        out = {}
        for i, c in enumerate(d.cs):
            out[f"w{i}"], out[f"r{i}"] = c.write.run, c.read.run
        for i in range(n + 1):
            out[f"run{i}"], out[f"got{i}"] = d.run[i], d.got[i]
        return out

    return Harness(d, {}, inputs=inputs, observe=observe)


def _run_chain(cfg, ctx):
    n, missing = cfg["n"], cfg["missing"]
    tag = f"chain of {n} Connect(s), uncalled side: {missing}" + (", both end transactions call one exclusive method" if cfg.get("shared_ends") else "")
    try:
        b = Built(lambda: _make_chain(cfg))
    except HarnessError:
        raise
    except Exception as e:  # refused at elaboration: acceptable (nothing runs)
        ctx._record(f"{tag}: design refused at elaboration ({type(e).__name__}) - accepted outcome", "obligation", "unsat", 0.0)
        return
    u = Unroll(b, free_init=True)
    o = u.cycle()
    ctx.frames += 1
    B = lambda nm: o.sig(nm) == 1
    if missing == "none" and not cfg.get("shared_ends"):
        ctx.witness(f"{tag}: the whole chain runs", [B(f"w{i}") for i in range(n)])
    for i in range(n):
        ctx.prove(f"{tag}: Connect {i}: read and write run in exactly the same cycles", [], B(f"r{i}") == B(f"w{i}"), u)
    if missing == "last_read":
        ctx.prove(f"{tag}: the Connect whose read side has no caller never runs its write side", [], z3.Not(B(f"w{n - 1}")), u)
    if missing == "first_write":
        ctx.prove(f"{tag}: the Connect whose write side has no caller never runs its read side", [], z3.Not(B("r0")), u)
    if missing == "none" and not cfg.get("shared_ends"):
        for i in range(1, n + 1):
            ctx.prove(f"{tag}: the argument travels to reader {i} in the same cycle", [], z3.Implies(B(f"r{i - 1}"), o.sig(f"got{i}") == o.sig("arg")), u)
        ctx.prove(f"{tag}: the chain runs exactly when all its transactions request", [], B("w0") == z3.And(*[B(f"req{i}") for i in range(n + 1)]), u)


def run(cfg, ctx):
    if cfg.get("family") == "uncalled":
        return _run_chain(cfg, ctx)
    if cfg.get("family") == "condwrap":
        return _run_condwrap(cfg, ctx)
    if cfg.get("family") == "nested2":
        return _run_nested2(cfg, ctx)
    simple = cfg["writers"] == 1 and cfg["readers"] == 1 and cfg.get("thirds", 1) == 1
    b = Built(lambda: make(cfg), trace_functions=(ctx.index == 0 or simple and cfg["extra"] == 0))
    ctx.functions = b.functions
    if ctx.index < 3 and simple:
        # translator validation on random input traces (single merged transaction: elaboration order cannot differ)
        pts, mism = cosim(b, 6, ctx.seed)
        ctx.cosim_points += pts
        ctx.cosim_traces += 1
        if mism:
            ctx.errors.append(f"cosim mismatch encoder vs pysim in cfg {cfg}: {mism[:4]}")
    u = Unroll(b, free_init=True)
    o = u.cycle()
    ctx.frames += 1
    ob, wit = _spec(cfg, b.h, o)
    tag = f"{cfg['family']} w{cfg['writers']} r{cfg['readers']} x{cfg['extra']} d{cfg['dw']}/{cfg['rw']}" + (f" via {cfg['via']}" if cfg["via"] else "") + \
          (" shared" if cfg["shared"] else "") + (f" c{cfg['thirds']}" if "thirds" in cfg else "")
    for k, c in wit.items():
        ctx.witness(f"{tag}: {k}", [c])
    for lab, c in ob:
        _prove(ctx, f"{tag}: {lab}", c, u)
    ctx.notes["state_bits"] = ctx.notes.get("state_bits", 0) + sum(v.size() for v in u.state0.values())


# ------------------------------------------------------------------------------------------------ canaries
def _patch(obj, attr, old, new, modname):
    import importlib
    import inspect
    import textwrap

    if getattr(obj, "_verif_patched_" + attr, False):  # applied once per task; workers run several tasks
        return
    mod = importlib.import_module(modname)
    src = textwrap.dedent(inspect.getsource(getattr(obj, attr)))
    assert old in src, f"canary pattern not found: {old}"
    ns = {}
    exec(src.replace(old, new), mod.__dict__, ns)
    setattr(obj, attr, ns[attr])
    setattr(obj, "_verif_patched_" + attr, True)


def _canary_connect_not_simultaneous():
    # Connect forgets to relate its two methods
    import transactron.lib.connectors as C

    _patch(C.Connect, "elaborate", "self.write.simultaneous(self.read)", "pass", "transactron.lib.connectors")


def _canary_no_transitivity():
    # the manager does not join overlapping simultaneous pairs into one group (A~B, B~C)
    import transactron.core.manager as M

    _patch(M.TransactionManager, "_simultaneous", "q.extend(new_group | other_group for other_group in simultaneous if new_group & other_group)", "pass",
           "transactron.core.manager")


def _canary_connect_no_reverse():
    # Connect forgets the reverse direction (read's argument never reaches write's result)
    import transactron.lib.connectors as C

    _patch(C.Connect, "elaborate", "m.d.av_comb += rev_read_value.eq(arg)", "pass", "transactron.lib.connectors")


CANARIES = [("Connect without write.simultaneous(read)", _canary_connect_not_simultaneous),
            ("manager: no transitive joining of simultaneous pairs", _canary_no_transitivity),
            ("Connect drops the reverse-direction data", _canary_connect_no_reverse)]


def classify(v):
    c = v.get("cfg", {})
    if c.get("family") == "nested2" and c.get("connect") and c.get("how") in ("if", "enable") and "Connect.read and Connect.write" in v.get("name", ""):
        return "connect-write-in-doubly-nested-transaction-under-conditional-call"
    return None
