"""C32: latency measurers record true latencies.

The real FIFOLatencyMeasurer, WideFIFOLatencyMeasurer and TaggedLatencyMeasurer (metrics enabled) are wrapped with one
AdapterTrans per start/stop way; `run` and `sample` of every way of the embedded histogram's `add` method are observed.
The reference keeps, per way, the queue of start cycle numbers (FIFO kinds) or the table slot -> start cycle (tagged
kind); the BMC cycle index is concrete, so a start in cycle t records t.  Obligations per cycle: a histogram way adds a
sample exactly when the corresponding stop finishes an event in this cycle (one sample per finished event, none
otherwise) and the sample equals (stop cycle - start cycle) whenever that latency is <= max_latency; start is blocked
when no slot is free and stop when no event is pending (FIFO kinds).  What the histogram does with the samples is C31.
"""
import z3
from ..harness import Harness, Built
from ..seq import bmc
from ..util import zx, b2i, sel

PROP = "C32"
LEVEL = "model_checking"
TECHNIQUE = "BMC from reset on the netlist of the real measurer against a queue / slot table of concrete start cycle numbers (z3 QF_BV); counterexamples replayed on amaranth.sim"
BOUNDS = {
    "quick": "FIFO / Wide (start/stop counts <= 2) / Tagged measurers, slots 2 (Wide also 3 -> rounded to 4), max_latency 7, 3 and 4 (power of two; wrap-around of the epoch "
             "counter inside the bound), ways 1..2, BMC 8 cycles, all start/stop call histories obeying the documented usage",
    "thorough": "slots 1..4, max_latency in {2, 3, 4, 5, 7, 8}, ways 1..2 (3 for the FIFO kind), BMC 11 cycles; Wide start/stop counts (1,1) BMC 11, "
                "(2,2), (2,1), (1,2) BMC 9 with 2 slots and BMC 7 with 3..4 slots (solver time grows ~4x per cycle there)",
}
OUTSIDE = ["latencies above max_latency (documented overflow): only the presence of the sample is checked, not its value",
           "misuse: stop of more events than pending (Wide), start of a taken slot / stop of a free slot / two ways using the same slot in one cycle (Tagged)",
           "slot numbers / ways / counts above the enumerated ones", "histories longer than the BMC bound", "the histogram registers (C31)"]
ASSUMES = ["single clock domain, reset held low", "callers are AdapterTrans transactions (one per method and way)", "HwMetricsEnabledKey = True",
           "the sample is added in the cycle in which stop runs (the statement does not fix the cycle; the implementation is combinational here)",
           "Wide: an enabled stop asks for at most the number of pending events of its way ('when used correctly')",
           "Tagged: enabled starts name free, pairwise distinct slots < slots_number; enabled stops name taken, pairwise distinct slots"]
W = 8
QUERY_TIMEOUT_S = 300.0  # the two-column WideFifo unrollings need up to ~60 s of solver time on an idle machine


def configs(tier, seed):
    out = []
    if tier == "quick":
        K = 8
        for ways in (1, 2):
            out.append(dict(kind="fifo", slots=2, max_latency=7, ways=ways, K=K))
            out.append(dict(kind="tagged", slots=2, max_latency=7, ways=ways, K=K))
        out.append(dict(kind="wide", slots=2, max_latency=7, ways=1, start_count=2, stop_count=2, K=K))
        out.append(dict(kind="wide", slots=3, max_latency=7, ways=2, start_count=2, stop_count=1, K=K))
        out.append(dict(kind="fifo", slots=2, max_latency=3, ways=1, K=K))
        out.append(dict(kind="tagged", slots=3, max_latency=3, ways=1, K=K))
        out.append(dict(kind="wide", slots=2, max_latency=3, ways=1, start_count=1, stop_count=2, K=K))
        # max_latency a power of two: a latency of exactly max_latency needs one more bit than max_latency - 1
        out.append(dict(kind="fifo", slots=2, max_latency=4, ways=1, K=K))
        out.append(dict(kind="tagged", slots=2, max_latency=4, ways=1, K=K))
        out.append(dict(kind="wide", slots=2, max_latency=4, ways=1, start_count=1, stop_count=1, K=K))
    else:
        K = 11
        for slots in (1, 2, 3, 4):
            for ml in (2, 3, 4, 5, 7, 8):
                for ways in (1, 2, 3):
                    if ways == 3 and (slots not in (2,) or ml != 7):
                        continue
                    out.append(dict(kind="fifo", slots=slots, max_latency=ml, ways=ways, K=K))
                for ways in (1, 2):
                    if ways > slots:
                        continue
                    out.append(dict(kind="tagged", slots=slots, max_latency=ml, ways=ways, K=K))
        for slots in (2, 3, 4):
            for ml in (3, 4, 7):
                for sc, pc in ((1, 1), (2, 2), (2, 1), (1, 2)):
                    for ways in (1, 2):
                        if ways == 2 and (ml == 3 or slots == 3):
                            continue
                        # two-column WideFifo: the unrolling gets ~4x harder per cycle, bound chosen so that no query times out
                        k = 11 if max(sc, pc) == 1 else (9 if slots == 2 else 7)
                        out.append(dict(kind="wide", slots=slots, max_latency=ml, ways=ways, start_count=sc, stop_count=pc, K=k))
    return out


def _params(cfg):
    """(capacity per way, max start count, max stop count)"""
    if cfg["kind"] == "wide":
        mc = max(cfg["start_count"], cfg["stop_count"])
        return (cfg["slots"] + mc - 1) // mc * mc, cfg["start_count"], cfg["stop_count"]
    return cfg["slots"], 1, 1


def make(cfg):
    from amaranth import Value
    from transactron.lib.metrics import FIFOLatencyMeasurer, WideFIFOLatencyMeasurer, TaggedLatencyMeasurer

    kw = dict(slots_number=cfg["slots"], max_latency=cfg["max_latency"], ways=cfg["ways"])
    if cfg["kind"] == "fifo":
        d = FIFOLatencyMeasurer("a.lat", "", **kw)
    elif cfg["kind"] == "wide":
        d = WideFIFOLatencyMeasurer("a.lat", "", max_start_count=cfg["start_count"], max_stop_count=cfg["stop_count"], **kw)
    else:
        d = TaggedLatencyMeasurer("a.lat", "", **kw)
    prov = {}
    for k in range(cfg["ways"]):
        prov[f"start{k}"] = d.start[k]
        prov[f"stop{k}"] = d.stop[k]

    def observe(d):
        out = {}
        for j, meth in enumerate(d.histogram.add):
            out[f"add{j}_run"] = meth.run
            out[f"add{j}_sample"] = Value.cast(meth.data_in)  # the layout of add is the single field `sample`
        return out

    return Harness(d, prov, observe=observe)


def _lat_ob(o, j, t, start_cycle, ml, label):
    lat = z3.BitVecVal(t, W) - start_cycle
    return (label, z3.Implies(z3.ULE(lat, ml), zx(o.sig(f"add{j}_sample"), W) == lat))


def _step_fifo(cfg, k):
    """Reference for way k of a FIFO-kind measurer (every way owns its FIFO; the other ways stay unconstrained in the query)."""
    cap, msc, mpc = _params(cfg)
    ml = cfg["max_latency"]
    wide = cfg["kind"] == "wide"

    def step(st, o, t):
        # times[n] = start cycle of the n-th event ever started on this way; head / tail = events finished / started so far
        times, head, tail = st
        ob, asm, wit = [], [], {}
        now = z3.BitVecVal(t, W)
        cnt = tail - head
        sd, pd = o.done(f"start{k}"), o.done(f"stop{k}")
        if wide:
            sc, pc = zx(o.arg(f"start{k}", "count"), W), zx(o.arg(f"stop{k}", "count"), W)
            asm += [z3.ULE(sc, msc), z3.ULE(pc, mpc), z3.Implies(o.en(f"stop{k}"), z3.ULE(pc, cnt))]
        else:
            sc = pc = z3.BitVecVal(1, W)
        popped = z3.If(pd, pc, z3.BitVecVal(0, W))
        pushed = z3.If(sd, sc, z3.BitVecVal(0, W))
        ob.append((f"way {k}: stop is blocked when no event is pending", z3.Implies(z3.And(pd, pc != 0), z3.UGE(cnt, pc))))
        ob.append((f"way {k}: start is blocked when the slots do not suffice", z3.Implies(sd, z3.ULE(cnt - popped + pushed, cap))))
        ob.append((f"way {k}: start/stop run only when called", z3.And(z3.Implies(sd, o.en(f"start{k}")), z3.Implies(pd, o.en(f"stop{k}")))))
        oldest = sel(times, head)
        for i in range(mpc):
            j = k * mpc + i
            fin = z3.And(pd, z3.UGT(pc, i))
            ob.append((f"way {k}: histogram way {j} adds a sample exactly when stop finishes its event number {i}", (o.sig(f"add{j}_run") == 1) == fin))
            lab, c = _lat_ob(o, j, t, oldest if i == 0 else sel(times, head + i), ml,
                             f"way {k}: sample {i} = cycles between start and stop of the {i}-th oldest pending event")
            ob.append((lab, z3.Implies(fin, c)))
        times2 = [z3.If(z3.And(sd, z3.UGE(z3.BitVecVal(n, W), tail), z3.ULT(z3.BitVecVal(n, W), tail + sc)), now, times[n]) if n < (t + 1) * msc else times[n]
                  for n in range(len(times))]
        wit["all slots taken"] = cnt == cap
        if cap > 1:
            wit["start and stop in the same cycle"] = z3.And(sd, pd, sc != 0, pc != 0)
        if ml <= cfg["K"] - 1:
            wit["latency of exactly max_latency measured"] = z3.And(pd, pc != 0, now - oldest == ml)
        if ml < cfg["K"] - 1:
            wit["latency above max_latency occurs (outside the claim)"] = z3.And(pd, pc != 0, z3.UGT(now - oldest, ml))
        wit["start called but blocked"] = z3.And(o.en(f"start{k}"), z3.Not(sd))
        if mpc > 1:
            wit["two events finished by one stop"] = z3.And(pd, pc == 2)
        if msc > 1:
            wit["two events started by one start"] = z3.And(sd, sc == 2)
        if k >= 1:
            wit["this way and way 0 finish an event in the same cycle"] = z3.And(pd, pc != 0, o.done("stop0"))
        return ob, asm, (times2, head + popped, tail + pushed), wit

    return step


def _step_tagged(cfg):
    slots, ways, ml = cfg["slots"], cfg["ways"], cfg["max_latency"]

    def slot_of(o, n):
        return zx(o.arg(n, "slot"), W) if f"{n}.in" in o.b.names else z3.BitVecVal(0, W)

    def step(st, o, t):
        taken, since = st
        ob, asm, wit = [], [], {}
        ss = [slot_of(o, f"start{k}") for k in range(ways)]
        ps = [slot_of(o, f"stop{k}") for k in range(ways)]
        sd = [o.done(f"start{k}") for k in range(ways)]
        pd = [o.done(f"stop{k}") for k in range(ways)]
        for k in range(ways):
            asm.append(z3.Implies(o.en(f"start{k}"), z3.And(z3.ULT(ss[k], slots), z3.Not(sel(taken, ss[k])))))
            asm.append(z3.Implies(o.en(f"stop{k}"), z3.And(z3.ULT(ps[k], slots), sel(taken, ps[k]))))
            for k2 in range(k):
                asm.append(z3.Implies(z3.And(o.en(f"start{k}"), o.en(f"start{k2}")), ss[k] != ss[k2]))
                asm.append(z3.Implies(z3.And(o.en(f"stop{k}"), o.en(f"stop{k2}")), ps[k] != ps[k2]))
            ob.append((f"way {k}: histogram way {k} adds a sample exactly when stop runs", (o.sig(f"add{k}_run") == 1) == pd[k]))
            lab, c = _lat_ob(o, k, t, sel(since, ps[k]), ml, f"way {k}: sample = cycles between start and stop of the slot")
            ob.append((lab, z3.Implies(pd[k], c)))
            ob.append((f"way {k}: start/stop run only when called", z3.And(z3.Implies(sd[k], o.en(f"start{k}")), z3.Implies(pd[k], o.en(f"stop{k}")))))
        now = z3.BitVecVal(t, W)
        taken2, since2 = [], []
        for s in range(slots):
            started = z3.Or(*[z3.And(sd[k], ss[k] == s) for k in range(ways)])
            stopped = z3.Or(*[z3.And(pd[k], ps[k] == s) for k in range(ways)])
            taken2.append(z3.Or(started, z3.And(taken[s], z3.Not(stopped))))
            since2.append(z3.If(started, now, since[s]))
        wit["all slots taken"] = z3.And(*taken)
        if slots > 1:
            wit["a start and a stop in the same cycle"] = z3.And(sd[0], pd[-1])
        if ml <= cfg["K"] - 1:
            wit["latency of exactly max_latency measured"] = z3.And(pd[0], now - sel(since, ps[0]) == ml)
        if ml < cfg["K"] - 1:
            wit["latency above max_latency occurs (outside the claim)"] = z3.And(pd[0], z3.UGT(now - sel(since, ps[0]), ml))
        if slots > 1:
            wit["events finish out of start order"] = z3.And(pd[0], ps[0] == 1, taken[0], z3.ULT(since[0], since[1]))
        if ways > 1:
            wit["two ways finish events in the same cycle"] = z3.And(pd[0], pd[1])
        return ob, asm, (taken2, since2), wit

    return step


def run(cfg, ctx):
    from transactron.lib.metrics import HwMetricsEnabledKey

    b = Built(lambda: make(cfg), deps=[(HwMetricsEnabledKey(), True)], trace_functions=(ctx.index == 0))
    ctx.functions = b.functions
    zero = z3.BitVecVal(0, W)
    if cfg["kind"] == "tagged":
        name = f"TaggedLatencyMeasurer slots={cfg['slots']} max_latency={cfg['max_latency']} ways={cfg['ways']}"
        init = lambda h: ([z3.BoolVal(False)] * cfg["slots"], [zero] * cfg["slots"])
        step = _step_tagged(cfg)
    else:
        cap, msc, mpc = _params(cfg)
        cls = "FIFOLatencyMeasurer" if cfg["kind"] == "fifo" else f"WideFIFOLatencyMeasurer start<={msc} stop<={mpc}"
        name = f"{cls} slots={cfg['slots']} max_latency={cfg['max_latency']} ways={cfg['ways']}"
        for k in range(cfg["ways"]):
            init = lambda h: ([zero] * (cfg["K"] * msc), zero, zero)
            bmc(ctx, f"{name}, way {k}", b, cfg["K"], _step_fifo(cfg, k), init, cosim_k=12 if ctx.index < 4 and k == 0 else 0)
        return
    bmc(ctx, name, b, cfg["K"], step, init, cosim_k=12 if ctx.index < 4 else 0)


# ---------------------------------------------------------------- canaries
def _patch(cls, old, new):
    import inspect
    import textwrap
    import transactron.lib.metrics as M

    if getattr(cls.elaborate, "_verif_mutant", False):
        return
    src = textwrap.dedent(inspect.getsource(cls.elaborate))
    assert old in src
    ns = {}
    exec(src.replace(old, new), M.__dict__, ns)
    ns["elaborate"]._verif_mutant = True
    cls.elaborate = ns["elaborate"]


def _canary_fifo_off_by_one():
    # the epoch stored at start is the next one: every FIFO latency is one too small
    from transactron.lib.metrics import WideFIFOLatencyMeasurer
    _patch(WideFIFOLatencyMeasurer, "data=[epoch] * self.max_start_count", "data=[epoch + 1] * self.max_start_count")


def _canary_tagged_wrong_slot():
    # the slot memory is read at slot 0 regardless of the tag
    from transactron.lib.metrics import TaggedLatencyMeasurer
    _patch(TaggedLatencyMeasurer, "ret = self.slots.read[k](m, addr=slot)", "ret = self.slots.read[k](m, addr=0)")


def _canary_wide_sample_order():
    # the i-th finished event is reported with the latency of the first one
    from transactron.lib.metrics import WideFIFOLatencyMeasurer
    _patch(WideFIFOLatencyMeasurer, "duration = (epoch - ret.data[i]).as_unsigned()[:-1]", "duration = (epoch - ret.data[0]).as_unsigned()[:-1]")


CANARIES = [("FIFO measurers store the next epoch (latency one too small)", _canary_fifo_off_by_one),
            ("TaggedLatencyMeasurer reads slot 0 for every tag", _canary_tagged_wrong_slot),
            ("Wide measurer reports the first latency for every finished event", _canary_wide_sample_order)]
