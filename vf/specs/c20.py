"""C20: Semaphore counts acquisitions.

Real `Semaphore(max_count)` with one AdapterTrans per method (acquire, release, clear); the reference is a plain
integer "acquisitions minus releases since the last clear" stepped next to the netlist.

* IND: one transition from ANY value of the `count` register with `count <= max_count` (the register is the only
  state of the component).  The range predicate is proved inductive and true after reset, and every value
  0..max_count is reachable from reset by that many acquires, so a `sat` answer of the step query is a real
  reachable violation (it is replayed on amaranth.sim from the forced register value) and `unsat` covers call
  histories of every length for that max_count.
* BMC from reset against the same reference (every subset of simultaneous calls per cycle) and co-simulation of the
  encoding against amaranth.sim.
"""
import z3
from ..harness import Harness, Built
from ..seq import bmc, Unroll
from ..util import zx, b2i

PROP = "C20"
LEVEL = "model_checking"
TECHNIQUE = "one-step induction on the visible count register (complete per max_count) + BMC from reset against an integer reference; z3 QF_BV on the Amaranth netlist"
BOUNDS = {
    "quick": "max_count 1..5: one-step induction from every count <= max_count with every subset of simultaneous acquire/release/clear "
             "calls; BMC 2*max_count+3 cycles from reset for max_count 1..3",
    "thorough": "max_count 1..9 (and 12, 16): one-step induction; BMC 2*max_count+3 cycles from reset for max_count 1..9",
}
OUTSIDE = ["max_count values not enumerated (each max_count is a separate netlist)", "max_count = 0",
           "callers other than one transaction per method (e.g. several callers of the nonexclusive clear)"]
ASSUMES = ["single clock domain, reset held low", "callers are AdapterTrans transactions (one per method)",
           "an acquire/release running in the same cycle as clear counts as 'before the clear': the count is 0 afterwards "
           "('clear resets the count to zero')",
           "the statement does not say when clear is ready; the reference follows the clear calls that actually ran"]
W = 8


def make(cfg):
    from transactron.lib import Semaphore

    d = Semaphore(cfg["max"])
    return Harness(d, dict(acquire=d.acquire, release=d.release, clear=d.clear), observe=lambda d: dict(count=d.count))


def configs(tier, seed):
    out = []
    if tier == "quick":
        out += [dict(max=mx, mode="ind") for mx in range(1, 6)]
        out += [dict(max=mx, mode="bmc", K=2 * mx + 3) for mx in (1, 2, 3)]
    else:
        out += [dict(max=mx, mode="ind") for mx in list(range(1, 10)) + [12, 16]]
        out += [dict(max=mx, mode="bmc", K=2 * mx + 3) for mx in range(1, 10)]
    return out


def _step(mx):
    def step(cnt, o, t):
        acq, rel, clr = o.done("acquire"), o.done("release"), o.done("clear")
        ob = [("acquire ready iff count < max_count", acq == z3.And(o.en("acquire"), z3.ULT(cnt, mx))),
              ("release ready iff count > 0", rel == z3.And(o.en("release"), cnt != 0)),
              ("count register = acquisitions - releases since the last clear", zx(o.sig("count"), W) == cnt)]
        nxt = z3.If(clr, z3.BitVecVal(0, W), cnt + b2i(acq, W) - b2i(rel, W))
        wit = {"count at max_count": cnt == mx, "clear with a non-zero count": z3.And(clr, cnt != 0),
               "clear and acquire in the same cycle": z3.And(clr, acq)}
        if mx > 1:
            wit["acquire and release in the same cycle"] = z3.And(acq, rel)
        return ob, [], nxt, wit

    return step


def run(cfg, ctx):
    b = Built(lambda: make(cfg), trace_functions=(ctx.index == 0))
    ctx.functions = b.functions
    mx = cfg["max"]
    step = _step(mx)
    if cfg["mode"] == "bmc":
        bmc(ctx, f"Semaphore({mx}) vs counter", b, cfg["K"], step, lambda h: z3.BitVecVal(0, W), cosim_k=12 if ctx.index < 8 else 0)
        return
    # --- one-step induction on the count register ---
    u = Unroll(b, free_init=True)
    o = u.cycle()
    cnt = zx(o.sig("count"), W)
    pre = z3.ULE(cnt, mx)
    ob, _, nxt, wit = step(cnt, o, 0)
    u.advance()
    o2 = u.cycle()
    cnt2 = zx(o2.sig("count"), W)
    ctx.frames += 2
    ctx.steps += 1
    for k, c in wit.items():
        ctx.witness(f"IND Semaphore({mx}): '{k}' possible", [pre, c])
    u0 = Unroll(b)
    o0 = u0.cycle()
    ctx.prove(f"IND base Semaphore({mx}): count is 0 after reset", [], zx(o0.sig("count"), W) == 0, u0)
    for lab, c in ob[:2]:
        ctx.prove(f"IND Semaphore({mx}): {lab}, from any count <= max_count", [pre], c, u)
    ctx.prove(f"IND Semaphore({mx}): next count = clear ? 0 : count + acquire - release, from any count <= max_count", [pre], cnt2 == nxt, u)
    ctx.prove(f"IND Semaphore({mx}): count <= max_count is preserved", [pre], z3.ULE(cnt2, mx), u)


def _reexec(cls, old, new):
    import inspect
    import textwrap
    import transactron.lib.fifo as fifo

    src = textwrap.dedent(inspect.getsource(cls.elaborate))
    assert old in src
    ns = {}
    exec(src.replace(old, new), fifo.__dict__, ns)
    cls.elaborate = ns["elaborate"]


def _canary_release_not_counted():
    import transactron.lib.fifo as fifo

    _reexec(fifo.Semaphore, "self.count + self.acquire.run - self.release.run", "self.count + self.acquire.run")


def _canary_acquire_ready_off_by_one():
    import transactron.lib.fifo as fifo

    _reexec(fifo.Semaphore, "self.acquire_ready.eq(self.count < self.max_count)", "self.acquire_ready.eq(self.count <= self.max_count)")


def _canary_clear_loses_priority():
    import transactron.lib.fifo as fifo

    _reexec(fifo.Semaphore, "with m.If(self.clear.run):", "with m.If(self.clear.run & ~self.acquire.run):")


CANARIES = [("Semaphore: release does not decrement", _canary_release_not_counted),
            ("Semaphore: acquire ready at count == max_count", _canary_acquire_ready_off_by_one),
            ("Semaphore: clear loses against a simultaneous acquire", _canary_clear_loses_priority)]


def _callers_items():
    from transactron.lib import Semaphore

    return [("Semaphore(3)", lambda: Semaphore(3), [("acquire", ["acquire"]), ("release", ["release"])], [("clear", ["clear"])])]


from ..excl import install as _install  # noqa: E402
_install(globals(), _callers_items())
