"""C02 explicit conflicts on generated designs: for every add_conflict(x, y, prio) of the spec (transactions, methods, methods behind aliases and nested calls, transaction-vs-method) the query run(x) AND run(y) must be unsat over all inputs and register states, under both schedulers (vf/core.py, vf/designgen.py)."""
from ._core_common import *  # noqa

PROP = "C02"
SCHEDULERS = ("eager", "rr")
OPTS = dict(p_mbefore=0.5, multi=True, mgroup=True, p_single_group=0.3, alias=True, combiner=True, fsm=True, nested_methods=True, p_fresh=0.96, p_conflict=0.6, p_mconflict=0.8, n_mconflict=2, p_tm_conflict=0.4, mprio=True, min_tr=3, p_group=0.8)
BOUNDS = {"quick": "fixed relation family (61 designs: cross-module add_conflict in same-position alternatives of If/Switch/FSM, prioritised method conflicts lifted over an exclusive caller pair, bodies with two ready-dependency sources) + 40 batches x 12 random designs rich in add_conflict relations (t-t, m-m, t-m; all priorities), both schedulers", "thorough": "1600 batches x 25 designs"}
OUTSIDE = OUTSIDE_COMMON
ASSUMES = ASSUMES_COMMON


def configs(tier, seed):
    return systematic_configs(SCHEDULERS, family="relations") + batch_configs(tier, seed, 40, 1600, 12 if tier == "quick" else 25, OPTS, SCHEDULERS)


def run(cfg, ctx):
    run_batch(cfg, ctx, {PROP})


def classify(v):
    d = v.get("detail")
    return d.get("class") if isinstance(d, dict) else None
