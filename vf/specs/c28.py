"""C28: PipelineBuilder pipelines are ordered, lossless and compute the composed stages.

A pipeline shape (list of nodes: source, function stages, called methods (mocked with symbolic readiness and results),
external methods in the middle, no_dependency nodes, sink; Pipe or FIFO(2) forwarders; optional stage `ready` pins) is
built with the real `PipelineBuilder`.  Every provided method sits behind an AdapterTrans, every called method is an
`Adapter` mock, function stages report their execution and the arguments they saw.  The reference keeps one execution
counter per node and, per (generating node, field), the table of values generated for the k-th item (items are
symbolic).  Safety reading of "exactly once / in order / computed fields": the k-th execution of every node happens
after the k-th execution of all earlier nodes and sees, for each consumed field, the value generated for item k by the
last earlier generator of that field; a lost, duplicated or reordered item shifts a sequence and is caught because the
items are symbolic.  `clear` discards everything in flight: all counters jump to the largest one (items entered so far
are never seen again by any node); an item entering in the cycle of the clear is discarded too (Pipe/BasicFifo document
that clear has priority).
"""
import itertools
import z3
from ..harness import Harness, Built
from ..seq import bmc
from ..util import b2i, sel

PROP = "C28"
LEVEL = "model_checking"
TECHNIQUE = "BMC from reset of the real pipeline netlist against per-node counters and per-item value tables over symbolic items (z3 QF_BV); counterexamples replayed on amaranth.sim"
BOUNDS = {
    "quick": "6 shapes of 3..5 nodes (source, function stages incl. overwrite of a field, mocked called method, middle external methods, "
             "no_dependency external, stage ready pin, sink; Pipe and FIFO(2) forwarders), 2-bit fields, clear included, BMC 8 cycles",
    "thorough": "all 3- and 4-node shapes over 8 middle node kinds x {Pipe, FIFO(2)} forwarder choices (subsampled for 4 nodes) plus the quick shapes, "
                "2-bit fields, BMC 11 cycles (10 for 5-node shapes)",
}
OUTSIDE = ["eventual delivery (liveness) and throughput", "pipelines longer than 5 nodes, FIFO depths other than 2, field widths other than 2",
           "no_dependency function stages", "external clear methods (add_external_clear)", "histories longer than the BMC bound",
           "the error checks of the builder (shape mismatches, unused fields)"]
ASSUMES = ["single clock domain, reset held low", "callers are AdapterTrans transactions (one per provided method), called methods are Adapter mocks with free readiness/results",
           "function stages are the fixed functions listed in the configuration (sum of input fields plus a constant, modulo 4)",
           "an item entering in the same cycle as clear is discarded (clear has priority, as documented for Pipe and BasicFifo)"]
W = 8
FW = 2


# ---------------------------------------------------------------- shapes
# node kinds: src(gen) | fn(outs: {field: [srcs, const]}) | call(ins, outs) | ext(req, gen) | sink ; options: fifo, nodep, rdy
def _src(fields=("a",)):
    return dict(t="src", gen=list(fields))


def _fn(outs, **kw):
    return dict(t="fn", outs={k: [list(s), c] for k, (s, c) in outs.items()}, **kw)


def _call(ins, outs, **kw):
    return dict(t="call", ins=list(ins), outs=list(outs), **kw)


def _ext(req, gen, **kw):
    return dict(t="ext", req=list(req), gen=list(gen), **kw)


MIDDLE = {
    "inc": lambda **kw: _fn({"b": (["a"], 1)}, **kw),                  # b = a + 1
    "over": lambda **kw: _fn({"a": (["a"], 1)}, **kw),                 # a overwritten by a + 1
    "incrdy": lambda **kw: _fn({"b": (["a"], 1)}, rdy=True, **kw),     # with a ready pin
    "call": lambda **kw: _call(["a"], ["c"], **kw),                    # called method a -> c
    "callover": lambda **kw: _call(["a"], ["a"], **kw),                # called method overwriting a
    "callnd": lambda **kw: _call([], ["d"], nodep=True, **kw),         # no_dependency called method
    "ext": lambda **kw: _ext(["a"], ["e"], **kw),                      # external method in the middle (sees a, adds e)
    "extnd": lambda **kw: _ext([], ["f"], nodep=True, **kw),           # no_dependency external method
}


def _finish(nodes, sink_fifo=False, **opts):
    """append the sink consuming every available field"""
    avail = []
    for n in nodes:
        for f in _gen(n):
            if f not in avail:
                avail.append(f)
    nodes = nodes + [dict(t="sink", req=avail, **({"fifo": 2} if sink_fifo else {}))]
    return dict(nodes=nodes, **opts)


def _gen(n):
    return {"src": lambda: n["gen"], "fn": lambda: list(n["outs"]), "call": lambda: n["outs"], "ext": lambda: n["gen"], "sink": lambda: []}[n["t"]]()


def _req(n):
    if n["t"] == "fn":
        r = []
        for srcs, _ in n["outs"].values():
            r += [s for s in srcs if s not in r]
        return r
    return {"src": lambda: [], "call": lambda: n["ins"], "ext": lambda: n["req"], "sink": lambda: n["req"]}[n["t"]]()


def _quick_shapes():
    return [
        _finish([_src(), MIDDLE["inc"](), MIDDLE["call"](fifo=2)]),
        _finish([_src(["a", "b"]), _fn({"c": (["a", "b"], 0)}), MIDDLE["over"]()], sink_fifo=True),
        _finish([_src(), MIDDLE["ext"](), MIDDLE["extnd"]()]),
        _finish([_src(), MIDDLE["incrdy"](fifo=2), MIDDLE["callover"]()]),
        # the deadlock-breaking idiom of the docstring: a is handed out and a replacement comes back through a no_dependency node
        dict(nodes=[_src(), _ext(["a"], []), _ext([], ["a"], nodep=True), dict(t="sink", req=["a"])], allow_empty=True),
        _finish([_src(), MIDDLE["callnd"](), MIDDLE["inc"](), MIDDLE["call"]()]),
    ]


def configs(tier, seed):
    if tier == "quick":
        return [dict(shape=s, K=8) for s in _quick_shapes()]
    out = [dict(shape=s, K=11 if len(s["nodes"]) < 5 else 10) for s in _quick_shapes()]
    n = 0
    for kind in MIDDLE:
        for f1, f2 in itertools.product((None, 2), repeat=2):
            kw = {"fifo": 2} if f1 else {}
            out.append(dict(shape=_finish([_src(), MIDDLE[kind](**kw)], sink_fifo=bool(f2)), K=11))
    for k1, k2 in itertools.product(MIDDLE, repeat=2):
        if k1 == k2 and k1 in ("inc", "incrdy", "call", "callnd", "ext", "extnd"):
            continue  # would generate the same field twice without a consumer in between
        if {k1, k2} == {"inc", "incrdy"}:
            continue
        n += 1
        fifos = [(None, None, None), (2, None, None), (None, 2, None), (None, None, 2)][n % 4]
        kw1 = {"fifo": 2} if fifos[0] else {}
        kw2 = {"fifo": 2} if fifos[1] else {}
        out.append(dict(shape=_finish([_src(), MIDDLE[k1](**kw1), MIDDLE[k2](**kw2)], sink_fifo=bool(fifos[2])), K=11))
    return out


# ---------------------------------------------------------------- harness
def make(cfg):
    from amaranth import Elaboratable, Signal
    from transactron import Method, TModule
    from transactron.lib import Adapter
    from transactron.lib.pipeline import PipelineBuilder

    shape = cfg["shape"]
    nodes = shape["nodes"]

    class Pl(Elaboratable):
        def __init__(self):
            self.p = PipelineBuilder(allow_empty=shape.get("allow_empty", False), allow_unused=shape.get("allow_unused", False))
            self.meth, self.mock, self.ran, self.seen, self.rdy = {}, {}, {}, {}, {}
            for j, n in enumerate(nodes):
                if n["t"] in ("src", "ext", "sink"):
                    self.meth[j] = Method(name=f"node{j}", i=[(f, FW) for f in _gen(n)], o=[(f, FW) for f in _req(n)])
                elif n["t"] == "call":
                    self.mock[j] = Adapter(name=f"called{j}", i=[(f, FW) for f in n["ins"]], o=[(f, FW) for f in n["outs"]])
                else:
                    self.ran[j] = Signal(name=f"ran{j}")
                    self.seen[j] = {f: Signal(FW, name=f"seen{j}_{f}") for f in _req(n)}
                if n.get("rdy"):
                    self.rdy[j] = Signal(name=f"rdy{j}")

        def elaborate(self, platform):
            m = TModule()
            p = self.p
            m.submodules.pipeline = p
            for j, n in enumerate(nodes):
                if n.get("fifo"):
                    p.fifo(n["fifo"])
                kw = {}
                if n.get("nodep"):
                    kw["no_dependency"] = True
                if n.get("rdy"):
                    kw["ready"] = self.rdy[j]
                if j in self.meth:
                    p.add_external(self.meth[j], **kw)
                elif j in self.mock:
                    p.call_method(self.mock[j].iface, **kw)
                else:
                    self._stage(m, p, j, n, kw)
            return m

        def _stage(self, m, p, j, n, kw):
            ran, seen = self.ran[j], self.seen[j]

            @p.stage(m, o=[(f, FW) for f in n["outs"]], i=[(f, FW) for f in _req(n)], **kw)
            def _(arg):
                m.d.comb += ran.eq(1)
                for f, s in seen.items():
                    m.d.top_comb += s.eq(arg[f])
                res = {}
                for f, (srcs, const) in n["outs"].items():
                    v = const
                    for s in srcs:
                        v = v + arg[s]
                    res[f] = v
                return res

    d = Pl()
    provided = {f"node{j}": meth for j, meth in d.meth.items()}
    provided["clear"] = d.p.clear
    mocks = {f"called{j}": a for j, a in d.mock.items()}
    inputs = {f"rdy{j}": s for j, s in d.rdy.items()}

    def observe(d):
        out = {f"ran{j}": s for j, s in d.ran.items()}
        for j, ss in d.seen.items():
            out.update({f"seen{j}_{f}": s for f, s in ss.items()})
        return out

    return Harness(d, provided, mocks=mocks, inputs=inputs, observe=observe)


# ---------------------------------------------------------------- reference
def _step(cfg):
    nodes = cfg["shape"]["nodes"]
    N = cfg["K"] + 1
    nn = len(nodes)
    # last earlier generator of each consumed field
    src_of = {}
    for j, n in enumerate(nodes):
        for f in _req(n):
            gens = [i for i in range(j) if f in _gen(nodes[i])]
            src_of[(j, f)] = gens[-1]

    def name(j):
        return f"node {j} ({nodes[j]['t']})"

    def step(st, o, t):
        cnt, tab, cleared = st
        ob, wit = [], {}
        ran, gen_val = [], {}
        for j, n in enumerate(nodes):
            k = cnt[j]
            if n["t"] in ("src", "ext", "sink"):
                r = o.done(f"node{j}")
                ob.append((f"{name(j)} runs only when called", z3.Implies(r, o.en(f"node{j}"))))
                seen = {f: o.out(f"node{j}", f) for f in _req(n)}
                given = {f: o.arg(f"node{j}", f) for f in _gen(n)}
            elif n["t"] == "call":
                r = o.done(f"called{j}")
                ob.append((f"{name(j)}: the called method runs only when it is ready", z3.Implies(r, o.en(f"called{j}"))))
                seen = {f: o.out(f"called{j}", f) for f in n["ins"]}
                given = {f: o.arg(f"called{j}", f) for f in n["outs"]}
            else:
                r = o.sig(f"ran{j}") == 1
                seen = {f: o.sig(f"seen{j}_{f}") for f in _req(n)}
                expect = {f: sel(tab[(src_of[(j, f)], f)], k) for f in _req(n)}
                given = {}
                for f, (srcs, const) in n["outs"].items():
                    v = z3.BitVecVal(const, FW)
                    for s in srcs:
                        v = v + expect[s]
                    given[f] = v
            if n.get("rdy"):
                ob.append((f"{name(j)} runs only when its ready condition holds", z3.Implies(r, o.sig(f"rdy{j}") == 1)))
            if not n.get("nodep"):
                for i in range(j):
                    ob.append((f"{name(j)}: k-th execution only after the k-th execution of node {i}", z3.Implies(r, z3.ULT(k, cnt[i]))))
            for f in _req(n):
                ob.append((f"{name(j)}: field {f} of the k-th item as generated by node {src_of[(j, f)]}", z3.Implies(r, seen[f] == sel(tab[(src_of[(j, f)], f)], k))))
            ran.append(r)
            gen_val[j] = given
        cl = o.done("clear")
        # witnesses
        last = nn - 1
        wit["sink delivers a second item"] = z3.And(ran[last], cnt[last] == 1)
        wit["clear with items in flight"] = z3.And(cl, cnt[0] != cnt[last])
        wit["sink delivers an item that entered after a clear"] = z3.And(ran[last], cleared)
        wit["source and sink run in the same cycle"] = z3.And(ran[0], ran[last])
        wit["sink called but blocked"] = z3.And(o.en(f"node{last}"), z3.Not(ran[last]))
        # update
        tab2 = {}
        for (j, f), col in tab.items():
            tab2[(j, f)] = [z3.If(z3.And(ran[j], cnt[j] == i), gen_val[j][f], col[i]) for i in range(N)]
        cnt2 = [cnt[j] + b2i(ran[j], W) for j in range(nn)]
        mx = cnt2[0]
        for c in cnt2[1:]:
            mx = z3.If(z3.UGT(c, mx), c, mx)
        cnt3 = [z3.If(cl, mx, c) for c in cnt2]
        return ob, [], (cnt3, tab2, z3.Or(cleared, cl)), wit

    return step


def _init(cfg):
    nodes = cfg["shape"]["nodes"]
    N = cfg["K"] + 1

    def init(h):
        tab = {(j, f): [z3.BitVecVal(0, FW)] * N for j, n in enumerate(nodes) for f in _gen(n)}
        return [z3.BitVecVal(0, W)] * len(nodes), tab, z3.BoolVal(False)

    return init


def _describe(shape):
    parts = []
    for n in shape["nodes"]:
        s = n["t"]
        if n["t"] == "fn":
            s += "[" + ",".join(f"{k}=" + "+".join(v[0] + ([str(v[1])] if v[1] else [])) for k, v in n["outs"].items()) + "]"
        elif n["t"] == "call":
            s += f"[{','.join(n['ins'])}->{','.join(n['outs'])}]"
        elif n["t"] in ("ext", "sink"):
            s += f"[{','.join(_req(n))}->{','.join(_gen(n))}]"
        s += "".join(f"/{k}" for k in ("nodep", "rdy") if n.get(k))
        parts.append(("FIFO2>" if n.get("fifo") else "") + s)
    return " > ".join(parts)


def run(cfg, ctx):
    b = Built(lambda: make(cfg), trace_functions=(ctx.index == 0))
    ctx.functions = b.functions
    bmc(ctx, f"Pipeline {_describe(cfg['shape'])}", b, cfg["K"], _step(cfg), _init(cfg), cosim_k=12 if ctx.index < 3 else 0)


# ---------------------------------------------------------------- canaries
def _patch_elaborate(old, new):
    import inspect
    import textwrap
    import transactron.lib.pipeline as P

    if getattr(P.PipelineBuilder.elaborate, "_verif_mutant", False):
        return
    src = textwrap.dedent(inspect.getsource(P.PipelineBuilder.elaborate))
    assert old in src
    ns = {}
    exec(src.replace(old, new), P.__dict__, ns)
    ns["elaborate"]._verif_mutant = True
    P.PipelineBuilder.elaborate = ns["elaborate"]


def _canary_stale_field():
    # a regenerated field is forwarded from the incoming data instead of from the node's result
    _patch_elaborate("if k in in_layout.members.keys():", "if k in in_layout.members.keys() and k not in out_layout.members.keys():")


def _canary_clear_skips_forwarder():
    # clear forgets the forwarders (in-flight items survive)
    _patch_elaborate("clear_methods.append(fwd.clear)", "pass")


def _canary_nodep_not_cleared():
    _patch_elaborate("clear_methods.append(nodep.clear)", "pass")


CANARIES = [("overwritten field forwarded stale", _canary_stale_field),
            ("clear does not clear the forwarders", _canary_clear_skips_forwarder),
            ("clear does not clear the no_dependency pipe", _canary_nodep_not_cleared)]
