"""C31: hardware counters and histograms count exactly; disabled metrics produce no hardware.

The real `HwCounter`, `TaggedCounter` and `HwExpHistogram` (HwMetricsEnabledKey = True) are wrapped with one
AdapterTrans per way.  Per configuration two complete queries decide all call histories: (base) the reset values of
the metric registers, (step) a one-cycle relation from FREE register values (every register value is reachable, so a
counterexample is a real one and is replayed on amaranth.sim by forcing the registers): count' = count + number of
executed calls, per-tag counters, histogram count/sum/min/max/buckets, all modulo the register width.
Every documented kind of tag set (range, Enum, list of integers) is elaborated; an exception raised by the code under
test while elaborating such a configuration is confirmed by a second elaboration and reported as a violation.
Disabled mode: a transaction calls incr/add directly; the caller must run whenever enabled and the netlist must contain
no flip-flop, memory or read-port register and none of the metric's register signals.
"""
import itertools
import os
import traceback
import z3
from ..harness import Harness, Built
from ..seq import Unroll, cosim
from ..util import zx, b2i

PROP = "C31"
LEVEL = "proof"
TECHNIQUE = ("per configuration: reset values + one-step relation from free metric registers (complete for all call histories of that "
             "configuration), z3 QF_BV on the netlist of the real component; counterexamples replayed on amaranth.sim with forced registers")
BOUNDS = {
    "quick": "HwCounter ways 1..3, widths 1..3; TaggedCounter ways 1..3, 3-bit registers, tag sets range(0,4), range(1,3), range(2,3), range(1,9,7), "
             "[1,2,4], [1,4], [2,4], [-1,1], [0,5], [-2,3,7], amaranth Enum{2,4}, Enum{1,2,3}, Flag{1,2,4}, Flag{1,2} of shape 3, python IntEnum{1,2,4}; "
             "HwExpHistogram sample_width 3, registers 4, buckets 2..5 (and 1..3-bit samples with up to 5 buckets, one single-bucket histogram), ways 1..3; "
             "disabled mode (key false / key absent) for all three",
    "thorough": "HwCounter ways 1..4, widths 1..4; TaggedCounter ways 1..4 for every list of 1..4 distinct integers from [-2,8], every range(a,b,step) "
                "with -2<=a<b<=9, step 1..3, Enum/Flag/IntEnum over all one-hot subsets of {1,2,4,8}; HwExpHistogram sample_width 1..4, "
                "registers_width 2..5, buckets 1..sample_width+2, ways 1..3; disabled mode",
}
OUTSIDE = ["register/sample widths and numbers of ways above the enumerated ones", "tags outside the declared tag set passed to incr (unspecified)",
           "tag lists with duplicates", "HardwareMetricsManager bookkeeping"]
ASSUMES = ["single clock domain, reset held low", "callers are AdapterTrans transactions (one per way); in disabled mode one plain Transaction per way",
           "every executed TaggedCounter.incr passes a declared tag value",
           "readiness of incr/add in enabled mode is not an obligation (vacuity twin: all ways execute in the same cycle)"]
W = 8
T = z3.BoolVal(True)


# ---------------------------------------------------------------- configurations
def _tagsets_quick():
    return [dict(kind="range", args=[0, 4]), dict(kind="range", args=[1, 3]), dict(kind="range", args=[2, 3]), dict(kind="range", args=[1, 9, 7]),
            dict(kind="list", vals=[1, 2, 4]), dict(kind="list", vals=[1, 4]), dict(kind="list", vals=[2, 4]), dict(kind="list", vals=[-1, 1]),
            dict(kind="list", vals=[0, 5]), dict(kind="list", vals=[-2, 3, 7]),
            dict(kind="enum", base="Enum", vals=[2, 4], shape=3), dict(kind="enum", base="Enum", vals=[1, 2, 3], shape=2),
            dict(kind="enum", base="Flag", vals=[1, 2, 4], shape=3), dict(kind="enum", base="Flag", vals=[1, 2], shape=3),
            dict(kind="enum", base="pyIntEnum", vals=[1, 2, 4], shape=None)]


def configs(tier, seed):
    out = []
    if tier == "quick":
        for ways in (1, 2, 3):
            for w in (1, 3):
                out.append(dict(comp="counter", ways=ways, width=w))
        for i, ts in enumerate(_tagsets_quick()):
            for ways in (1, 2) if i % 3 else (1, 2, 3):
                out.append(dict(comp="tagged", tags=ts, ways=ways, width=3))
        for bc in (2, 3, 4, 5):
            for ways in (1, 2):
                out.append(dict(comp="hist", ways=ways, sw=3, rw=4, buckets=bc))
        out.append(dict(comp="hist", ways=3, sw=3, rw=4, buckets=4))
        out.append(dict(comp="hist", ways=2, sw=1, rw=2, buckets=3))
        out.append(dict(comp="hist", ways=2, sw=2, rw=3, buckets=5))
        out.append(dict(comp="hist", ways=2, sw=3, rw=2, buckets=3))
        out.append(dict(comp="hist", ways=1, sw=2, rw=3, buckets=1))  # a single bucket is [0, inf) (also by the generated register description)
    else:
        for ways in (1, 2, 3, 4):
            for w in (1, 2, 3, 4):
                out.append(dict(comp="counter", ways=ways, width=w))
        n = 0
        vals = list(range(-2, 9))
        for size in (1, 2, 3, 4):
            for sub in itertools.combinations(vals, size):
                n += 1
                out.append(dict(comp="tagged", tags=dict(kind="list", vals=list(sub)), ways=1 + n % 4 if size < 4 else 1 + n % 2, width=3))
        for a in range(-2, 9):
            for b in range(a + 1, 10):
                for step in (1, 2, 3):
                    if step > 1 and len(range(a, b, step)) < 2:
                        continue
                    n += 1
                    out.append(dict(comp="tagged", tags=dict(kind="range", args=[a, b, step]), ways=1 + n % 3, width=3))
        for size in (1, 2, 3, 4):
            for sub in itertools.combinations([1, 2, 4, 8], size):
                for base, shape in (("Enum", 4), ("Flag", 4), ("Flag", 5), ("pyIntEnum", None), ("pyIntFlag", None)):
                    n += 1
                    out.append(dict(comp="tagged", tags=dict(kind="enum", base=base, vals=list(sub), shape=shape), ways=1 + n % 3, width=3))
        for vals_ in ([1, 2, 3], [0, 1], [3, 5, 6], [-1, 1], [-2, -1, 0, 1]):
            sh = None
            out.append(dict(comp="tagged", tags=dict(kind="enum", base="pyIntEnum", vals=vals_, shape=sh), ways=2, width=3))
        for sw in (1, 2, 3, 4):
            for rw in (2, 3, 4, 5):
                for bc in range(1, sw + 3):
                    for ways in (1, 2, 3):
                        if ways == 3 and (sw + rw + bc) % 2:
                            continue
                        out.append(dict(comp="hist", ways=ways, sw=sw, rw=rw, buckets=bc))
    for comp in ("counter", "tagged", "hist"):
        for key in ("false", "absent"):
            for ways in (1, 2):
                out.append(dict(comp=comp, disabled=key, ways=ways, width=3, tags=dict(kind="list", vals=[1, 2, 4]), sw=3, rw=4, buckets=3))
    return out


def _mk_enum(base, vals, shape):
    import enum as py_enum
    from amaranth.lib import enum as am_enum

    bases = {"Enum": am_enum.Enum, "Flag": am_enum.Flag, "IntEnum": am_enum.IntEnum, "IntFlag": am_enum.IntFlag,
             "pyIntEnum": py_enum.IntEnum, "pyIntFlag": py_enum.IntFlag, "pyEnum": py_enum.Enum}
    ns = {"base": bases[base]}
    body = "\n".join(f"    M{i} = {v}" for i, v in enumerate(vals))
    kw = f", shape={shape}" if shape is not None else ""
    exec(f"class Tags(base{kw}):\n{body}\n", ns)
    return ns["Tags"]


def _tags(ts):
    if ts["kind"] == "range":
        return range(*ts["args"]), list(range(*ts["args"]))
    if ts["kind"] == "list":
        return list(ts["vals"]), list(ts["vals"])
    return _mk_enum(ts["base"], ts["vals"], ts["shape"]), list(ts["vals"])


# ---------------------------------------------------------------- harnesses
def _dut(cfg):
    from transactron.lib.metrics import HwCounter, TaggedCounter, HwExpHistogram

    if cfg["comp"] == "counter":
        d = HwCounter("a.counter", "", width_bits=cfg["width"], ways=cfg["ways"])
        return d, list(d.incr), {"count": d.count.value}
    if cfg["comp"] == "tagged":
        tags, vals = _tags(cfg["tags"])
        d = TaggedCounter("a.tagged", "", tags=tags, registers_width=cfg["width"], ways=cfg["ways"])
        return d, list(d.incr), {f"tag{v}": d.counters[v].value for v in vals}
    d = HwExpHistogram("a.hist", "", bucket_count=cfg["buckets"], sample_width=cfg["sw"], registers_width=cfg["rw"], ways=cfg["ways"])
    regs = {"count": d.count.value, "sum": d.sum.value, "min": d.min.value, "max": d.max.value}
    regs.update({f"bucket{i}": r.value for i, r in enumerate(d.buckets)})
    return d, list(d.add), regs


def make(cfg):
    d, meths, regs = _dut(cfg)
    return Harness(d, {f"m{k}": meth for k, meth in enumerate(meths)}, observe=lambda d: regs)


def make_disabled(cfg):
    """A plain transaction per way calls the (dummy) method directly, as user code does."""
    from amaranth import Elaboratable, Signal
    from transactron import TModule, Transaction

    d, meths, regs = _dut(cfg)
    comp = cfg["comp"]

    class Caller(Elaboratable):
        def __init__(self):
            self.en = [Signal(name=f"en{k}") for k in range(len(meths))]
            self.arg = [Signal(3, name=f"arg{k}") for k in range(len(meths))]
            self.ran = [Signal(name=f"ran{k}") for k in range(len(meths))]
            self.metric = d
            self.regs = regs

        def elaborate(self, platform):
            m = TModule()
            m.submodules.metric = d
            for k, meth in enumerate(meths):
                with Transaction(name=f"caller{k}").body(m, ready=self.en[k]):
                    if comp == "counter":
                        meth(m)
                    elif comp == "tagged":
                        meth(m, tag=self.arg[k])
                    else:
                        meth(m, sample=self.arg[k])
                    m.d.comb += self.ran[k].eq(1)
            return m

    c = Caller()
    ins = {f"en{k}": s for k, s in enumerate(c.en)}
    ins.update({f"arg{k}": s for k, s in enumerate(c.arg)})
    return Harness(c, inputs=ins, observe=lambda c: {f"ran{k}": s for k, s in enumerate(c.ran)})


def _state_keys(built):
    """State elements of the design without the framework's `_keep_sync` flip-flop (lives in the harness top, outside the dut)."""
    rk = built.state_keys_for_replay()
    return [k for k in built.ts.state_keys() if not any(e[0] == "sig" and e[1] == "@top/main_module:_keep_sync" for e in rk.get(k) or [])]


def _blame(exc):
    """Which code raised: 'repo' (code under test), 'harness' (ours) or 'other'."""
    import transactron

    root = os.path.dirname(os.path.abspath(transactron.__file__))
    here = os.path.dirname(os.path.dirname(os.path.abspath(__file__)))
    for fr in reversed(traceback.extract_tb(exc.__traceback__)):
        fn = os.path.abspath(fr.filename)
        if fn.startswith(root + os.sep):
            return "repo", f"{os.path.relpath(fn, os.path.dirname(root))}:{fr.lineno} in {fr.name}: {fr.line}"
        if fn.startswith(here + os.sep):
            return "harness", ""
    return "other", ""


def _build(cfg, ctx, mk, deps):
    """Elaborate; an exception thrown by the code under test inside the documented domain is a violation (after a second try)."""
    from ..harness import HarnessError
    from ..nir2smt import Unsupported

    try:
        return Built(lambda: mk(cfg), deps=deps, trace_functions=(ctx.index == 0))
    except (HarnessError, Unsupported):
        raise
    except Exception as e:  # noqa
        who, where = _blame(e)
        if who != "repo":
            raise
        first = f"{type(e).__name__}: {e}"
        try:
            Built(lambda: mk(cfg), deps=deps)
        except Exception as e2:  # noqa
            if f"{type(e2).__name__}: {e2}" == first and _blame(e2)[0] == "repo":
                what = {"counter": "HwCounter", "tagged": "TaggedCounter", "hist": "HwExpHistogram"}[cfg["comp"]]
                ctx.violation(f"{what} cannot be elaborated for a documented configuration",
                              f"{first} at {where}", "exception reproduced by a second, fresh elaboration of the real component")
                return None
        raise


# ---------------------------------------------------------------- reference relations
def _tag_const(v, w):
    return z3.BitVecVal(v & ((1 << w) - 1), w)


def _relations(cfg, o, o2):
    """(assumptions, obligations [(label, bool)], witnesses {label: bool}) of one step o -> o2."""
    ways = cfg["ways"]
    ran = [o.done(f"m{k}") for k in range(ways)]
    wit = {"all ways execute in the same cycle": z3.And(*ran), "no call executes": z3.Not(z3.Or(*ran))}
    asm, ob = [], []
    comp = cfg["comp"]
    if comp == "counter":
        w = cfg["width"]
        ww = max(W, w)
        n = sum((b2i(r, ww) for r in ran), z3.BitVecVal(0, ww))
        ob.append(("count' = count + number of executed incr calls (mod 2^width)", o2.sig("count") == z3.Extract(w - 1, 0, zx(o.sig("count"), ww) + n)))
        wit["counter wraps around"] = z3.And(o.sig("count") == (1 << w) - 1, ran[0])
    elif comp == "tagged":
        w = cfg["width"]
        ww = max(W, w)
        _, vals = _tags(cfg["tags"])
        tags = []
        for k in range(ways):
            whole = o.sig(f"m{k}.in") if f"m{k}.in" in o.b.names else None
            tags.append(whole)
            if whole is not None:
                asm.append(z3.Implies(o.en(f"m{k}"), z3.Or(*[whole == _tag_const(v, whole.size()) for v in vals])))
        for v in vals:
            hits = [z3.And(ran[k], (tags[k] == _tag_const(v, tags[k].size())) if tags[k] is not None else T) for k in range(ways)]
            n = sum((b2i(h, ww) for h in hits), z3.BitVecVal(0, ww))
            ob.append((f"counter[{v}]' = counter[{v}] + number of executed calls with tag {v}", o2.sig(f"tag{v}") == z3.Extract(w - 1, 0, zx(o.sig(f"tag{v}"), ww) + n)))
            wit[f"tag {v} counted by every way at once"] = z3.And(*hits)
        if len(vals) > 1 and ways > 1:
            wit["two different tags in the same cycle"] = z3.And(ran[0], ran[1], tags[0] != tags[1])
    else:
        sw, rw, bc = cfg["sw"], cfg["rw"], cfg["buckets"]
        ww = max(W, sw + 2, rw + 2)
        smp = [o.arg(f"m{k}", "sample") for k in range(ways)]
        cnt, sm, mn, mx = zx(o.sig("count"), ww), zx(o.sig("sum"), ww), o.sig("min"), o.sig("max")
        bk = [zx(o.sig(f"bucket{i}"), ww) for i in range(bc)]
        for k in range(ways):
            r, s = ran[k], smp[k]
            S = zx(s, ww)
            cnt = cnt + b2i(r, ww)
            sm = sm + z3.If(r, S, z3.BitVecVal(0, ww))
            mn = z3.If(z3.And(r, z3.ULT(s, mn)), s, mn)
            mx = z3.If(z3.And(r, z3.UGT(s, mx)), s, mx)
            for i in range(bc):
                lo = 0 if i == 0 else 2 ** (i - 1)
                inb = z3.UGE(S, lo)
                if i != bc - 1:
                    inb = z3.And(inb, z3.ULT(S, 2 ** i))
                bk[i] = bk[i] + b2i(z3.And(r, inb), ww)
        lowbits = lambda x: z3.Extract(rw - 1, 0, x)
        ob += [("count' = count + number of executed add calls", o2.sig("count") == lowbits(cnt)),
               ("sum' = sum + sum of the added samples (mod 2^registers_width)", o2.sig("sum") == lowbits(sm)),
               ("min' = minimum of min and the added samples", o2.sig("min") == mn),
               ("max' = maximum of max and the added samples", o2.sig("max") == mx)]
        for i in range(bc):
            lo = 0 if i == 0 else 2 ** (i - 1)
            hi = "inf" if i == bc - 1 else 2 ** i
            ob.append((f"bucket [{lo}, {hi})' = bucket + number of added samples in the range", o2.sig(f"bucket{i}") == lowbits(bk[i])))
            if lo < (1 << sw):
                wit[f"a sample falls into bucket [{lo}, {hi})"] = z3.And(ran[0], z3.UGE(zx(smp[0], ww), lo), T if hi == "inf" else z3.ULT(zx(smp[0], ww), hi))
        wit["new minimum"] = z3.And(ran[0], z3.ULT(smp[0], o.sig("min")))
        wit["new maximum"] = z3.And(ran[0], z3.UGT(smp[0], o.sig("max")))
        if ways > 1:
            wit["two different samples in one cycle"] = z3.And(ran[0], ran[1], smp[0] != smp[1])
    return asm, ob, wit


def _reset_values(cfg, o):
    comp = cfg["comp"]
    if comp == "counter":
        return [("count is 0 after reset", o.sig("count") == 0)]
    if comp == "tagged":
        return [(f"counter[{v}] is 0 after reset", o.sig(f"tag{v}") == 0) for v in _tags(cfg["tags"])[1]]
    sw = cfg["sw"]
    ob = [("count is 0 after reset", o.sig("count") == 0), ("sum is 0 after reset", o.sig("sum") == 0), ("max is 0 after reset", o.sig("max") == 0),
          ("min is the largest sample value after reset", o.sig("min") == (1 << sw) - 1)]
    return ob + [(f"bucket {i} is 0 after reset", o.sig(f"bucket{i}") == 0) for i in range(cfg["buckets"])]


def _describe(cfg):
    if cfg["comp"] == "counter":
        return f"HwCounter ways={cfg['ways']} width={cfg['width']}"
    if cfg["comp"] == "tagged":
        ts = cfg["tags"]
        t = f"range{tuple(ts['args'])}" if ts["kind"] == "range" else (str(ts["vals"]) if ts["kind"] == "list" else f"{ts['base']}{{{','.join(map(str, ts['vals']))}}}/shape={ts['shape']}")
        return f"TaggedCounter tags={t} ways={cfg['ways']}"
    return f"HwExpHistogram ways={cfg['ways']} sample_width={cfg['sw']} registers_width={cfg['rw']} buckets={cfg['buckets']}"


# ---------------------------------------------------------------- run
def run(cfg, ctx):
    from transactron.lib.metrics import HwMetricsEnabledKey

    name = _describe(cfg)
    if cfg.get("disabled"):
        return _run_disabled(cfg, ctx, name)
    b = _build(cfg, ctx, make, [(HwMetricsEnabledKey(), True)])
    if b is None:
        return
    ctx.functions = b.functions
    regs = [n for n in b.names if "." not in n]
    # every metric register must be a flip-flop of the netlist and nothing else may hold state (the relation is then complete)
    ffmap = b.ts.ff_signal_map()
    ffsigs = {id(s) for lst in ffmap.values() for s, _ in lst}
    if any(id(b.names[r]) not in ffsigs for r in regs) or len(_state_keys(b)) != len(regs):
        from ..harness import HarnessError
        raise HarnessError(f"state elements {len(_state_keys(b))} do not correspond to the {len(regs)} metric registers")
    # base: reset values
    u0 = Unroll(b)
    o0 = u0.cycle()
    ctx.frames += 1
    for lab, c in _reset_values(cfg, o0):
        ctx.prove(f"{name}: {lab}", [], c, u0)
    # step from free registers
    u = Unroll(b, free_init=True)
    o = u.cycle()
    u.advance()
    o2 = u.cycle()
    ctx.frames += 2
    ctx.steps += 1
    asm, ob, wit = _relations(cfg, o, o2)
    for lab, c in wit.items():
        ctx.witness(f"{name}: reach '{lab}'", asm + [c])
    for lab, c in ob:
        ctx.prove(f"{name}: {lab} (one step from any register values)", asm, c, u)
    if ctx.index < 4 or ctx.index % 97 == 0:
        pts, mism = cosim(b, 10, ctx.seed)
        ctx.cosim_points += pts
        ctx.cosim_traces += 1
        if mism:
            ctx.errors.append(f"cosim mismatch encoder vs pysim in cfg {cfg}: {mism[:4]}")


def _run_disabled(cfg, ctx, name):
    from transactron.lib.metrics import HwMetricsEnabledKey

    deps = [(HwMetricsEnabledKey(), False)] if cfg["disabled"] == "false" else []
    name = f"{name} with metrics disabled (key {cfg['disabled']})"
    b = _build(cfg, ctx, make_disabled, deps)
    if b is None:
        return
    ctx.functions = b.functions
    u = Unroll(b)
    o = u.cycle()
    ctx.frames += 1
    ways = cfg["ways"]
    ctx.witness(f"{name}: all callers enabled", [o.sig(f"en{k}") == 1 for k in range(ways)])
    for k in range(ways):
        ctx.prove(f"{name}: caller {k} runs exactly when enabled (call accepted)", [], o.sig(f"ran{k}") == o.sig(f"en{k}"), u)

    def hardware(built):
        bad = []
        if _state_keys(built):
            bad.append(f"{len(_state_keys(built))} state elements (flip-flops / memory rows) in the netlist")
        for rn, sig in built.h.dut.regs.items():
            val = built.nl.signals.get(sig)
            if val is not None and any(not n.is_const for n in val):
                bad.append(f"metric register {rn} is driven in the netlist")
        dm = built.h.dut.metric
        for frag, info in built.design.fragments.items():
            if len(info.name) and info.name[-1] == "metric" and (getattr(frag, "statements", None) and any(frag.statements.values())):
                bad.append("the metric's fragment contains statements")
        return bad

    bad = hardware(b)
    ctx._record(f"{name}: netlist contains no state element and no metric register", "obligation", "sat" if bad else "unsat", 0.0)
    if bad:
        again = hardware(Built(lambda: make_disabled(cfg), deps=deps))
        if again:
            ctx.violation(f"{name}: disabled metric produces hardware", "; ".join(again), "reproduced by a second, fresh elaboration")


def classify(v):
    d = str(v.get("detail", ""))
    if "cannot be elaborated" in v.get("name", "") and "IndexError" in d and "TaggedCounter" in v.get("name", ""):
        return "TaggedCounter one-hot tag set: IndexError in elaborate"
    if "cannot be elaborated" in v.get("name", ""):
        return "elaboration exception"
    if "buckets=1:" in v.get("name", "") and "bucket [0, inf)" in v.get("name", ""):
        return "HwExpHistogram with a single bucket counts only zero samples"
    if "disabled" in v.get("name", ""):
        return "disabled metric"
    return "wrong count"


# ---------------------------------------------------------------- canaries
def _patch_elaborate(cls, old, new):
    import inspect
    import textwrap
    import transactron.lib.metrics as M

    if getattr(cls.elaborate, "_verif_mutant", False):  # workers are reused: patch once per process
        return
    src = textwrap.dedent(inspect.getsource(cls.elaborate))
    assert old in src
    ns = {}
    exec(src.replace(old, new), M.__dict__, ns)
    ns["elaborate"]._verif_mutant = True
    cls.elaborate = ns["elaborate"]


def _canary_counter_or():
    # HwCounter adds 1 when any way runs instead of the number of running ways
    from transactron.lib.metrics import HwCounter
    _patch_elaborate(HwCounter, "popcount(Cat(method.run for method in self.incr))", "Cat(method.run for method in self.incr).any()")


def _canary_hist_last_bucket():
    # last bucket boundary off by one
    from transactron.lib.metrics import HwExpHistogram
    _patch_elaborate(HwExpHistogram, "(bucket_idx >= i - 1) & (sample != 0)", "(bucket_idx >= i) & (sample != 0)")


def _canary_tagged_nononehot():
    # non-one-hot branch compares with >= instead of ==
    from transactron.lib.metrics import TaggedCounter
    _patch_elaborate(TaggedCounter, "with m.If(Value.cast(tag) == tag_value):", "with m.If(Value.cast(tag).as_unsigned() >= (tag_value & ((1 << len(Value.cast(tag))) - 1))):")


def _canary_disabled_keeps_hw():
    # disabled HwCounter still synthesizes its register
    from transactron.lib.metrics import HwCounter
    _patch_elaborate(HwCounter, "    if not self.metrics_enabled():\n        return TModule()\n",
                     "    if not self.metrics_enabled():\n        m = TModule()\n        m.d.sync += self.count.value.eq(self.count.value + 1)\n        return m\n")


CANARIES = [("HwCounter counts cycles with a call instead of calls", _canary_counter_or),
            ("HwExpHistogram last bucket boundary off by one", _canary_hist_last_bucket),
            ("disabled HwCounter keeps its register", _canary_disabled_keeps_hw)]
