"""C27: CircularAllocator hands out identifiers in ring order.

The real allocator is wrapped with one AdapterTrans per method (alloc, free, clear).  The reference model is the ring
(start, allocated) with end = (start + allocated) mod entries, written from the docstrings: alloc(count) returns
end, end+1, ... (mod entries) in its first `count` slots and `new_end_idx` = end + count, free(count) returns start,
start+1, ... in its first `count` slots and `new_start_idx` = start + count, `allocated` changes by +count / -count, clear
resets everything.  alloc runs iff enabled, not full and (with argument validation) allocated + count <= entries; free
runs iff enabled, not empty and (with validation) count <= allocated; without validation the documented precondition on
`count` is assumed instead.  The visible registers start_idx / end_idx / allocated are compared with the model every
cycle.  BMC from reset decides every call history up to K cycles; a one-step induction from any register state with
allocated <= entries, start < entries, end = start + allocated (mod entries) extends it to unbounded histories per
configuration (its counterexamples would be CTIs and are never reported).
"""
import time
import z3
from ..harness import Harness, Built
from ..seq import bmc, Unroll
from ..util import zx

PROP = "C27"
LEVEL = "model_checking"
ENGINES = ["E1 nir2smt", "E3 BMC + one-step induction"]
TECHNIQUE = "BMC from reset against a z3 ring model + one-step induction under the invariant end = start + allocated (mod entries); counterexamples replayed on amaranth.sim"
BOUNDS = {
    "quick": "(entries, max_alloc, max_free) in {(1,1,1),(2,1,2),(3,1,1),(3,2,2),(4,2,2),(5,2,3),(6,3,2)} with and without argument validation, "
             "BMC entries+4 cycles from reset (at most 9), all subsets of simultaneous alloc/free/clear, all counts; one-step induction for the same "
             "shapes and (7,3,3), (8,4,4), (9,2,4)",
    "thorough": "entries 1..9, max_alloc / max_free 1..4 (<= entries), with and without validation: one-step induction for all, BMC 8..12 cycles "
                "for entries <= 7 and max_alloc, max_free <= 3",
}
OUTSIDE = ["count arguments above max_alloc / max_free (outside the declared range of the argument)",
           "without validation: calls with count above the free / allocated number (documented precondition, may reach an illegal state)",
           "histories longer than the BMC bound where the inductive step is not run", "shapes above the enumerated range",
           "contents of the idents slots at positions >= count"]
ASSUMES = ["single clock domain, reset held low", "callers are AdapterTrans transactions (one per method)",
           "alloc.count <= max_alloc and free.count <= max_free",
           "with_validate_arguments=False: an enabled alloc passes count <= entries - allocated, an enabled free passes count <= allocated",
           "clear in the same cycle as alloc / free wins (next state is the initial state)"]
W = 8


def make(cfg):
    from transactron.lib import CircularAllocator

    d = CircularAllocator(cfg["entries"], cfg["ma"], cfg["mf"], with_validate_arguments=cfg["validate"])
    return Harness(d, dict(alloc=d.alloc, free=d.free, clear=d.clear),
                   observe=lambda d: dict(start_idx=d.start_idx, end_idx=d.end_idx, allocated=d.allocated))


def configs(tier, seed):
    out = []
    if tier == "quick":
        shapes = [(1, 1, 1), (2, 1, 2), (3, 1, 1), (3, 2, 2), (4, 2, 2), (5, 2, 3), (6, 3, 2)]
        for n, ma, mf in shapes:
            for val in (True, False):
                out.append(dict(entries=n, ma=ma, mf=mf, validate=val, mode="bmc", K=min(n + 4, 9)))
        for n, ma, mf in shapes + [(7, 3, 3), (8, 4, 4), (9, 2, 4)]:
            for val in (True, False):
                out.append(dict(entries=n, ma=ma, mf=mf, validate=val, mode="ind"))
    else:
        for n in range(1, 10):
            for ma in range(1, 5):
                for mf in range(1, 5):
                    if ma > n or mf > n:
                        continue
                    for val in (True, False):
                        out.append(dict(entries=n, ma=ma, mf=mf, validate=val, mode="ind"))
                        if n <= 7 and ma <= 3 and mf <= 3:
                            out.append(dict(entries=n, ma=ma, mf=mf, validate=val, mode="bmc", K=12 if n <= 3 else (10 if n <= 5 else 8)))
    return out


def _slots(whole, k, iw):
    if iw == 0:
        return [z3.BitVecVal(0, W)] * k
    return [zx(z3.Extract((i + 1) * iw - 1, i * iw, whole), W) for i in range(k)]


def _step(cfg):
    n, ma, mf, val = cfg["entries"], cfg["ma"], cfg["mf"], cfg["validate"]
    iw = (n - 1).bit_length()
    K = lambda k: z3.BitVecVal(k, W)
    N = K(n)
    mod = lambda x: z3.URem(x, N)

    def step(model, o, t):
        start, cnt = model
        end = mod(start + cnt)
        ac, fc = zx(o.arg("alloc", "count"), W), zx(o.arg("free", "count"), W)
        asm = [z3.ULE(ac, ma), z3.ULE(fc, mf)]
        fits, has = z3.ULE(cnt + ac, n), z3.ULE(fc, cnt)
        if not val:
            asm += [z3.Implies(o.en("alloc"), fits), z3.Implies(o.en("free"), has)]
        al, fr, cl = o.done("alloc"), o.done("free"), o.done("clear")
        ob = [
            ("alloc runs iff enabled, not full and the count fits", al == z3.And(o.en("alloc"), cnt != n, fits)),
            ("free runs iff enabled, not empty and count <= allocated", fr == z3.And(o.en("free"), cnt != 0, has)),
            ("clear always accepted", cl == o.en("clear")),
            ("allocated register equals the model count", zx(o.sig("allocated"), W) == cnt),
        ]
        if val:
            ob.append(("with validation a call that would overflow / underflow is never accepted",
                       z3.And(z3.Implies(al, z3.ULE(cnt + ac, n)), z3.Implies(fr, z3.ULE(fc, cnt)))))
        if iw:
            ob += [("start_idx register is the oldest allocated identifier (model start)", zx(o.sig("start_idx"), W) == start),
                   ("end_idx register is the first identifier after the newest allocated one", zx(o.sig("end_idx"), W) == end),
                   ("alloc.new_end_idx = end + count (mod entries)", z3.Implies(al, zx(o.out("alloc", "new_end_idx"), W) == mod(end + ac))),
                   ("free.new_start_idx = start + count (mod entries)", z3.Implies(fr, zx(o.out("free", "new_start_idx"), W) == mod(start + fc)))]
            aids = _slots(o.out("alloc", "idents"), ma, iw)
            fids = _slots(o.out("free", "idents"), mf, iw)
            for i in range(ma):
                ob.append((f"alloc.idents[{i}] = end + {i} (mod entries) when count > {i}", z3.Implies(z3.And(al, z3.UGT(ac, i)), aids[i] == mod(end + i))))
            for i in range(mf):
                ob.append((f"free.idents[{i}] = start + {i} (mod entries) when count > {i}", z3.Implies(z3.And(fr, z3.UGT(fc, i)), fids[i] == mod(start + i))))
        a = z3.If(al, ac, K(0))
        f = z3.If(fr, fc, K(0))
        s2 = z3.If(cl, K(0), mod(start + f))
        c2 = z3.If(cl, K(0), cnt + a - f)
        wit = {"full": cnt == n, "alloc and free in the same cycle": z3.And(al, fr) if n > 1 else al,
               "alloc of max_alloc identifiers": z3.And(al, ac == ma), "free of max_free identifiers": z3.And(fr, fc == mf),
               "clear while allocated": z3.And(cl, cnt != 0)}
        if n > 1:
            wit["allocation reaches / wraps around the end of the ring"] = z3.And(al, ac != 0, z3.UGE(end + ac, n), start != 0)
        if val and (ma > 1 or mf > 1):
            wit["a call rejected by argument validation"] = z3.Or(z3.And(o.en("alloc"), cnt != n, z3.Not(fits)), z3.And(o.en("free"), cnt != 0, z3.Not(has)))
        return ob, asm, (s2, c2), wit

    return step


def run(cfg, ctx):
    b = Built(lambda: make(cfg), trace_functions=(ctx.index == 0))
    ctx.functions = b.functions
    n = cfg["entries"]
    iw = (n - 1).bit_length()
    step = _step(cfg)
    K = lambda k: z3.BitVecVal(k, W)
    name = f"CircularAllocator({n}, {cfg['ma']}, {cfg['mf']}, validate={cfg['validate']})"
    if cfg["mode"] == "bmc":
        bmc(ctx, f"{name} vs ring model", b, cfg["K"], step, lambda h: (K(0), K(0)), cosim_k=12 if ctx.index < 4 else 0)
        return
    N = K(n)

    def regs(o):
        st = zx(o.sig("start_idx"), W) if iw else K(0)
        en = zx(o.sig("end_idx"), W) if iw else K(0)
        return st, en, zx(o.sig("allocated"), W)

    inv = lambda st, en, al: z3.And(z3.ULE(al, n), z3.ULT(st, n), z3.ULT(en, n), en == z3.URem(st + al, N))
    u = Unroll(b, free_init=True)
    o = u.cycle()
    st, en, al = regs(o)
    pre = [inv(st, en, al)]
    ob, asm, (s2, c2), _ = step((st, al), o, 0)
    u.advance()
    o2 = u.cycle()
    st2, en2, al2 = regs(o2)
    post = inv(st2, en2, al2)
    refine = z3.And(st2 == s2, al2 == c2)
    ctx.frames += 2
    ctx.steps += 1
    ctx.witness("IND: invariant satisfiable with a full ring that starts in the middle", pre + [al == n] + ([st != 0] if n > 1 else []))
    u0 = Unroll(b)
    o0 = u0.cycle()
    ctx.prove("IND base: reset state satisfies the invariant", [], inv(*regs(o0)), u0)
    for nm, goal in [("step obligations", z3.And(*[c for _, c in ob])), ("invariant preserved", post), ("refinement of the ring model", refine)]:
        s = z3.SolverFor("QF_BV")
        s.set("timeout", 120000)
        s.add(*pre, *asm, z3.Not(goal))
        t = time.time()
        r = str(s.check())
        dt = time.time() - t
        ctx.solver_time += dt
        if r == "sat":
            # a CTI may start in an unreachable state: recorded, never reported (the BMC verdict stands)
            ctx.notes["ind_cti"] = ctx.notes.get("ind_cti", 0) + 1
            ctx._record(f"IND {nm} (CTI found; inductive argument not closed, BMC verdict stands)", "induction", "cti", dt)
        else:
            ctx._record(f"IND {nm} from any state satisfying the invariant", "obligation", r, dt)


def _patch_source(owner, name, old, new):
    """re-compile method `name` of class `owner` with one token changed (idempotent: workers may apply a canary repeatedly)."""
    import inspect
    import sys
    import textwrap

    fn = getattr(owner, name)
    if getattr(fn, "_vf_mutant", False):
        return
    src = textwrap.dedent(inspect.getsource(fn))
    assert old in src, f"canary pattern not found in {owner.__name__}.{name}"
    ns = {}
    exec(src.replace(old, new, 1), sys.modules[owner.__module__].__dict__, ns)
    ns[name]._vf_mutant = True
    setattr(owner, name, ns[name])


def _canary_mod_add_wrap():
    # mod_add wrap table off by one (non power-of-two entries)
    import transactron.utils.amaranth_ext.functions as F
    import transactron.lib.allocators as A
    from amaranth import Value
    from amaranth.hdl._ast import SwitchValue

    def mod_add(sig, mod, incr, max_incr):
        sig = Value.cast(sig)
        incr = Value.cast(incr)
        if not (mod & (mod - 1)):
            return (sig + incr) & (mod - 1)
        return SwitchValue(sig + incr, [(mod + i + 1, i) for i in range(0, max_incr)] + [(None, sig + incr)])

    F.mod_add = mod_add
    A.mod_add = mod_add


def _canary_validate_off_by_one():
    from transactron.lib.allocators import CircularAllocator
    _patch_source(CircularAllocator, "elaborate", "lambda count: self.allocated + count <= self.entries", "lambda count: self.allocated + count <= self.entries + 1")


def _canary_free_returns_end():
    from transactron.lib.allocators import CircularAllocator
    _patch_source(CircularAllocator, "elaborate", '"idents": [mod_add(self.start_idx, self.entries, i, i) for i in range(self.max_free)]',
                  '"idents": [mod_add(self.end_idx, self.entries, i, i) for i in range(self.max_free)]')


CANARIES = [("mod_add wrap table off by one (non power-of-two entries)", _canary_mod_add_wrap),
            ("alloc argument validation admits one identifier too many", _canary_validate_off_by_one),
            ("free returns identifiers from the end pointer", _canary_free_returns_end)]


def _callers_items():
    from transactron.lib import CircularAllocator

    return [("CircularAllocator(3, 2, 2)", lambda: CircularAllocator(3, 2, 2), [("alloc", ["alloc"]), ("free", ["free"])], [("clear", ["clear"])])]


from ..excl import install as _install  # noqa: E402
_install(globals(), _callers_items())
