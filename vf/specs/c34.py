"""C34: hardware logs and assertions fire exactly when triggered.

Three groups of configurations, one per obligation of DESIGN.md §3 C34:

(a) `trig` (netlist engine, all input valuations): small TModule designs call `HardwareLogger.debug / info / warning / error / log /
    assertion`, their `top_` variants and the module-level `assertion` / `top_assertion` with a free multi-bit trigger (value) at top
    level, inside a transaction body, a method body and the body of the calling transaction, under If / Else / Elif / Case /
    Default nests.  The harness adds one observer signal per registered `LogRecord.trigger` / field Value (exactly the Values the
    simulation process samples) and per `get_trigger_bit(level, regexp)` query.  Proved on the netlist: trigger == (trigger != 0) &
    enclosing conditions & `run` of the enclosing body (top_ variants: the trigger alone; assertions: value == 0 instead), every
    field Value carries its argument, `get_trigger_bit` == OR of the triggers of exactly the records with level >= the threshold
    whose logger name matches.  Concretely checked: level and logger name of every record, registration order, `get_log_records`
    selection, and `format_spec` / `fields` against Python's own parse of the format string (`string.Formatter().parse`).
(b) `process` (symbolic execution, E4 pysym): the REAL coroutine of `make_logging_process(level, regexp, on_error)` on the records
    of such an elaborated design is driven by a stub simulator (K <= 3 cycles of proxies, the combined trigger being the OR of
    the sampled triggers as proved in (a)), with a recording logger and a recording or raising `on_error`.  Proved per path:
    the logger received exactly one record per (cycle, selected record) with non-zero trigger, in cycle-then-record order, under
    the record's logger name and level, with the record's location and the message built from ITS OWN field values of that
    cycle in format order, while `_sim_cycle` held the tick value of that cycle; `on_error` was called right after exactly the
    logged records of level >= ERROR; a raising `on_error` ends the process at the first such record with that exception.
(c) `format` (pysym): `LogRecordInfo.format` on symbolic arguments with the built-in `format` replaced by an injective recorder:
    chunks appear in order, the k-th format chunk consumes the k-th argument with its specifier; for `...s` specifiers the value
    passed on is the decoding of the non-zero bytes of the argument, least significant byte first (`bytearray` is a recorder too),
    with the specifier minus the trailing `s`.

Every solver model of a Python-level obligation is re-executed on the real functions with plain ints before it is reported; random
concrete inputs go through the explored paths and the real code (proxy validation); concrete samples additionally compare
`LogRecordInfo.format` using the REAL built-in format with `str.format` of the original format string (sampled, not a proof).
"""
import contextlib
import importlib
import logging as pylogging
import random
import re
import string
import z3
from amaranth import Signal, Value, signed

from ..harness import Built
from ..seq import Unroll, cosim
from ..util import zx
from ..pysym import SInt, SBool, Unsupported
from .c33 import (CtxDesign, CTXS, BODIES, site_active, expected_order, lift, nonzero, subseq_goal, drive, StubTick, StubSim, Values,
                  prove_py, note, model_env, explore, coverage, dom_of, eval_paths, split_cfgs, split_mk, split_dom, split_fix, _patch_src, W)

PROP = "C34"
LEVEL = "model_checking"
ENGINES = ["E1 nir2smt", "E4 pysym"]
TECHNIQUE = ("SMT (z3 QF_BV) over the Amaranth netlist of designs with hardware-log sites (all input valuations, counterexamples replayed on "
             "amaranth.sim); symbolic execution (pysym, exhaustive DFS over forks) of the real simulation logging coroutine and of LogRecordInfo.format "
             "on proxies for <= 3 cycles / <= 4 records; models re-executed concretely")
BOUNDS = {
    "quick": "trig: 26 designs of <= 4 log sites covering every API in {debug, info, warning, error, log, assertion, their top_ variants, module-level "
             "assertion / top_assertion} x body in {top level, transaction, method, calling transaction} x context in {none, If, Else, Elif, Case, Default, "
             "If>If, If>Case, Else>Default}, trigger width 1..3, <= 3 format arguments of width <= 8 (unsigned, signed, expression), 10 format-string shapes "
             "(auto / indexed / keyword fields, escapes, specifiers), 4 get_trigger_bit queries per design, all input valuations; process: (records, cycles) in "
             "{(1,3),(2,3),(3,2),(4,2),(2,2)} x level threshold / namespace filter x recording or raising on_error, all trigger / field / tick histories; "
             "format: 12 chunk lists of <= 5 chunks, arguments of <= 3 bytes for s-specifiers",
    "thorough": "trig: 110 designs; process: 16 configurations up to (4 records, 3 cycles); format: 30 chunk lists, s-arguments up to 4 bytes",
}
OUTSIDE = ["rendering of a single field by Python's built-in format() (stubbed by an injective recorder; only sampled with the real one), bytes.decode()",
           "colours / terminal output (_LogFormatter), the logging module's own filtering and handlers, parse_logging_level",
           "amaranth.sim's tick().sample() semantics (the stub returns one value per sampled Value and cycle)",
           "Amaranth's Format for ValueCastable arguments (structs, enum views, arrays), conversions (!r), nested replacement fields",
           "HDLLogWrapper / Print-based logging in generated HDL, GeneratedLog locations (transactron.utils.gen)",
           "the source location stored in a record (only passed through), custom levels above ERROR",
           "more than 4 records, 3 arguments, 3 cycles, contexts deeper than 2; negative values with an s-specifier (rejected by Amaranth's Format)",
           "what the test framework does with the exception raised by on_error (the process is only shown to let it propagate)"]
ASSUMES = ["'module context' of a log call inside a transaction / method body = the body's own `run` signal of that cycle & the enclosing m.If/m.Switch conditions",
           "process stub: sim.tick().sample(v...) yields per cycle (clk=True, rst=False, one value per sampled Value in order); the same Value object sampled twice "
           "gets the same value; values range over the full range of the Value's shape (ticks: 64-bit unsigned); the value of the combined trigger (the object "
           "returned by get_trigger_bit inside make_logging_process) is 1 iff some selected record's sampled trigger is non-zero -- an obligation of group (a)",
           "logging stub: module global `logging` of transactron.testing.logging replaced by an object with ERROR and getLogger() -> recorder (getChild(name).log(...))",
           "format stub: module global `format` of transactron.utils.logging replaced by an injective recorder returning a unique token per call; `bytearray` "
           "replaced by a recorder whose decode() returns an opaque object standing for the decoded string",
           "on_error is either a recorder or raises a private exception; coroutines are driven with send(None)",
           "'as Python's format would': the chunk sequence is compared with string.Formatter().parse of the format string; each field is rendered by format(value, spec)",
           "s-specifier: the argument is read as a little-endian byte string with zero bytes dropped (as test_log expects); arguments are non-negative"]
TRUSTED = ["Amaranth 0.5 elaboration, NIR netlist construction and Format parsing", "vf/nir2smt.py translator (counterexamples replayed on amaranth.sim)",
           "vf/pysym.py proxies (cross-checked against concrete runs of the same functions in every configuration)", "string.Formatter.parse, re.search of CPython", "z3 5.1.0"]
FUNCTIONS = ["transactron/utils/logging.py:HardwareLogger.log", "transactron/utils/logging.py:HardwareLogger.top_log", "transactron/utils/logging.py:HardwareLogger.debug",
             "transactron/utils/logging.py:HardwareLogger.info", "transactron/utils/logging.py:HardwareLogger.warning", "transactron/utils/logging.py:HardwareLogger.error",
             "transactron/utils/logging.py:HardwareLogger.assertion", "transactron/utils/logging.py:HardwareLogger.top_assertion", "transactron/utils/logging.py:assertion",
             "transactron/utils/logging.py:top_assertion", "transactron/utils/logging.py:get_log_records", "transactron/utils/logging.py:get_trigger_bit",
             "transactron/utils/logging.py:LogRecordInfo.format", "transactron/testing/logging.py:make_logging_process", "transactron/testing/logging.py:handle_logs",
             "transactron/testing/logging.py:log_process"]
LEVELS = {"debug": pylogging.DEBUG, "info": pylogging.INFO, "warning": pylogging.WARNING, "error": pylogging.ERROR, "assertion": pylogging.ERROR}
APIS = ["debug", "info", "warning", "error", "log", "assertion", "top_debug", "top_info", "top_warning", "top_error", "top_log", "top_assertion",
        "fn_assertion", "fn_top_assertion"]
NAMES = ["a.x", "a.y", "b", "ba.z"]
QUERIES = [[0, ".*"], [pylogging.WARNING, ".*"], [pylogging.ERROR, "^a\\."], [pylogging.INFO, "b"]]
# format shapes: chunks ["lit", text] | ["arg", ref, spec] with ref = "auto" | int index | keyword name
FORMATS = [
    [],
    [["lit", "plain text"]],
    [["arg", "auto", ""]],
    [["lit", "v="], ["arg", "auto", "x"], ["lit", " w="], ["arg", "auto", "03d"]],
    [["arg", 1, ""], ["arg", 0, "02x"], ["lit", " {lit} "], ["arg", "n", ">4"]],
    [["arg", "auto", ""], ["arg", "auto", ""], ["arg", "auto", "b"]],
    [["lit", "{"], ["arg", "k", "#x"], ["lit", "}"]],
    [["arg", 0, ""], ["lit", "/"], ["arg", 0, "x"]],
    [["arg", "auto", "s"], ["lit", "!"]],
    [["lit", "in={"], ["arg", "inp", "d"], ["lit", "}, cnt="], ["arg", "cnt", ""], ["arg", 0, "o"]],
]


# ---------------------------------------------------------------------------------------------------------------------
# format strings
# ---------------------------------------------------------------------------------------------------------------------
def fmt_string(chunks):
    out = ""
    for c in chunks:
        if c[0] == "lit":
            out += c[1].replace("{", "{{").replace("}", "}}")
        else:
            ref = "" if c[1] == "auto" else str(c[1])
            out += "{" + ref + (":" + c[2] if c[2] else "") + "}"
    return out


def fmt_refs(chunks):
    """(number of positional arguments, keyword names) a chunk list needs."""
    npos, kws, auto = 0, [], 0
    for c in chunks:
        if c[0] != "arg":
            continue
        if c[1] == "auto":
            auto += 1
            npos = max(npos, auto)
        elif isinstance(c[1], int):
            npos = max(npos, c[1] + 1)
        elif c[1] not in kws:
            kws.append(c[1])
    return npos, kws


def reference_chunks(fmt, args, kwargs):
    """[(False, text) | (True, spec, argument)] from Python's own parser of format strings."""
    out, lit, auto = [], "", 0
    for text, field, spec, conv in string.Formatter().parse(fmt):
        lit += text
        if field is None:
            continue
        if conv is not None or "{" in (spec or ""):
            raise Unsupported("conversion / nested field in a generated format")
        if lit:
            out.append((False, lit))
            lit = ""
        if field == "":
            arg = args[auto]
            auto += 1
        elif field.isdigit():
            arg = args[int(field)]
        else:
            arg = kwargs[field]
        out.append((True, spec, arg))
    if lit:
        out.append((False, lit))
    return out


def norm_spec(format_spec):
    """LogChunkInfo list -> [(False, text) | (True, spec)], adjacent / empty literals merged."""
    out = []
    for ch in format_spec:
        if ch.is_fmt:
            out.append((True, ch.fmt_or_str))
        elif ch.fmt_or_str:
            if out and not out[-1][0]:
                out[-1] = (False, out[-1][1] + ch.fmt_or_str)
            else:
                out.append((False, ch.fmt_or_str))
    return out


# ---------------------------------------------------------------------------------------------------------------------
# the design
# ---------------------------------------------------------------------------------------------------------------------
def arg_shape(src):
    return (src[1], src[0] == "s") if src[0] in "us" else (src[1] + 1, False)


class LogDesign(CtxDesign):
    use_dbg = False

    def place(self, m, k, site):
        import transactron.utils.logging as tlog

        self.index_of = getattr(self, "index_of", {})
        self.args_of = getattr(self, "args_of", {})
        vals = []
        for j, src in enumerate(site["args"]):
            i = self.inp(f"a{k}_{j}", src[1])
            if src[0] == "x":
                v = i + 1
            else:
                v = Signal(signed(src[1]) if src[0] == "s" else src[1], name=f"as{k}_{j}")
                m.d.top_comb += v.eq(i)
            vals.append(v)
        npos, kws = fmt_refs(site["fmt"])
        args, kwargs = vals[:npos], dict(zip(kws, vals[npos:]))
        self.args_of[k] = (args, kwargs)
        self.index_of[k] = len(self.dm.dependencies[tlog.LogKey()])
        trig = self.inp(f"w{k}", site["ww"])
        fmt = fmt_string(site["fmt"])
        api = site["api"]
        log = tlog.HardwareLogger(site["name"])
        base = api.replace("fn_", "").replace("top_", "")
        top = "top_" in api
        if api.startswith("fn_"):
            fn = tlog.top_assertion if top else tlog.assertion
            (fn(trig, fmt, *args, name=site["name"], **kwargs) if top else fn(m, trig, fmt, *args, name=site["name"], **kwargs))
        elif base == "log":
            (log.top_log(site["level"], trig, fmt, *args, **kwargs) if top else log.log(m, site["level"], trig, fmt, *args, **kwargs))
        else:
            fn = getattr(log, api)
            (fn(trig, fmt, *args, **kwargs) if top else fn(m, trig, fmt, *args, **kwargs))

    def post(self, m):
        import transactron.utils.logging as tlog

        self.records = tlog.get_log_records(0)
        for i, rec in enumerate(self.records):
            self.obs(f"obs_trig{i}", rec.trigger)
            for j, fv in enumerate(rec.fields):
                self.obs(f"obs_f{i}_{j}", fv)
        self.selected = {}
        for q, (lvl, rx) in enumerate(self.cfg.get("queries", [])):
            self.obs(f"tb{q}", tlog.get_trigger_bit(lvl, rx))
            self.selected[q] = tlog.get_log_records(lvl, rx)


def site_level(site):
    base = site["api"].replace("fn_", "").replace("top_", "")
    return site["level"] if base == "log" else LEVELS[base]


def log_desc(site):
    c = ">".join(h[0] for h in site["ctx"]) or "no condition"
    b = {"none": "top level", "T0": "transaction body", "M": "method body", "T1": "body of the calling transaction"}[site["body"]]
    return f"{site['api']} in {b} under {c}"


def elab(cfg, ctx):
    b = Built(lambda: LogDesign(cfg), wrap=False, trace_functions=(ctx.index == 0))
    if b.functions:
        ctx.functions = b.functions
    return b


def selected_sites(cfg, lvl, rx):
    """configuration sites (in registration order) whose record must be selected by (level, regexp)."""
    return [k for k in expected_order(cfg["sites"]) if site_level(cfg["sites"][k]) >= lvl and re.search(rx, cfg["sites"][k]["name"])]


# ---------------------------------------------------------------------------------------------------------------------
# configurations
# ---------------------------------------------------------------------------------------------------------------------
def _site(rng, body, ctxname, api, fmt=None, name=None, nos=False):
    fmt = rng.choice([f for f in FORMATS if not (nos and any(c[0] == "arg" and c[2].endswith("s") for c in f))]) if fmt is None else fmt
    npos, kws = fmt_refs(fmt)
    args = []
    s_pos = {(c[1] if isinstance(c[1], int) else 0) for c in fmt if c[0] == "arg" and c[2].endswith("s")}
    for j in range(npos + len(kws)):
        k = rng.choice("uusx")
        args.append(["u", 8] if j in s_pos else [k, rng.randint(1, 7 if k == "x" else 8)])
    return dict(body=body, ctx=CTXS[ctxname], api=api, ww=rng.randint(1, 3), fmt=fmt, args=args, name=name or rng.choice(NAMES), level=rng.choice([35, 40, 5]))


def _trig_configs(tier, seed):
    rng = random.Random(seed * 7919 + 34)
    ctxs = list(CTXS)
    combos = [(b, c) for c in ctxs for b in BODIES]
    rng.shuffle(combos)
    apis = APIS * 3
    rng.shuffle(apis)
    out = []
    fi = 0
    for n in range(0, len(combos), 4):
        sites = []
        for b, c in combos[n:n + 4]:
            sites.append(_site(rng, b, c, apis[fi % len(apis)], FORMATS[fi % len(FORMATS)]))
            fi += 1
        out.append(dict(group="trig", sites=sites, queries=QUERIES))
    # every API at least once more with an interesting context, in designs of 2
    for n in range(0, len(APIS), 2):
        sites = [_site(rng, rng.choice(BODIES[1:]), rng.choice(ctxs[1:]), a) for a in APIS[n:n + 2]]
        out.append(dict(group="trig", sites=sites, queries=QUERIES))
    out.append(dict(group="trig", sites=[], queries=QUERIES))
    while len(out) < 26:
        out.append(dict(group="trig", sites=[_site(rng, rng.choice(BODIES), rng.choice(ctxs), rng.choice(APIS)) for _ in range(rng.randint(1, 4))], queries=QUERIES))
    if tier != "quick":
        while len(out) < 110:
            qs = [[rng.choice([0, 10, 20, 30, 35, 40]), rng.choice([".*", "^a", "b", "a\\.x$", "z"])] for _ in range(4)]
            out.append(dict(group="trig", sites=[_site(rng, rng.choice(BODIES), rng.choice(ctxs), rng.choice(APIS)) for _ in range(rng.randint(1, 4))], queries=qs))
    return out


def _process_configs(tier, seed):
    rng = random.Random(seed * 104729 + 34)
    shapes = [(1, 3, 0, ".*", "record"), (2, 3, 0, ".*", "raise"), (3, 2, pylogging.INFO, ".*", "record"), (4, 2, 0, "^a\\.", "record"), (2, 2, 0, ".*", "record"),
              (3, 2, 0, ".*", "raise")]
    if tier != "quick":
        shapes += [(4, 3, 0, ".*", "record"), (3, 3, 0, ".*", "record"), (4, 2, pylogging.ERROR, ".*", "raise"), (3, 3, pylogging.WARNING, "a", "record"),
                   (2, 3, 0, "b", "record"), (4, 2, 0, ".*", "raise"), (1, 1, 0, ".*", "raise"), (2, 1, 0, "nomatch", "record"), (3, 3, 0, ".*", "raise"), (4, 2, 35, ".*", "record")]
    out = []
    for n, K, lvl, rx, mode in shapes:
        # the filter must not shrink the explored set below n records: all n sites are selected, extra filtered-out sites are added
        sites = []
        pool = [a for a in APIS]
        while len(sites) < n:
            s = _site(rng, rng.choice(BODIES), rng.choice(list(CTXS)), rng.choice(pool), nos=True)
            if len(sites) == 0:
                s["api"] = rng.choice(["error", "assertion", "top_error", "fn_assertion"])
            if len(sites) == 1:
                s["api"] = rng.choice(["warning", "info", "top_warning"]) if lvl <= pylogging.INFO else "error"
            if site_level(s) >= lvl and re.search(rx, s["name"]):
                sites.append(s)
            elif rx == "nomatch":
                sites.append(s)
        extra = _site(rng, "none", "none", "debug", nos=True, name="zz")
        if not (site_level(extra) >= lvl and re.search(rx, extra["name"])):
            sites.insert(rng.randrange(len(sites) + 1), extra)
        c = dict(group="process", sites=sites, K=K, level=lvl, regexp=rx, on_error=mode, queries=[])
        out += split_cfgs(c) if n * K >= 12 else [c]  # 4096 histories: four tasks of 1024
    return out


def _format_configs(tier, seed):
    rng = random.Random(seed * 1299709 + 34)
    lists = [[], [["lit", "only text"]], [["fmt", "x", 1]], [["fmt", "s", 3]], [["lit", "a="], ["fmt", "", 1], ["lit", " b="], ["fmt", "04x", 2]],
             [["fmt", "s", 2], ["lit", ":"], ["fmt", "d", 1]], [["fmt", ">8s", 3], ["fmt", "s", 1]], [["fmt", "", 1], ["fmt", "", 1], ["fmt", "", 1]],
             [["lit", "x"], ["lit", "y"], ["fmt", "b", 1]], [["fmt", "5s", 2], ["lit", ""], ["fmt", "s", 2]], [["fmt", "x", 2], ["fmt", "s", 3], ["lit", "."], ["fmt", "o", 1], ["lit", "end"]],
             [["fmt", "s", 1]]]
    if tier != "quick":
        lists += [[["fmt", "s", 4]], [["fmt", "s", 4], ["fmt", "s", 2]], [["fmt", "^9s", 4], ["lit", "|"], ["fmt", "x", 4]]]
        specs = ["", "x", "d", "s", "3s", "08b", "<5", "s"]
        while len(lists) < 30:
            lst = []
            for _ in range(rng.randint(1, 5)):
                if rng.random() < 0.35:
                    lst.append(["lit", rng.choice(["", " ", "k=", "}{", "text"])])
                else:
                    sp = rng.choice(specs)
                    lst.append(["fmt", sp, rng.randint(1, 3)])
            if sum(c[2] for c in lst if c[0] == "fmt" and c[1].endswith("s")) <= 6:
                lists.append(lst)
    return [dict(group="format", chunks=c) for c in lists]


def configs(tier, seed):
    proc = sorted(_process_configs(tier, seed), key=lambda c: -len(c["sites"]) * c["K"])
    trig = _trig_configs(tier, seed)
    for c in trig[:3]:
        c["cosim"] = True  # random traces through amaranth.sim and through the encoding
    return proc + _format_configs(tier, seed) + trig


# ---------------------------------------------------------------------------------------------------------------------
# (a) trigger hardware
# ---------------------------------------------------------------------------------------------------------------------
def _record_facts(d, cfg):
    """concrete facts about the registered records; returns complaints."""
    import transactron.utils.logging as tlog

    sites = cfg["sites"]
    n = len(sites)
    order = expected_order(sites)
    if [getattr(d, "index_of", {}).get(k) for k in order] != list(range(n)) or len(d.records) != n:
        return [f"registration order {getattr(d, 'index_of', None)} is not the call order {order} ({len(d.records)} records)"]
    bad = []
    for k, s in enumerate(sites):
        rec = d.records[d.index_of[k]]
        if not isinstance(rec, tlog.LogRecord) or rec.logger_name != s["name"] or rec.level != site_level(s):
            bad.append(f"site {k} ({s['api']}): logger {rec.logger_name!r} level {rec.level}, expected {s['name']!r} {site_level(s)}")
            continue
        args, kwargs = d.args_of[k]
        ref = reference_chunks(fmt_string(s["fmt"]), args, kwargs)
        if norm_spec(rec.format_spec) != [(c[0], c[1]) for c in ref]:
            bad.append(f"site {k}: format_spec {rec.format_spec} of {fmt_string(s['fmt'])!r}, Python parses {[(c[0], c[1]) for c in ref]}")
        want = [c[2] for c in ref if c[0]]
        if len(rec.fields) != len(want) or any(a is not b_ for a, b_ in zip(rec.fields, want)):
            bad.append(f"site {k}: fields {rec.fields} are not the referenced arguments {want} of {fmt_string(s['fmt'])!r}")
    for q, (lvl, rx) in enumerate(cfg["queries"]):
        want = [d.records[d.index_of[k]] for k in selected_sites(cfg, lvl, rx)]
        got = d.selected[q]
        if len(got) != len(want) or any(a is not b_ for a, b_ in zip(got, want)):
            bad.append(f"get_log_records({lvl}, {rx!r}) selects {[r.logger_name for r in got]}, expected {[r.logger_name for r in want]}")
    return bad


def arg_expected(o, k, j, src):
    i = o.sig(f"a{k}_{j}")
    return zx(i, src[1] + 1) + 1 if src[0] == "x" else i


def _run_trig(cfg, ctx):
    b = elab(cfg, ctx)
    d = b.h
    sites = cfg["sites"]
    n = len(sites)
    u = Unroll(b, free_init=True)
    o = u.cycle()
    ctx.frames += 1
    if cfg.get("cosim"):
        pts, mism = cosim(b, 8, ctx.seed)
        ctx.cosim_points += pts
        ctx.cosim_traces += 1
        if mism:
            ctx.errors.append(f"cosim mismatch encoder vs pysim in cfg {cfg}: {mism[:4]}")
    bad = _record_facts(d, cfg)
    ctx._record(f"levels, logger names, registration order, get_log_records selection, format_spec / fields vs Python's parse for {n} record(s)", "obligation",
                "sat" if bad else "unsat", 0.0)
    if bad:
        again = _record_facts(Built(lambda: LogDesign(cfg), wrap=False).h, cfg)
        if again:
            ctx.violation("registered log records", "; ".join(again)[:1500], "re-elaborated from scratch with the same outcome")
        else:
            ctx.errors.append(f"non-deterministic record facts: {bad[:2]}")
        return
    gated = [k for k, s in enumerate(sites) if "top_" not in s["api"] and (s["body"] != "none" or s["ctx"])]
    if gated:
        k = gated[0]
        ctx.witness(f"site {k}: trigger input non-zero while the context is inactive", [o.sig(f"w{k}") != 0, z3.Not(site_active(o, sites[k]))])
    exp = {}
    for k, s in enumerate(sites):
        i = d.index_of[k]
        asrt = "assertion" in s["api"]
        cond = (o.sig(f"w{k}") == 0) if asrt else (o.sig(f"w{k}") != 0)
        exp[k] = cond if "top_" in s["api"] else z3.And(cond, site_active(o, s))
        obs = o.sig(f"obs_trig{i}")
        ctx.witness(f"site {k} ({log_desc(s)}) can fire", [exp[k]])
        ctx.prove(f"site {k} ({log_desc(s)}, {s['ww']}-bit {'value' if asrt else 'trigger'}): record trigger == "
                  f"({'value == 0' if asrt else 'trigger != 0'}){'' if 'top_' in s['api'] else ' & context active'}", [], (obs == 1) == exp[k], u)
        args, kwargs = d.args_of[k]
        allargs = list(args) + list(kwargs.values())
        rec = d.records[i]
        eqs = []
        for j, fv in enumerate(rec.fields):
            src_j = next(jj for jj, a in enumerate(allargs) if a is fv)
            fo = o.sig(f"obs_f{i}_{j}")
            if fo.size() != arg_shape(s["args"][src_j])[0] or fv.shape().signed != arg_shape(s["args"][src_j])[1]:
                ctx.violation(f"site {k} field {j}: shape", f"{fv.shape()} for argument {s['args'][src_j]}", "elaboration")
                return
            eqs.append(fo == arg_expected(o, k, src_j, s["args"][src_j]))
        if eqs:
            ctx.prove(f"site {k}: the {len(eqs)} field Value(s) carry the referenced arguments", [], z3.And(*eqs), u)
    for q, (lvl, rx) in enumerate(cfg["queries"]):
        sel = selected_sites(cfg, lvl, rx)
        want = z3.Or(*[exp[k] for k in sel]) if sel else z3.BoolVal(False)
        if sel:
            ctx.witness(f"get_trigger_bit({lvl}, {rx!r}): high reachable", [want]) and ctx.witness(f"get_trigger_bit({lvl}, {rx!r}): low reachable", [z3.Not(want)])
        ctx.prove(f"get_trigger_bit({lvl}, {rx!r}) == OR of the triggers of the {len(sel)} selected record(s) of {n}", [], (o.sig(f"tb{q}") == 1) == want, u)
    # sampled (not a proof): the real built-in format through LogRecordInfo.format against str.format of the original string
    rng = random.Random(ctx.seed * 53 + ctx.index)
    for k, s in enumerate(sites):
        rec = d.records[d.index_of[k]]
        args, kwargs = d.args_of[k]
        for _ in range(3):
            val = {}
            for a, src in zip(list(args) + list(kwargs.values()), s["args"]):
                shp = a.shape()
                val[id(a)] = rng.randint(-(1 << (shp.width - 1)), (1 << (shp.width - 1)) - 1) if shp.signed else rng.randint(0, (1 << shp.width) - 1)
            for f, ch in zip(rec.fields, [c for c in rec.format_spec if c.is_fmt]):
                if ch.fmt_or_str.endswith("s"):
                    val[id(f)] &= 0x7F7F7F7F  # keep the byte string decodable (bytes.decode is outside the claim)
            run = lambda: rec.format(*[val[id(f)] for f in rec.fields])
            try:
                got = run()
                want = _py_format(fmt_string(s["fmt"]), [val[id(a)] for a in args], {kw: val[id(a)] for kw, a in kwargs.items()})
            except UnicodeDecodeError:
                continue
            note(ctx, "real_format_concrete_samples")
            if got != want and run() == got:
                ctx.violation(f"site {k}: LogRecordInfo.format with the built-in format vs str.format (concrete sample)",
                              f"format {fmt_string(s['fmt'])!r} values {sorted(val.values())}: {got!r} != {want!r}", "re-executed concretely")
                return


def _py_format(fmt, args, kwargs):
    """str.format, with the documented extension: an s-specifier renders the integer as its little-endian non-zero bytes."""
    out = ""
    for c in reference_chunks(fmt, args, kwargs):
        if not c[0]:
            out += c[1]
        elif c[1].endswith("s"):
            v = c[2]
            bs = bytes(b for b in v.to_bytes((v.bit_length() + 7) // 8 or 1, "little") if b)
            out += ("{:" + c[1][:-1] + "}").format(bs.decode()) if c[1][:-1] else bs.decode()
        else:
            out += ("{:" + c[1] + "}").format(c[2]) if c[1] else "{}".format(c[2])
    return out


# ---------------------------------------------------------------------------------------------------------------------
# stubs
# ---------------------------------------------------------------------------------------------------------------------
TOK = "\x00"


class FormatRecorder:
    """injective stand-in of the built-in format(): a unique token per call, the (value, spec) pair is kept."""

    def __init__(self):
        self.calls = []

    def __call__(self, value, spec=""):
        self.calls.append((value, spec))
        return f"{TOK}{len(self.calls) - 1}{TOK}"

    def parse(self, text):
        """message -> [(False, literal) | (True, value, spec)]."""
        if not isinstance(text, str):
            return None
        out = []
        for n, part in enumerate(re.split(f"{TOK}(\\d+){TOK}", text)):
            if n % 2:
                out.append((True, *self.calls[int(part)]))
            elif part:
                out.append((False, part))
        return out


class DecodedBytes:
    def __init__(self, items):
        self.items = items


class BytesRecorder:
    """stand-in of bytearray(): append() keeps the (symbolic) bytes, decode() returns an opaque DecodedBytes."""

    def __init__(self, *a):
        if a:
            raise Unsupported("bytearray stub: constructor arguments")
        self.items = []

    def append(self, b):
        self.items.append(b)

    def insert(self, i, b):
        self.items.insert(i, b)

    def decode(self, *a):
        return DecodedBytes(list(self.items))


class Recorder:
    def __init__(self, raise_on_error):
        self.events = []
        self.raise_on_error = raise_on_error


class OnErrorRaised(Exception):
    pass


class RecLogger:
    def __init__(self, rec, name, TL):
        self.rec, self.name, self.TL = rec, name, TL

    def getChild(self, name):
        return RecLogger(self.rec, name, self.TL)

    def log(self, level, msg, *args, **kw):
        self.rec.events.append(("log", self.name, level, msg, args, self.TL._sim_cycle))


class LoggingStub:
    ERROR = pylogging.ERROR

    def __init__(self, rec, TL):
        self.root = RecLogger(rec, None, TL)

    def getLogger(self, name=None):
        if name is not None:
            raise Unsupported("logging stub: getLogger(name)")
        return self.root


@contextlib.contextmanager
def patched_logging(rec, fmt, get_bit_box=None):
    TL = importlib.import_module("transactron.testing.logging")
    UL = importlib.import_module("transactron.utils.logging")
    old = (TL.logging, UL.__dict__.get("format"), UL.__dict__.get("bytearray"), UL.get_trigger_bit, TL._sim_cycle)
    if rec is not None:
        TL.logging = LoggingStub(rec, TL)
    if fmt is not None:
        UL.format = fmt
        UL.bytearray = BytesRecorder
    if get_bit_box is not None:
        real = UL.get_trigger_bit

        def get_trigger_bit(*a, **k):
            r = real(*a, **k)
            get_bit_box.append(r)
            return r

        UL.get_trigger_bit = get_trigger_bit
    try:
        yield
    finally:
        TL.logging = old[0]
        for nm, o_ in (("format", old[1]), ("bytearray", old[2])):
            if o_ is None:
                UL.__dict__.pop(nm, None)
            else:
                setattr(UL, nm, o_)
        UL.get_trigger_bit = old[3]
        TL._sim_cycle = old[4]


# ---------------------------------------------------------------------------------------------------------------------
# (b) the simulation logging process
# ---------------------------------------------------------------------------------------------------------------------
class ProcessHarness:
    def __init__(self, cfg, ctx):
        from transactron.testing.tick_count import TicksKey

        self.cfg, self.K = cfg, cfg["K"]
        self.b = elab(cfg, ctx)
        self.d = self.b.h
        self.ticks = Signal(64, name="ticks")
        self.b.dm.add_dependency(TicksKey(), self.ticks)
        self.sel = selected_sites(cfg, cfg["level"], cfg["regexp"])
        self.recs = [self.d.records[self.d.index_of[k]] for k in self.sel]

    def run(self, mk):
        from transactron.utils.dependencies import DependencyContext
        from transactron.testing.logging import make_logging_process

        V = Values(mk)
        tick = StubTick(self.K, V)
        sim = StubSim(tick)
        rec = Recorder(self.cfg["on_error"] == "raise")
        fmt = FormatRecorder()
        box = []

        def on_error():
            rec.events.append(("error",))
            if rec.raise_on_error:
                raise OnErrorRaised()

        raised = None
        with patched_logging(rec, fmt, box), DependencyContext(self.b.dm):
            proc = make_logging_process(self.cfg["level"], self.cfg["regexp"], on_error)
            if len(box) != 1:
                raise AssertionError("harness: make_logging_process is expected to build one combined trigger")

            def combined(t):
                vals = [V(t, rc.trigger) for rc in self.recs]
                sym = [v for v in vals if isinstance(v, (SInt, SBool))]
                if sym:
                    any_ = z3.Or(*[lift(v) != 0 for v in vals])
                    return SInt(sym[0].eng, z3.If(any_, z3.BitVecVal(1, W), z3.BitVecVal(0, W)))
                return int(any(v != 0 for v in vals))

            V.derived[id(Value.cast(box[0]))] = combined
            self._keep = box[0]
            try:
                drive(proc(sim))
            except OnErrorRaised as e:
                raised = e
        items = []
        for t in range(self.K):
            for i, rc in enumerate(self.recs):
                items.append((V(t, rc.trigger), (V(t, self.ticks), i, [V(t, f) for f in rc.fields])))
        return dict(events=rec.events, fmt=fmt, items=items, raised=raised is not None, sim=sim, tick=tick)

    # ---- oracle ----
    def log_eq(self, fmt):
        def eq(pay, ev):
            cyc, i, vals = pay
            rc = self.recs[i]
            if ev[0] != "log" or ev[1] != rc.logger_name or ev[2] != rc.level or ev[3] != "[%s:%d] %s" or len(ev[4]) != 3 or tuple(ev[4][:2]) != tuple(rc.location):
                return z3.BoolVal(False)
            parsed = fmt.parse(ev[4][2])
            spec = norm_spec(rc.format_spec)
            if parsed is None or len(parsed) != len(spec):
                return z3.BoolVal(False)
            eqs = [lift(ev[5]) == lift(cyc)]
            it = iter(vals)
            for got, want in zip(parsed, spec):
                if got[0] != want[0]:
                    return z3.BoolVal(False)
                if not want[0]:
                    if got[1] != want[1]:
                        return z3.BoolVal(False)
                    continue
                if got[2] != want[1] or isinstance(got[1], DecodedBytes):
                    return z3.BoolVal(False)
                eqs.append(lift(got[1]) == lift(next(it)))
            return z3.And(*eqs)

        return eq

    def goal(self, r):
        """(z3 goal, structural complaints) for one executed history."""
        err = lambda i: self.recs[i].level >= pylogging.ERROR
        raising = self.cfg["on_error"] == "raise"
        items, alive = [], z3.BoolVal(True)
        any_err = z3.BoolVal(False)
        for trig, pay in r["items"]:
            f = nonzero(trig)
            items.append((z3.And(alive, f) if raising else f, pay))
            if err(pay[1]):
                any_err = z3.Or(any_err, f)
                if raising:
                    alive = z3.And(alive, z3.Not(f))
        evs = r["events"]
        logs = [e for e in evs if e[0] == "log"]
        bad = []
        for n, e in enumerate(evs):
            if e[0] == "log" and e[2] >= pylogging.ERROR and (n + 1 >= len(evs) or evs[n + 1][0] != "error"):
                bad.append(f"event {n}: record of level {e[2]} logged without a following on_error()")
            if e[0] == "error" and (n == 0 or evs[n - 1][0] != "log" or evs[n - 1][2] < pylogging.ERROR):
                bad.append(f"event {n}: on_error() not directly after a logged record of level >= ERROR")
        g = subseq_goal(items, logs, self.log_eq(r["fmt"]))
        g = z3.And(g, z3.BoolVal(r["raised"]) == (any_err if raising else z3.BoolVal(False)))
        return (z3.BoolVal(False) if bad else g), bad


def _run_process(cfg, ctx):
    h = ProcessHarness(cfg, ctx)
    n, K = len(h.recs), cfg["K"]
    split = cfg.get("split", {})
    label = (f"process {n} selected record(s) of {len(cfg['sites'])} x {K} cycle(s), level>={cfg['level']} /{cfg['regexp']}/, on_error {cfg['on_error']}s" +
             (f" [part {split}]" if split else ""))
    box = {}

    def body(eng):
        names = {}
        r = h.run(split_mk(eng, names, split))
        box["names"] = names
        return r

    def summary(r):
        out = []
        for e in r["events"]:
            if e[0] == "log":
                p = r["fmt"].parse(e[4][2]) if len(e[4]) == 3 else None
                out.append(("log", e[1], e[2], e[5], [x[1:] if x[0] else x[1] for x in (p or [])]))
            else:
                out.append(e)
        return out + [("raised", r["raised"])]

    def concrete(env):
        r = h.run(lambda name, lo, hi: env.get(name, lo))
        g, bad = h.goal(r)
        return (not bad) and z3.is_true(z3.simplify(g)), summary(r), bad

    def per_path(pi, p):
        names = box["names"]
        g, bad = h.goal(p.result)

        def replay(m):
            env = model_env(m, names)
            ok, summ, bad2 = concrete(env)
            return (not ok), f"sampled values {env}: logger / on_error events {summ} {bad2[:3]}"

        nlog = len([e for e in p.result["events"] if e[0] == "log"])
        return prove_py(ctx, f"{label} [path {pi}: {nlog} logged]: a record is logged iff its sampled trigger is non-zero, in order, with its own level / name / "
                             f"location / field values / tick; on_error exactly after records of level >= ERROR", p.pc, g, replay) is not False

    eng, paths, complete = explore(ctx, label, body, per_path)
    ctx.frames += K * len(paths)  # symbolic cycles of the stub simulator
    ctx.steps += K * len(paths)
    names = box.get("names", {})
    dom = dom_of(names) + split_dom(split)
    if not complete:
        return
    coverage(ctx, label, dom, paths)
    if n and not split:
        full = any(len([e for e in p.result["events"] if e[0] == "log"]) == n * K for p in paths)
        for wn, ok in ((("some explored history logs every (cycle, record)", full),) if cfg["on_error"] != "raise" else ()) + \
                (("some explored history logs nothing", any(not p.result["events"] for p in paths)),
                 ("some explored history calls on_error", any(("error",) in p.result["events"] for p in paths) or not any(rc.level >= pylogging.ERROR for rc in h.recs))):
            ctx._record(f"{label}: {wn}", "witness", "sat" if ok else "unsat", 0.0)
            if not ok:
                ctx.errors.append(f"vacuity: {label}: no path where {wn}")
    rng = random.Random(ctx.seed * 31 + ctx.index)
    for _ in range(6 if names else 0):
        env = {nm: (rng.choice([lo, hi, 0 if lo <= 0 <= hi else lo]) if rng.random() < 0.3 else rng.randint(lo, hi)) for nm, (lo, hi) in names.items()}
        env = split_fix(env, split, names)
        ok, summ, bad = concrete(env)
        try:
            sym = eval_paths(paths, env, lambda p: _plain(summary(p.result)))
        except Unsupported as e:
            ctx.errors.append(f"pysym validation: {e} in {label}")
            continue
        note(ctx, "pysym_concrete_crosschecks")
        if sym != _plain(summ):
            ctx.errors.append(f"pysym validation: {label} on {env}: proxies give {sym}, real ints give {summ}")


def _plain(x):
    if isinstance(x, (list, tuple)):
        return [_plain(y) for y in x]
    return x


# ---------------------------------------------------------------------------------------------------------------------
# (c) LogRecordInfo.format
# ---------------------------------------------------------------------------------------------------------------------
def _run_format(cfg, ctx):
    import transactron.utils.logging as tlog

    chunks = cfg["chunks"]
    label = f"format {[(c[1] if c[0] == 'fmt' else repr(c[1])) for c in chunks]}"
    fmts = [c for c in chunks if c[0] == "fmt"]
    info = tlog.LogRecordInfo("lg", pylogging.INFO, [tlog.LogChunkInfo(c[0] == "fmt", c[1]) for c in chunks], ("f.py", 1))
    box = {}

    def execute(mk):
        args = [mk(f"arg{k}", 0 if c[1].endswith("s") else -(1 << (8 * c[2] - 1)), (1 << (8 * c[2])) - 1 if c[1].endswith("s") else (1 << (8 * c[2] - 1)) - 1)
                for k, c in enumerate(fmts)]
        fmt = FormatRecorder()
        with patched_logging(None, fmt):
            res = info.format(*args)  # exactly one argument per format chunk, as the logging process passes them
        return dict(args=args, res=res, fmt=fmt)

    def body(eng):
        names = {}

        def mk(name, lo, hi):
            names[name] = (lo, hi)
            return eng.int(name, lo, hi)

        r = execute(mk)
        box["names"] = names
        return r

    def goal(r):
        parsed = r["fmt"].parse(r["res"])
        want = norm_spec(info.format_spec)
        if parsed is None or len(parsed) != len(want) or len(r["fmt"].calls) != len(fmts):
            return z3.BoolVal(False), [f"{len(parsed) if parsed is not None else None} chunks / {len(r['fmt'].calls)} format() calls for {len(want)} chunks / {len(fmts)} fields"]
        it = iter(zip(r["args"], fmts))
        eqs = []
        for got, w in zip(parsed, want):
            if got[0] != w[0]:
                return z3.BoolVal(False), ["literal / field chunks out of order"]
            if not w[0]:
                if got[1] != w[1]:
                    return z3.BoolVal(False), [f"literal {got[1]!r} != {w[1]!r}"]
                continue
            arg, c = next(it)
            if c[1].endswith("s"):
                if got[2] != c[1][:-1] or not isinstance(got[1], DecodedBytes):
                    return z3.BoolVal(False), [f"s-field rendered with {got[2]!r} on {type(got[1]).__name__}"]
                a = lift(arg)
                by = [z3.LShR(a, 8 * k) & 0xFF for k in range(c[2])]
                eqs.append(subseq_goal([(b != 0, b) for b in by], got[1].items, lambda pay, g_: lift(g_) == pay))
            else:
                if got[2] != c[1] or isinstance(got[1], DecodedBytes):
                    return z3.BoolVal(False), [f"field rendered with specifier {got[2]!r}, expected {c[1]!r}"]
                eqs.append(lift(got[1]) == lift(arg))
        return (z3.And(*eqs) if eqs else z3.BoolVal(True)), []

    def concrete(env):
        r = execute(lambda name, lo, hi: env.get(name, lo))
        g, bad = goal(r)
        shown = [(x[1].items if isinstance(x[1], DecodedBytes) else x[1], x[2]) if x[0] else x[1] for x in (r["fmt"].parse(r["res"]) or [])]
        return (not bad) and z3.is_true(z3.simplify(g)), shown, bad

    def per_path(pi, p):
        names = box["names"]
        g, bad = goal(p.result)

        def replay(m):
            env = model_env(m, names)
            ok, shown, bad2 = concrete(env)
            return (not ok), f"arguments {env}: chunks / format() calls {shown} {bad2[:3]}"

        return prove_py(ctx, f"{label} [path {pi}]: chunks in order, k-th field consumes the k-th argument with its specifier; "
                        "s-fields decode the non-zero bytes LSB first", p.pc, g, replay) is not False

    eng, paths, complete = explore(ctx, label, body, per_path)
    names = box.get("names", {})
    dom = dom_of(names)
    if not complete:
        return
    coverage(ctx, label, dom, paths)
    sargs = [k for k, c in enumerate(fmts) if c[1].endswith("s") and c[2] > 1]
    if sargs:
        k = sargs[0]
        a = z3.BitVec(f"arg{k}", W)
        ctx.witness(f"{label}: an s-argument with a zero byte below a non-zero byte", dom + [(a & 0xFF) == 0, (z3.LShR(a, 8) & 0xFF) != 0])
    rng = random.Random(ctx.seed * 77 + ctx.index)
    for _ in range(4 if names else 0):
        env = {nm: rng.choice([lo, hi, rng.randint(lo, hi), rng.randint(lo, hi) & 0xFF00FF]) for nm, (lo, hi) in names.items()}
        env = {nm: min(max(v, names[nm][0]), names[nm][1]) for nm, v in env.items()}
        for k, c in enumerate(fmts):
            if c[1].endswith("s"):
                env[f"arg{k}"] &= 0x7F7F7F7F  # keep the byte string decodable (bytes.decode is outside the claim)
        ok, shown, bad = concrete(env)
        try:
            sym = eval_paths(paths, env, lambda p: _shown(p.result))
        except Unsupported as e:
            ctx.errors.append(f"pysym validation: {e} in {label}")
            continue
        note(ctx, "pysym_concrete_crosschecks")
        if sym != _plain(shown):
            ctx.errors.append(f"pysym validation: {label} on {env}: proxies give {sym}, real ints give {shown}")
        # the real built-ins on the same values
        args = [env[f"arg{k}"] for k in range(len(fmts))]
        try:
            got = info.format(*args)
            it = iter(args)
            want = "".join(c[1] if c[0] == "lit" else _py_format("{:" + c[1] + "}" if c[1] else "{}", [next(it)], {}) for c in chunks)
        except UnicodeDecodeError:
            continue
        note(ctx, "real_format_concrete_samples")
        if got != want and info.format(*args) == got:
            ctx.violation(f"{label}: real built-in format (concrete sample)", f"arguments {args}: {got!r} != {want!r}", "re-executed concretely")


def _shown(r):
    return _plain([(x[1].items if isinstance(x[1], DecodedBytes) else x[1], x[2]) if x[0] else x[1] for x in (r["fmt"].parse(r["res"]) or [])])


def run(cfg, ctx):
    g = cfg["group"]
    if g == "trig":
        _run_trig(cfg, ctx)
    elif g == "process":
        _run_process(cfg, ctx)
    else:
        _run_format(cfg, ctx)


# ---------------------------------------------------------------------------------------------------------------------
# canaries
# ---------------------------------------------------------------------------------------------------------------------
def _canary_assertion_not_negated():
    _patch_src("transactron.utils.logging", "HardwareLogger.assertion", "self.error(m, ~Value.cast(value).any(),", "self.error(m, Value.cast(value).any(),")


def _canary_error_threshold():
    import transactron.testing.logging as TL

    if getattr(TL.make_logging_process, "_verif_canary", False):
        return
    _patch_src("transactron.testing.logging", "make_logging_process", "if record.level >= logging.ERROR:", "if record.level > logging.ERROR:")


def _canary_format_bytes_order():
    _patch_src("transactron.utils.logging", "LogRecordInfo.format", "msg.append(byte)", "msg.insert(0, byte)")


CANARIES = [("HardwareLogger.assertion does not negate its condition", _canary_assertion_not_negated),
            ("logging process calls on_error only above ERROR (> instead of >=)", _canary_error_threshold),
            ("LogRecordInfo.format builds s-strings most significant byte first", _canary_format_bytes_order)]
