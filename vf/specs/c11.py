"""C11: ill-formed designs are rejected, well-formed ones accepted.

Each generated spec is classified by the spec-level oracle (double call on non-exclusive paths, recursion, cyclic priorities
decided as a difference-logic query, single_caller with two call sites, ready-dependency on a conflicting transaction); the
real elaboration (TransactronContextElaboratable + TransactionManager) is then run concretely and must raise iff the oracle
says ill-formed.  The solver decides the specification side only; the implementation side is executed, not encoded.
"""
from ._core_common import *  # noqa

PROP = "C11"
LEVEL = "other"
TECHNIQUE = "differential classification: spec-level oracle (z3 difference logic for priority cycles, structural rules for the rest) vs concrete run of the real elaboration on generated valid and deliberately invalid designs"
OPTS = dict(p_mbefore=0.3, multi=True, mgroup=True, p_single_group=0.3, alias=True, combiner=True, fsm=True, nested_methods=True, single_caller=True, ready_dep=True, p_fresh=0.5, mprio=True, p_tm_conflict=0.2,
            p_conflict=0.6, p_before=0.5, invalid=True)
BOUNDS = {"quick": "60 batches x 25 random specs (valid and invalid), eager scheduler", "thorough": "1800 batches x 40 random specs"}
OUTSIDE = OUTSIDE_COMMON + ["other grounds on which the library rejects designs (undefined methods, layout mismatches, simultaneity constraints)"]
ASSUMES = ASSUMES_COMMON + ["any exception type raised by elaboration counts as rejection (cyclic priorities surface as networkx.NetworkXUnfeasible)"]
EXPLANATION = __doc__


def configs(tier, seed):
    return batch_configs(tier, seed, 60, 1800, 25 if tier == "quick" else 40, OPTS, ("eager",))


def run(cfg, ctx):
    run_batch(cfg, ctx, {PROP})
