"""C18: method transformers and connectors implement their documented function.

Every component is the real class wrapped into a harness: the provided `method` gets an AdapterTrans caller, every
target (and every method used as a mapping / condition function) is a mocked `Adapter` with free readiness and free
result.  The stateless components (ConnectTrans, CrossbarConnectTrans, MethodMap, MethodFilter in both modes,
MethodProduct, MethodTryProduct, NonexclusiveWrapper) are decided by single-cycle relations between the adapters'
en/done/data signals from a free state (complete per configuration).  Collector contains a Forwarder and is checked by
BMC from reset against a one-slot buffer model: the sequence of delivered results equals the sequence of results taken
from the targets, nothing is taken while the slot is occupied.
"""
import itertools
import z3
from ..harness import Harness, Built
from ..seq import bmc, Unroll
from ..util import atmost1, bit

PROP = "C18"
LEVEL = "model_checking"
TECHNIQUE = "SMT (z3 QF_BV) on the netlist of the real component + adapters: one-cycle relations from a free state; BMC against a one-slot buffer model for Collector; counterexamples replayed on amaranth.sim"
BOUNDS = {
    "quick": "ConnectTrans (2-bit data both ways, one-way); CrossbarConnectTrans 1x2, 2x2; MethodMap identity / (+1, ~) / field swap / mapping by methods; "
             "MethodFilter use_condition in {False, True} x default in {zero, constant} and with a condition Method; MethodProduct 1..3 targets (default / xor combiner); "
             "MethodTryProduct 1..3 targets (default / success-bits+results combiner); NonexclusiveWrapper with 1..2 callers; all en/readiness/data values, one cycle "
             "from any state; Collector 1..3 targets, 2-bit results, BMC 6 cycles from reset",
    "thorough": "same shapes with data widths 1..3, targets up to 4, CrossbarConnectTrans up to 3x3, NonexclusiveWrapper up to 3 callers; Collector 1..4 targets, 3-bit results, BMC 10",
}
OUTSIDE = ["mapping / condition / combiner functions other than the fixed ones listed under assumptions", "widths and target counts above the enumerated ones",
           "NonexclusiveWrapper with several simultaneous callers: only readiness and results are checked, the argument seen by the target is unspecified "
           "(documented use excludes simultaneous calls)", "Collector histories longer than the BMC bound; which target is served first (fairness)",
           "round-robin scheduler"]
ASSUMES = ["default (eager) scheduler; callers are AdapterTrans transactions, targets are Adapter mocks with free readiness and results",
           "fixed functions: MethodMap i_transform a -> a+1 / o_transform y -> ~y; field swap (u,v)->(p=v,q=u) and (r,s)->(s2=s,r2=r); mapping by mocked Methods; "
           "MethodFilter condition = bit 0 of the argument (or a mocked 1-bit Method, or - without use_condition - the whole multi-bit argument, non-zero = true; a multi-bit condition with use_condition=True is outside the claim: the library truncates it to one bit), default in {None (zero), constant with all bits but bit 0 set}; "
           "MethodProduct combiner in {default (first result), xor of all results}; MethodTryProduct combiner in {default (empty), (Cat of success bits, Cat of results)}",
           "callers of one harness may conflict (CrossbarConnectTrans transactions sharing a method, Collector's per-target transactions): there the statements are "
           "implications plus 'no runnable pair is left waiting by both of its methods' / 'a ready target is taken when the slot is free' (eager scheduler) instead of iff",
           "MethodFilter without use_condition locks the target even when the condition is false (documented default); with use_condition it must run regardless of the target when the condition is false",
           "Collector: 'exactly once' is the safety statement over symbolic results (a lost/duplicated result shifts the delivered sequence); eventual delivery is outside"]


# ------------------------------------------------------------------------------------------------ harness factories
def make(cfg):
    from amaranth import Cat, Const
    from transactron.lib import Adapter
    from transactron.lib.connectors import ConnectTrans, CrossbarConnectTrans
    from transactron.lib.transformers import MethodMap, MethodFilter, MethodProduct, MethodTryProduct, NonexclusiveWrapper, Collector

    k = cfg["kind"]
    w = cfg["w"]
    if k == "connecttrans":
        a = Adapter(i=[("a", w)], o=[("b", cfg["w2"])] if cfg["w2"] else [])
        b = Adapter(i=[("b", cfg["w2"])] if cfg["w2"] else [], o=[("a", w)])
        d = ConnectTrans.create(a.iface, b.iface)
        return Harness(d, {}, mocks={"a": a, "b": b})
    if k == "crossbar":
        as_ = [Adapter(i=[("a", w)], o=[("b", w)]) for _ in range(cfg["n1"])]
        bs = [Adapter(i=[("b", w)], o=[("a", w)]) for _ in range(cfg["n2"])]
        d = CrossbarConnectTrans.create([x.iface for x in as_], [x.iface for x in bs])
        return Harness(d, {}, mocks={**{f"a{i}": x for i, x in enumerate(as_)}, **{f"b{i}": x for i, x in enumerate(bs)}})
    if k == "map":
        v = cfg["variant"]
        if v == "id":
            t = Adapter(i=[("x", w)], o=[("y", w)])
            d = MethodMap.create(t.iface)
            return Harness(d, {"m": d.method}, mocks={"t": t})
        if v == "inc":
            t = Adapter(i=[("x", w)], o=[("y", w)])
            d = MethodMap.create(t.iface, i_transform=([("a", w)], lambda m, arg: {"x": arg.a + 1}), o_transform=([("z", w)], lambda m, res: {"z": ~res.y}))
            return Harness(d, {"m": d.method}, mocks={"t": t})
        if v == "swap":
            t = Adapter(i=[("p", w), ("q", w + 1)], o=[("r", w), ("s", w + 1)])
            d = MethodMap.create(t.iface, i_transform=([("u", w + 1), ("v", w)], lambda m, arg: {"p": arg.v, "q": arg.u}),
                                 o_transform=([("s2", w + 1), ("r2", w)], lambda m, res: {"s2": res.s, "r2": res.r}))
            return Harness(d, {"m": d.method}, mocks={"t": t})
        if v == "meth":
            t = Adapter(i=[("x", w)], o=[("y", w)])
            f = Adapter(i=[("a", w)], o=[("x", w)])
            g = Adapter(i=[("y", w)], o=[("z", w)])
            d = MethodMap.create(t.iface, i_transform=([("a", w)], f.iface), o_transform=([("z", w)], g.iface))
            return Harness(d, {"m": d.method}, mocks={"t": t, "f": f, "g": g})
    if k == "filter":
        t = Adapter(i=[("d", w)], o=[("r", w)])
        default = None if cfg["default"] == "none" else {"r": ((1 << w) - 1) & ~1 if w > 1 else 1}
        mocks = {"t": t}
        if cfg["cond"] == "meth":
            c = Adapter(i=[("d", w)], o=[("ok", 1)])
            mocks["c"] = c
            cond = c.iface
        elif cfg["cond"] == "fnw":
            cond = lambda m, arg: arg.d  # multi-bit condition value: non-zero is true (Amaranth/`m.If` semantics)
        else:
            cond = lambda m, arg: arg.d[0]
        d = MethodFilter.create(t.iface, cond, default, use_condition=cfg["use_condition"])
        return Harness(d, {"m": d.method}, mocks=mocks)
    if k == "product":
        ts = [Adapter(i=[("d", w)], o=[("r", w)]) for _ in range(cfg["nt"])]
        comb = None
        if cfg["combiner"] == "xor":
            def xor(m, res):
                acc = Const(0, w)
                for r in res:
                    acc = acc ^ r.r
                return {"x": acc}
            comb = ([("x", w)], xor)
        d = MethodProduct.create([t.iface for t in ts], comb)
        return Harness(d, {"m": d.method}, mocks={f"t{i}": t for i, t in enumerate(ts)})
    if k == "tryproduct":
        nt = cfg["nt"]
        ts = [Adapter(i=[("d", w)], o=[("r", w)]) for _ in range(nt)]
        comb = None
        if cfg["combiner"] == "okres":
            comb = ([("ok", nt), ("res", nt * w)], lambda m, res: {"ok": Cat(s for s, _ in res), "res": Cat(r.r for _, r in res)})
        d = MethodTryProduct.create([t.iface for t in ts], comb)
        if cfg.get("contend"):
            # target 0 is also called by an independent transaction: the product's call of it can lose arbitration
            from amaranth import Elaboratable, Signal
            from transactron import TModule, Transaction

            class Contend(Elaboratable):
                def __init__(self):
                    self.tp = d
                    self.dreq, self.darg, self.drun = Signal(name="dreq"), Signal(w, name="darg"), Signal(name="drun")

                def elaborate(self, platform):
                    m = TModule()
                    m.submodules.tp = self.tp
                    with Transaction(name="direct").body(m, ready=self.dreq):
                        m.d.comb += self.drun.eq(1)
                        ts[0].iface(m, d=self.darg)
                    return m

            c = Contend()
            return Harness(c, {"m": d.method}, mocks={f"t{i}": t for i, t in enumerate(ts)}, inputs={"dreq": c.dreq, "darg": c.darg},
                           observe=lambda c: {"drun": c.drun})
        return Harness(d, {"m": d.method}, mocks={f"t{i}": t for i, t in enumerate(ts)})
    if k == "nonexcl":
        t = Adapter(i=[("d", w)], o=[("r", w)])
        d = NonexclusiveWrapper.create(t.iface)
        return Harness(d, {f"m{i}": d.method for i in range(cfg["callers"])}, mocks={"t": t})
    if k == "collector":
        ts = [Adapter(o=[("r", w)]) for _ in range(cfg["nt"])]
        d = Collector.create([t.iface for t in ts])
        return Harness(d, {"m": d.method}, mocks={f"t{i}": t for i, t in enumerate(ts)})
    raise ValueError(k)


def configs(tier, seed):
    q = tier == "quick"
    out = []
    ws = (2,) if q else (1, 2, 3)
    for w in ws:
        out.append(dict(kind="connecttrans", w=w, w2=w))
        out.append(dict(kind="connecttrans", w=w, w2=0))
        for n1, n2 in ((1, 2), (2, 2)) if q else ((1, 2), (2, 1), (2, 2), (2, 3), (3, 3)):
            if n1 * n2 >= 9 and w != 2:
                continue
            out.append(dict(kind="crossbar", w=w, n1=n1, n2=n2))
        for v in ("id", "inc", "swap", "meth"):
            out.append(dict(kind="map", w=w, variant=v))
        for uc in (False, True):
            for df in ("none", "const"):
                out.append(dict(kind="filter", w=w, use_condition=uc, cond="fn", default=df))
        out.append(dict(kind="filter", w=w, use_condition=False, cond="meth", default="const"))
        if w > 1:
            out.append(dict(kind="filter", w=w, use_condition=False, cond="fnw", default="const"))
        for nt in (1, 2, 3) if q else (1, 2, 3, 4):
            for cb in ("default", "xor"):
                out.append(dict(kind="product", w=w, nt=nt, combiner=cb))
            for cb in ("default", "okres"):
                out.append(dict(kind="tryproduct", w=w, nt=nt, combiner=cb))
            if nt == 2:
                out.append(dict(kind="tryproduct", w=w, nt=nt, combiner="okres", contend=True))
        for nc in (1, 2) if q else (1, 2, 3):
            out.append(dict(kind="nonexcl", w=w, callers=nc))
    if q:
        for nt in (1, 2, 3):
            out.append(dict(kind="collector", w=2, nt=nt, K=6))
    else:
        for nt in (1, 2, 3, 4):
            for w in (1, 3):
                out.append(dict(kind="collector", w=w, nt=nt, K=10))
    # sequential configs first: they get the co-simulation runs (ctx.index < 3)
    out.sort(key=lambda c: c["kind"] != "collector")
    return out


# ------------------------------------------------------------------------------------------------ one-cycle specs
def _matchings(n1, n2):
    """all partial matchings between range(n1) and range(n2) as lists of pairs."""
    out = []
    for k in range(min(n1, n2) + 1):
        for rows in itertools.combinations(range(n1), k):
            for cols in itertools.permutations(range(n2), k):
                out.append(list(zip(rows, cols)))
    return out


def spec_onecycle(cfg, o):
    """-> (obligations, witnesses) for the stateless components."""
    k = cfg["kind"]
    w = cfg["w"]
    ob, wit = [], {}
    if k == "connecttrans":
        run = z3.And(o.en("a"), o.en("b"))
        ob += [("method1 is called exactly when both methods are ready", o.done("a") == run),
               ("method2 is called exactly when both methods are ready", o.done("b") == run),
               ("the result of method2 is the argument of method1", z3.Implies(o.done("a"), o.out("a") == o.arg("b")))]
        if cfg["w2"]:
            ob.append(("the result of method1 is the argument of method2", z3.Implies(o.done("b"), o.out("b") == o.arg("a"))))
        wit["transfer"] = o.done("a")
        wit["blocked by one side"] = z3.And(o.en("a"), z3.Not(o.done("a")))
    elif k == "crossbar":
        n1, n2 = cfg["n1"], cfg["n2"]
        A = [f"a{i}" for i in range(n1)]
        Bn = [f"b{j}" for j in range(n2)]
        for n in A + Bn:
            ob.append((f"{n} is called only when ready", z3.Implies(o.done(n), o.en(n))))
        # the set of calls and the data are explained by a set of ConnectTrans transactions no two of which share a method
        alts = []
        for mt in _matchings(n1, n2):
            c = []
            for i in range(n1):
                c.append(o.done(A[i]) if any(i == p for p, _ in mt) else z3.Not(o.done(A[i])))
            for j in range(n2):
                c.append(o.done(Bn[j]) if any(j == p for _, p in mt) else z3.Not(o.done(Bn[j])))
            for i, j in mt:
                c += [o.out(A[i]) == o.arg(Bn[j]), o.out(Bn[j]) == o.arg(A[i])]
            alts.append(z3.And(*c))
        ob.append(("calls and data are those of a set of pairwise method-disjoint ConnectTrans transfers", z3.Or(*alts)))
        for i in range(n1):
            for j in range(n2):
                ob.append((f"pair ({A[i]},{Bn[j]}) ready => at least one of the two is called (transfer exactly when both can run)",
                           z3.Implies(z3.And(o.en(A[i]), o.en(Bn[j])), z3.Or(o.done(A[i]), o.done(Bn[j])))))
        wit["transfer"] = o.done("a0")
        if min(n1, n2) > 1:
            wit["two transfers in one cycle"] = z3.And(o.done("a0"), o.done("a1"))
        if n2 > 1:
            wit["a0 transfers with b1 (b0 not called)"] = z3.And(o.done("a0"), o.done("b1"), z3.Not(o.done("b0")))
            wit["both partners of a0 ready, exactly one of them is called"] = z3.And(o.en("b0"), o.en("b1"), o.done("a0"), *([z3.Not(o.en("a1"))] if n1 > 1 else []))
    elif k == "map":
        v = cfg["variant"]
        names = ["t"] + (["f", "g"] if v == "meth" else [])
        run = z3.And(o.en("m"), *[o.en(n) for n in names])
        ob.append(("method runs exactly when called and every used method is ready", o.done("m") == run))
        for n in names:
            ob.append((f"{n} is called exactly when the method runs", o.done(n) == o.done("m")))
        if v == "id":
            ob += [("argument passed unmodified", z3.Implies(o.done("m"), o.out("t") == o.arg("m"))),
                   ("result passed unmodified", z3.Implies(o.done("m"), o.out("m") == o.arg("t")))]
        elif v == "inc":
            ob += [("target receives i_transform(argument) = a+1", z3.Implies(o.done("m"), o.out("t", "x") == o.arg("m", "a") + 1)),
                   ("caller receives o_transform(result) = ~y", z3.Implies(o.done("m"), o.out("m", "z") == ~o.arg("t", "y")))]
        elif v == "swap":
            ob += [("target receives swapped fields", z3.Implies(o.done("m"), z3.And(o.out("t", "p") == o.arg("m", "v"), o.out("t", "q") == o.arg("m", "u")))),
                   ("caller receives swapped result fields", z3.Implies(o.done("m"), z3.And(o.out("m", "s2") == o.arg("t", "s"), o.out("m", "r2") == o.arg("t", "r"))))]
        else:
            ob += [("input mapping method receives the argument", z3.Implies(o.done("m"), o.out("f") == o.arg("m"))),
                   ("target receives the result of the input mapping method", z3.Implies(o.done("m"), o.out("t") == o.arg("f"))),
                   ("output mapping method receives the target's result", z3.Implies(o.done("m"), o.out("g") == o.arg("t"))),
                   ("caller receives the result of the output mapping method", z3.Implies(o.done("m"), o.out("m") == o.arg("g")))]
        wit["call goes through"] = o.done("m")
        wit["blocked by the target"] = z3.And(o.en("m"), z3.Not(o.done("m")))
    elif k == "filter":
        meth = cfg["cond"] == "meth"
        cond = (o.arg("c") != 0) if meth else ((o.arg("m") != 0) if cfg["cond"] == "fnw" else bit(o.arg("m"), 0))
        dflt = z3.BitVecVal(0 if cfg["default"] == "none" else (((1 << w) - 1) & ~1 if w > 1 else 1), w)
        if cfg["use_condition"]:
            ob.append(("method runs iff called and (condition false or target ready): not blocked by the target when the condition is false",
                       o.done("m") == z3.And(o.en("m"), z3.Or(z3.Not(cond), o.en("t")))))
        elif meth:
            ob.append(("method runs iff called, condition method ready and target ready", o.done("m") == z3.And(o.en("m"), o.en("t"), o.en("c"))))
            ob.append(("condition method is called with the argument whenever the method runs", z3.And(o.done("c") == o.done("m"), z3.Implies(o.done("c"), o.out("c") == o.arg("m")))))
        else:
            ob.append(("method runs iff called and target ready (target is locked)", o.done("m") == z3.And(o.en("m"), o.en("t"))))
        ob += [("target is called exactly when the method runs and the condition holds", o.done("t") == z3.And(o.done("m"), cond)),
               ("target receives the argument", z3.Implies(o.done("t"), o.out("t") == o.arg("m"))),
               ("result is the target's result when the condition holds, the default otherwise", z3.Implies(o.done("m"), o.out("m") == z3.If(cond, o.arg("t"), dflt)))]
        wit["condition false, method runs, target not called"] = z3.And(o.done("m"), z3.Not(cond), z3.Not(o.done("t")))
        wit["condition true, target called"] = o.done("t")
        if cfg["use_condition"]:
            wit["condition false and target not ready, method runs"] = z3.And(o.done("m"), z3.Not(o.en("t")))
            wit["condition true and target not ready, method blocked"] = z3.And(o.en("m"), cond, z3.Not(o.en("t")), z3.Not(o.done("m")))
    elif k == "product":
        nt = cfg["nt"]
        T = [f"t{i}" for i in range(nt)]
        ob.append(("method runs iff called and all targets ready", o.done("m") == z3.And(o.en("m"), *[o.en(t) for t in T])))
        for t in T:
            ob.append((f"{t} is called exactly when the method runs", o.done(t) == o.done("m")))
            ob.append((f"{t} receives the argument", z3.Implies(o.done("m"), o.out(t) == o.arg("m"))))
        if cfg["combiner"] == "default":
            exp = o.arg("t0")
        else:
            exp = o.arg("t0")
            for t in T[1:]:
                exp = exp ^ o.arg(t)
        ob.append((f"result = combiner({cfg['combiner']}) of the targets' results", z3.Implies(o.done("m"), o.out("m") == exp)))
        wit["call goes through"] = o.done("m")
        wit["blocked by the last target only"] = z3.And(o.en("m"), *[o.en(t) for t in T[:-1]], z3.Not(o.done("m")))
    elif k == "tryproduct":
        nt = cfg["nt"]
        T = [f"t{i}" for i in range(nt)]
        ob.append(("method runs whenever called (never blocked by targets)", o.done("m") == o.en("m")))
        drun = (o.sig("drun") == 1) if cfg.get("contend") else z3.BoolVal(False)
        for i, t in enumerate(T):
            byprod = z3.And(o.done(t), z3.Not(drun)) if i == 0 else o.done(t)  # called on behalf of the product (not by the competitor)
            if cfg.get("contend") and i == 0:
                ob.append((f"{t} is called iff it is ready and the product method or the competing transaction calls it",
                           z3.And(z3.Implies(o.done(t), o.en(t)), z3.Implies(z3.And(o.en(t), o.done("m")), o.done(t)))))
                ob.append((f"{t} receives the argument of whoever called it", z3.Implies(o.done(t), o.out(t) == z3.If(drun, o.sig("darg"), o.arg("m")))))
                ob.append(("the competing transaction runs only when it requests and the target is ready", z3.Implies(drun, z3.And(o.sig("dreq") == 1, o.en(t)))))
            else:
                ob.append((f"{t} is called iff the method runs and {t} is ready", o.done(t) == z3.And(o.done("m"), o.en(t))))
                ob.append((f"{t} receives the argument", z3.Implies(o.done(t), o.out(t) == o.arg("m"))))
            if cfg["combiner"] == "okres":
                ob.append((f"success bit {i} reports whether {t} was called on behalf of the product", z3.Implies(o.done("m"), bit(o.out("m", "ok"), i) == byprod)))
                ob.append((f"combiner sees the result of {t}", z3.Implies(o.done(t), z3.Extract((i + 1) * w - 1, i * w, o.out("m", "res")) == o.arg(t))))
        if cfg.get("contend"):
            wit["target 0 ready but taken by the competing transaction while the product runs"] = z3.And(o.done("m"), drun, o.en("t0"))
        wit["no target ready, method still runs"] = z3.And(o.done("m"), *[z3.Not(o.en(t)) for t in T])
        wit["all targets called"] = z3.And(*[o.done(t) for t in T])
        if nt > 1:
            wit["exactly the ready subset is called"] = z3.And(o.done("t0"), z3.Not(o.done(T[-1])), o.done("m"))
    elif k == "nonexcl":
        C = [f"m{i}" for i in range(cfg["callers"])]
        for c in C:
            ob.append((f"caller {c} gets through iff the target is ready (callers do not exclude each other)", o.done(c) == z3.And(o.en(c), o.en("t"))))
            ob.append((f"caller {c} receives the target's result", z3.Implies(o.done(c), o.out(c) == o.arg("t"))))
            lone = z3.And(o.done(c), *[z3.Not(o.done(x)) for x in C if x != c])
            ob.append((f"a single caller {c}: the target receives its argument", z3.Implies(lone, o.out("t") == o.arg(c))))
        ob.append(("target is called iff some caller runs", o.done("t") == z3.Or(*[o.done(c) for c in C])))
        wit["forwarded call"] = o.done("m0")
        if len(C) > 1:
            wit["two callers in one cycle"] = z3.And(o.done("m0"), o.done("m1"))
    else:
        raise ValueError(k)
    return ob, wit


# ------------------------------------------------------------------------------------------------ Collector (BMC)
def collector_step(cfg):
    nt, w = cfg["nt"], cfg["w"]
    T = [f"t{i}" for i in range(nt)]

    def step(model, o, t):
        full, val = model
        td = [o.done(x) for x in T]
        anyt = z3.Or(*td)
        tv = z3.BitVecVal(0, w)
        for x, dn in zip(T, td):
            tv = z3.If(dn, o.arg(x), tv)
        ob = [("at most one target result is taken per cycle", atmost1(td))]
        for x, dn in zip(T, td):
            ob.append((f"{x} is called only when ready", z3.Implies(dn, o.en(x))))
        ob += [("no result is taken while an undelivered result is buffered (nothing is lost)", z3.Implies(anyt, z3.Not(full))),
               ("a ready target is taken when nothing is buffered", z3.Implies(z3.And(z3.Not(full), z3.Or(*[o.en(x) for x in T])), anyt)),
               ("method delivers iff called and a result is buffered or being taken", o.done("m") == z3.And(o.en("m"), z3.Or(full, anyt))),
               ("delivered value is the oldest undelivered result", z3.Implies(o.done("m"), o.out("m") == z3.If(full, val, tv)))]
        f2 = z3.And(z3.Or(full, anyt), z3.Not(o.done("m")))
        wit = {"a result is buffered (taken, not delivered)": z3.And(anyt, z3.Not(o.done("m"))),
               "a result is forwarded in the cycle it is taken": z3.And(anyt, o.done("m"), z3.Not(full)),
               "buffered result delivered while a target is ready and must wait": z3.And(full, o.done("m"), o.en("t0"))}
        if nt > 1:
            wit["two targets ready, one taken"] = z3.And(o.en("t0"), o.en("t1"), anyt)
            wit["last target taken"] = td[-1]
        return ob, [], (f2, z3.If(anyt, tv, val)), wit

    return step


def _tag(cfg):
    return " ".join(f"{k}={v}" for k, v in cfg.items())


def _prove(ctx, name, goal, u, tries=6):
    """ctx.prove with re-tried replay.  The TransactionManager builds merged transactions by iterating over Python sets of
    bodies (hashed by id), so the priority among conflicting merged transactions may differ between the elaboration that was
    encoded and the fresh elaboration used for replay.  A counterexample counts only if some fresh elaboration reproduces
    every observed signal on amaranth.sim; a mismatch on all tries stays a harness error."""
    for k in range(tries):
        ne, nq = len(ctx.errors), len(ctx.queries)
        r = ctx.prove(name, [], goal, u)
        if r is None and k + 1 < tries and len(ctx.errors) > ne and "replay mismatch" in ctx.errors[-1]:
            del ctx.errors[ne:]
            del ctx.queries[nq:]
            ctx.notes["replay_retries"] = ctx.notes.get("replay_retries", 0) + 1
            continue
        return r


def run(cfg, ctx):
    b = Built(lambda: make(cfg), trace_functions=(ctx.index == 0 or cfg["kind"] != "collector" and cfg["w"] == 2 and cfg.get("nt", 2) == 2))
    ctx.functions = b.functions
    tag = _tag(cfg)
    if cfg["kind"] == "collector":
        init = lambda h: (z3.BoolVal(False), z3.BitVecVal(0, cfg["w"]))
        bmc(ctx, f"Collector vs one-slot buffer ({tag})", b, cfg["K"], collector_step(cfg), init, cosim_k=12 if ctx.index < 3 else 0)
        return
    u = Unroll(b, free_init=True)
    o = u.cycle()
    ctx.frames += 1
    ob, wit = spec_onecycle(cfg, o)
    for k, c in wit.items():
        ctx.witness(f"{tag}: {k}", [c])
    for lab, c in ob:
        _prove(ctx, f"{tag}: {lab}", c, u)


# ------------------------------------------------------------------------------------------------ canaries
def _patch_method(cls, old, new, modname):
    import importlib
    import inspect
    import textwrap

    if getattr(cls, "_verif_patched", False):  # the driver applies the canary once per task, workers run several tasks
        return
    mod = importlib.import_module(modname)
    src = textwrap.dedent(inspect.getsource(cls.elaborate))
    assert old in src, f"canary pattern not found: {old}"
    ns = {}
    exec(src.replace(old, new), mod.__dict__, ns)
    cls.elaborate = ns["elaborate"]
    cls._verif_patched = True


def _canary_tryproduct_success():
    # MethodTryProduct reports success although the target was not called
    import transactron.lib.transformers as T

    _patch_method(T.MethodTryProduct, "m.d.comb += success.eq(1)", "m.d.top_comb += success.eq(1)", "transactron.lib.transformers")


def _canary_filter_locks_target():
    # MethodFilter(use_condition=True) falls back to m.If: blocked by the target even when the condition is false
    import transactron.lib.transformers as T

    _patch_method(T.MethodFilter, "if self.use_condition:", "if False:", "transactron.lib.transformers")


def _canary_crossbar_first_only():
    # CrossbarConnectTrans connects every method of the first set only to methods2[0]
    import transactron.lib.connectors as C

    _patch_method(C.CrossbarConnectTrans, "ConnectTrans.create(method1, method2, src_loc=self.src_loc)",
                  "ConnectTrans.create(method1, self.methods2[0], src_loc=self.src_loc)", "transactron.lib.connectors")


CANARIES = [("MethodTryProduct success bit constant 1", _canary_tryproduct_success),
            ("MethodFilter(use_condition=True) blocks on the target", _canary_filter_locks_target),
            ("CrossbarConnectTrans connects only to methods2[0]", _canary_crossbar_first_only)]
