"""C08 conflict priorities on generated designs with prioritised add_conflict (between transactions, lifted from methods, transaction-vs-method) combined with other conflicts and schedule_before chains; eager scheduler (vf/core.py C08 obligations)."""
from ._core_common import *  # noqa

PROP = "C08"
SCHEDULERS = ("eager",)
OPTS = dict(multi=True, p_single_group=0.3, alias=True, combiner=False, fsm=True, nested_methods=False, p_fresh=0.97, p_conflict=0.7, n_tconflict=2, p_mconflict=0.7, n_mconflict=3, p_tm_conflict=0.3, mprio=True, p_before=0.4, min_tr=2, nleaf=(2, 4))
BOUNDS = {"quick": "fixed relation family (61 designs: cross-module add_conflict in same-position alternatives of If/Switch/FSM, prioritised method conflicts lifted over an exclusive caller pair, bodies with two ready-dependency sources) + 50 batches x 12 random designs with prioritised conflicts and schedule_before", "thorough": "1600 batches x 25 designs"}
OUTSIDE = OUTSIDE_COMMON
ASSUMES = ASSUMES_COMMON


def configs(tier, seed):
    return systematic_configs(SCHEDULERS, family="relations") + batch_configs(tier, seed, 50, 1600, 12 if tier == "quick" else 25, OPTS, SCHEDULERS)


def run(cfg, ctx):
    run_batch(cfg, ctx, {PROP})
