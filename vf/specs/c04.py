"""C04 on generated designs: see vf/core.py (obligations) and vf/designgen.py (design grammar + oracle)."""
from ._core_common import *  # noqa

PROP = "C04"
SCHEDULERS = ("eager", "rr")
OPTS = dict(multi=True, p_single_group=0.3, alias=True, combiner=True, fsm=True, nested_methods=True, p_fresh=0.96)
BOUNDS = {"quick": "5 designs with a transaction and a method nested in a body that never runs (uncalled method, condition() branch of an uncalled method, uncalled Connect side, also down a chain; one control design) + exhaustive small family (2 transactions x call through {direct, alias, nonexclusive method, exclusive method, enable_call} in If/Else alternatives: 93 designs, plus 42 designs with two non-exclusive call sites of one exclusive method through the same / different Method objects) + 40 batches x 12 random designs (<=3 transactions + nested, <=5 methods, If/Elif/Else, sibling If, Switch, FSM, enable_call, aliases, combiners, nested bodies), "
                   "both schedulers where applicable; per design all inputs and all register states",
          "thorough": "1600 batches x 25 random designs, VERIF_SEED-seeded"}
OUTSIDE = OUTSIDE_COMMON
ASSUMES = ASSUMES_COMMON


def configs(tier, seed):
    # plus the "deep" condition() family of C12: branches are nested transactions of their enclosing body, so
    # "a nested body / its callees run only with the enclosing body" is this property as well
    from . import c12

    return [dict(dropped=v) for v in DROPPED] + systematic_configs(SCHEDULERS) + c12.deep_configs(tier) + batch_configs(tier, seed, 40, 1600, 12 if tier == "quick" else 25, OPTS, SCHEDULERS)


DROPPED = ["uncalled-condition", "uncalled-connect-side", "uncalled-connect-side-chain", "uncalled-method", "called (control)"]


def _make_dropped(variant):
    """bodies nested in a body that never runs: a plain nested transaction (calling a target method) and a nested method (called by an
    independent transaction) inside (a) a branch of a condition() in a method nobody calls, (b) a transaction that calls Connect.write
    while nobody calls Connect.read, (c) the same two Connects down a chain, (d) a method nobody calls, (e) control: everything called."""
    from amaranth import Elaboratable, Signal
    from transactron import TModule, Transaction, Method, def_method
    from transactron.lib import Connect
    from transactron.lib.simultaneous import condition
    from ..harness import Harness

    class D(Elaboratable):
        def __init__(self):
            self.req, self.req_u = Signal(name="req"), Signal(name="req_u")
            self.o = {n: Signal(name="o_" + n) for n in ("encl", "nested", "target", "nmeth", "user")}

        def elaborate(self, platform):
            m = TModule()
            keep = Signal(name="_keep_sync")
            m.d.sync += keep.eq(1)
            target, nmeth = Method(name="target"), Method(name="nmeth")

            @def_method(m, target)
            def _():
                m.d.comb += self.o["target"].eq(1)

            def inner():  # what is nested in the enclosing body
                m.d.comb += self.o["encl"].eq(1)
                with (t := Transaction(name="nested")).body(m, ready=self.req):
                    target(m)
                m.d.top_comb += self.o["nested"].eq(t.run)

                @def_method(m, nmeth)
                def _():
                    m.d.comb += self.o["nmeth"].eq(1)

            if variant in ("uncalled-condition", "uncalled-method", "called (control)"):
                holder = Method(name="holder")

                @def_method(m, holder)
                def _():
                    if variant == "uncalled-condition":
                        with condition(m, nonblocking=True) as branch:
                            with branch(True):
                                inner()
                    else:
                        inner()

                if variant == "called (control)":
                    with Transaction(name="caller").body(m):
                        holder(m)
            else:
                n = 2 if variant.endswith("chain") else 1
                cs = [Connect([("d", 2)]) for _ in range(n)]
                for i, c in enumerate(cs):
                    m.submodules[f"c{i}"] = c
                for i in range(n):
                    with Transaction(name=f"T{i}").body(m):
                        if i > 0:
                            cs[i - 1].read(m)
                        cs[i].write(m, d=1)
                        if i == n - 1:
                            inner()
            with Transaction(name="user").body(m, ready=self.req_u):
                m.d.comb += self.o["user"].eq(1)
                nmeth(m)
            return m

    d = D()
    return Harness(d, {}, inputs=dict(req=d.req, req_u=d.req_u), observe=lambda d: dict(d.o))


def _run_dropped(cfg, ctx):
    import z3
    from ..harness import Built
    from ..seq import Unroll

    v = cfg["dropped"]
    b = Built(lambda: _make_dropped(v))
    u = Unroll(b, free_init=True)
    o = u.cycle()
    ctx.frames += 1
    B = lambda n: o.sig(n) == 1
    tag = f"bodies nested in a body that never runs [{v}]: "
    if v == "called (control)":
        ctx.witness(tag + "the nested transaction and the nested method run", [B("nested"), B("nmeth")])
        ctx.prove(tag + "the enclosing body runs in this control design", [], B("encl"), u)
    else:
        ctx.prove(tag + "the enclosing body never runs (nobody calls it / its simultaneous partner)", [], z3.Not(B("encl")), u)
    ctx.prove(tag + "C04 a nested transaction runs only with its enclosing body", [], z3.Implies(B("nested"), B("encl")), u)
    ctx.prove(tag + "C04 the method called by the nested transaction runs only with it", [], B("target") == B("nested"), u)
    ctx.prove(tag + "C04 a method defined inside the body runs only with the enclosing body", [], z3.Implies(B("nmeth"), B("encl")), u)
    ctx.prove(tag + "the caller of the nested method runs only if that method runs", [], z3.Implies(B("user"), B("nmeth")), u)


def run(cfg, ctx):
    if "dropped" in cfg:
        return _run_dropped(cfg, ctx)
    if cfg.get("deep"):
        from . import c12

        return c12.run_deep(cfg, ctx)
    run_batch(cfg, ctx, {PROP})


def classify(v):
    from . import c12

    return c12.classify(v)
