"""C43: testbench helpers call methods exactly once (TestbenchIO.call / call_try / call_result / call_do, CallTrigger, the MethodMock processes).

Four parts, joined by the equation `done_t = en_t & ready_t`:

(a) Python half (E4).  The REAL coroutines `TestbenchIO.call`, `call_try`, `call_result`, `call_init`+`call_do`,
    `get_call_result`, `CallTrigger.__await__ / until_done / until_all_done` run on top of the REAL
    `amaranth.sim` `TestbenchContext`, `TickTrigger` and `TriggerCombination` classes; only the simulation ENGINE
    underneath is a stub that implements the documented contract: `set` takes effect at once, awaiting a tick ends
    the current clock cycle and returns the values the sampled expressions had in that cycle.  The stub world holds,
    per called method, a symbolic readiness history `ready_t` (effective readiness: the method is ready and the
    adapter's transaction is granted), symbolic outputs `out_t` for <= 4 cycles and sets `done_t = en_t & ready_t`.
    `pysym` forks on every `if done:` of the real code, so all readiness histories are explored.  Asserted, per
    path, by a solver query under the path condition: `call` returns `out_d` for the FIRST cycle d with `ready_d`;
    `en` was high in exactly the cycles 0..d and is low in all later cycles, `sum_t (en_t & ready_t) == 1` (exactly one
    executed call), `data_in` carried the given arguments in all those cycles; `call_try` returns None iff the method
    did not run in its single cycle (and enables for exactly that cycle); `call_result` / `CallTrigger.sample(tbio)` never
    touch `en`; multi-call triggers return the results in the order of the calls.  When the method never becomes
    ready within the bound, `call` is still pending with `en` high in every cycle.
(b) Hardware half (E1), proved on the netlist of the real `AdapterTrans` / `Adapter` for all inputs:
    `AdapterTrans`: `done == en & ready(method)`, `done <=> the method runs`, `done => data_out == the method's
    result and the method sees data_in`.  `Adapter` (the hardware under a `MethodMock`): `done <=> the method runs
    <=> en & caller requests (& validator result)`, `done => data_out == the caller's argument`, and the caller's
    result equals the adapter's `data_in` in the same cycle (also for two simultaneous callers of a nonexclusive mock).

(c) `MethodMock.effect_process` IN ISOLATION (E4).  A real `MethodMock` around a real `Adapter` is built and its REAL
    `effect_process` coroutine runs on the same stub engine for 4 clock cycles with a symbolic `done_t = en_t & called_t`
    per edge.  At the end of every cycle the harness registers 0..2 recording closures through the real
    `MethodMock.effect` (what `output_process` does when it evaluates the mocked function) and sets `_freeze` (what
    `output_process` does at the edge).  Asserted per path: the closures pending at edge t are executed - once each,
    in registration order, before the next edge - iff `done_t`, and never later; after the iteration `_effects` is empty
    and `_freeze` is False; `en` is lowered at the edge and set to the next `enable()` result only after
    `sim.delay(self.delay)`; the process awaits nothing but clock ticks and that delay and never finishes.

(d) ALL THREE `MethodMock` processes together (E4).  The REAL `output_process`, `validate_arguments_process` (optional) and
    `effect_process` coroutines of one real mock run over a stub of amaranth.sim's scheduler (order of events after
    `PySimEngine.advance` / `step_design` / `_PyTriggerState`: processes to convergence before testbenches, pre-edge values at the
    edge, next-cycle values of the caller visible right after the edge while `en` is still up, testbench `set` commits at once).
    The caller's request and 3-bit argument are symbolic per cycle and per combinational phase.  Asserted per path: `done` at the
    edge <=> enabled & requested & validated; exactly one effect is applied iff the method executed on that edge and it is the
    effect registered for the EXECUTED call's argument (not for an earlier phase, not for the values that appear after the edge);
    the value on `data_in` at the edge is the mocked function of that argument; the validator answer at the edge belongs to that
    argument.  The stub is validated in every run against the real simulator (same mock, hardware caller fed from registers, random
    traces): executed cycles, applied effects and returned values must coincide, otherwise the check ends with a harness error.
"""
import z3

from ..harness import Harness, Built
from ..seq import Unroll, cosim
from ..pysym import Engine, SInt, Unsupported

PROP = "C43"
LEVEL = "model_checking"
ENGINES = ["E4 pysym", "E1 nir2smt"]
TECHNIQUE = ("symbolic execution of the real testbench coroutines over the real amaranth.sim trigger classes on a stub engine with a symbolic "
             "readiness history (all fork outcomes explored, one validity query per path); SMT on the netlist of AdapterTrans / Adapter")
BOUNDS = {
    "quick": "readiness histories of 4 cycles (all 2^4, plus symbolic outputs) for call / call_do, 2 for call_try / call_result / get_call_result; "
             "CallTrigger with two calls + a sampled signal + a sampled (not called) method over 1 cycle, until_done / until_all_done with two calls "
             "over 3 cycles; output layouts: none, 2 bits, struct {2,1}; MethodMock.effect_process: 4 cycles, all done histories, 2 effect-count patterns x 3 enable() "
             "patterns x delay {0, 1 ns}; netlist: argument / result widths 1..2, Adapter plain / validate_arguments / nonexclusive with 2 callers; all three mock processes: 3 cycles x 1 phase and 2 cycles x 2 phases, "
             "3 enable() patterns, with / without validate_arguments, symbolic request and 3-bit argument per phase",
    "thorough": "readiness histories of 6 cycles (call / call_do), until_done / until_all_done over 4 cycles, two argument values per scenario; effect_process: 4 effect-count patterns x all 32 enable() patterns x 2 delays; "
                "netlist widths 1..4; all three mock processes: up to 4 cycles x 1 phase, 3 cycles x 2 phases, 5 enable() patterns, 2 delays",
}
OUTSIDE = ["the co-operation of the three MethodMock processes is decided on a STUB of amaranth.sim's scheduler (part (d)); schedules the stub does not produce are "
           "outside: more than two combinational phases per cycle, other testbenches changing the caller's inputs between the mock lowering and raising `en`, "
           "several mocks whose effects feed each other's enable(), BrokenTrigger",
           "def_method_mock discovery, async_mock_def_helper argument passing",
           "the real simulation engine (pysim): replaced by a stub engine implementing the documented contract of set / get / tick().sample()",
           "resets during a call (DomainReset), several testbenches driving the same adapter, BrokenTrigger",
           "readiness histories longer than the bound (the loop body is the same in every iteration, but this is not an inductive proof)",
           "adapters whose transaction competes with other callers: then `ready_t` means 'method ready and this adapter granted'"]
ASSUMES = ["stub engine: set_value takes effect immediately; awaiting a tick trigger returns (clk hit, no reset, values of the sampled expressions in the "
           "cycle that ends at this edge) and starts the next cycle; signals keep their value until set again",
           "stub world: done_t = en_t & ready_t and data_out_t = out_t with ready_t, out_t unconstrained symbolic per cycle (the equation is what half (b) proves "
           "on the AdapterTrans netlist with the method as only caller)",
           "sampled struct values are stand-ins for amaranth.lib.data.Const: field f = bits [offset, offset+width) of the sampled bit pattern",
           "no reset during the test; nobody else drives `en` of a called adapter; for call_result / sample(tbio) `en` is driven by another process (symbolic per cycle)",
           "coroutines are driven with send(None); the stub's awaitables never suspend",
           "effect_process scenario: `await sim.delay(x)` returns without a clock edge passing; the effect list found at edge t is what the harness registered during "
           "cycle t through MethodMock.effect (0..2 closures, fixed per configuration) and `_freeze` was set at the edge; enable() answers follow a fixed 0/1 "
           "pattern per configuration (real TestbenchContext.set needs concrete values); done_t = en_t & called_t with called_t symbolic",
           "mock_procs scenario (d): stub scheduler after PySimEngine.advance/step_design: processes woken by changed/edge triggers run to convergence before any "
           "testbench; an edge trigger delivers pre-edge values; after the edge the caller's next-cycle request/argument become visible while `en` is unchanged; "
           "TestbenchContext.set commits at once and runs the woken processes; a process's set commits after the delta cycle; wake-ups over-approximated (every event "
           "wakes every process); the mocked function has no side effect outside MethodMock.effect; the stub is co-simulated against the real amaranth.sim "
           "(hardware caller driven from registers) on random traces in every run; enable() follows a fixed pattern, validate_arguments rejects one argument value",
           "netlist half: single clock domain, FSM-free designs, every pin (ready, request, argument, result, validator answer) is a free input"]
TRUSTED = ["vf/pysym.py proxies and fork enumeration (path coverage is a solver query per scenario)", "amaranth.sim._async TickTrigger / TriggerCombination / "
           "TestbenchContext (real classes, executed)", "Amaranth 0.5 elaboration and NIR netlist construction", "vf/nir2smt.py translator (counterexamples replayed on amaranth.sim)", "z3 5.1.0"]
FUNCTIONS = ["transactron/testing/testbenchio.py:CallTrigger.__await__", "transactron/testing/testbenchio.py:CallTrigger.call", "transactron/testing/testbenchio.py:CallTrigger.sample",
             "transactron/testing/testbenchio.py:CallTrigger.until_done", "transactron/testing/testbenchio.py:CallTrigger.until_all_done",
             "transactron/testing/testbenchio.py:TestbenchIO.call", "transactron/testing/testbenchio.py:TestbenchIO.call_try", "transactron/testing/testbenchio.py:TestbenchIO.call_result",
             "transactron/testing/testbenchio.py:TestbenchIO.call_do", "transactron/testing/testbenchio.py:TestbenchIO.call_init", "transactron/testing/testbenchio.py:TestbenchIO.get_call_result",
             "transactron/testing/method_mock.py:MethodMock.effect_process", "transactron/testing/method_mock.py:MethodMock.effect",
             "transactron/testing/method_mock.py:MethodMock.output_process", "transactron/testing/method_mock.py:MethodMock.validate_arguments_process",
             "transactron/utils/transactron_helpers.py:async_mock_def_helper",
             "transactron/lib/adapters.py:AdapterTrans.elaborate", "transactron/lib/adapters.py:Adapter.elaborate"]
W = 24
LAYOUTS = {"none": [], "u2": [("y", 2)], "s21": [("a", 2), ("b", 1)]}


# ---------------------------------------------------------------------------------------------------------------------
# configurations
# ---------------------------------------------------------------------------------------------------------------------
def configs(tier, seed):
    out = []
    ws = (1, 2) if tier == "quick" else (1, 2, 3, 4)
    for iw in ws:
        for ow in ws:
            out.append(dict(mode="nl_trans", iw=iw, ow=ow))
            out.append(dict(mode="nl_adapter", iw=iw, ow=ow, variant="plain"))
            out.append(dict(mode="nl_adapter", iw=iw, ow=ow, variant="validate"))
        out.append(dict(mode="nl_adapter", iw=0, ow=iw, variant="nonexclusive"))
    K = 4 if tier == "quick" else 6
    argsets = [{"x": 5}] if tier == "quick" else [{"x": 5}, {"x": 0}]
    for lay in LAYOUTS:
        for args in argsets:
            for style in ("kw", "dict"):
                out.append(dict(mode="py", scen="call", K=K, lay=lay, args=args, style=style))
            out.append(dict(mode="py", scen="call_do", K=K, lay=lay, args=args))
            out.append(dict(mode="py", scen="call_try", K=2, lay=lay, args=args))
        out.append(dict(mode="py", scen="call_result", K=2, lay=lay))
        out.append(dict(mode="py", scen="get_call_result", K=2, lay=lay))
        out.append(dict(mode="py", scen="trigger", K=2, lay=lay, args=argsets[0]))
        for which in ("until_done", "until_all_done"):
            out.append(dict(mode="py", scen=which, K=3 if tier == "quick" else 4, lay=lay, args=argsets[0]))
    Ke = 4
    count_pats = [[2, 1, 0, 2], [1, 2, 2, 1]] + ([[0, 0, 1, 2], [2, 2, 2, 2]] if tier == "thorough" else [])
    if tier == "quick":
        en_pats = [[1, 1, 1, 1, 1], [1, 0, 1, 1, 0], [0, 1, 1, 0, 1]]
    else:
        en_pats = [[(v >> i) & 1 for i in range(Ke + 1)] for v in range(1 << (Ke + 1))]
    for counts in count_pats:
        for en in en_pats:
            for delay in (0, 1e-9):
                out.append(dict(mode="py", scen="effect_process", K=Ke, lay="none", counts=counts, enable=en, delay=delay))
    # (d) all three mock processes over the stub scheduler
    if tier == "quick":
        mp = [(3, 1, [1, 1, 1, 1]), (2, 2, [1, 1, 1]), (3, 1, [1, 0, 1, 1])]
    else:
        mp = [(3, 1, [1, 1, 1, 1]), (3, 2, [1, 1, 1, 1]), (2, 2, [1, 1, 1]), (3, 1, [1, 0, 1, 1]), (3, 1, [0, 1, 1, 0]), (4, 1, [1, 1, 0, 1, 1])]
    for Km, P, en in mp:
        for validate in (False, True):
            for delay in ((0,) if tier == "quick" else (0, 1e-9)):
                out.append(dict(mode="py", scen="mock_procs", K=Km, lay="none", phases=P, enable=en, delay=delay, validate=validate))
    return out


# ---------------------------------------------------------------------------------------------------------------------
# (b) netlist half
# ---------------------------------------------------------------------------------------------------------------------
def _lay(name, w):
    return [(name, w)] if w else []


def _make_trans(cfg):
    from amaranth import Elaboratable, Signal
    from transactron import TModule, Method, def_method

    iw, ow = cfg["iw"], cfg["ow"]

    class Provider(Elaboratable):
        def __init__(self):
            self.m = Method(i=_lay("x", iw), o=_lay("y", ow))
            self.rdy, self.outv, self.seen = Signal(name="rdy"), Signal(ow, name="outv"), Signal(iw, name="seen")

        def elaborate(self, platform):
            m = TModule()

            @def_method(m, self.m, ready=self.rdy)
            def _(x):
                m.d.comb += self.seen.eq(x)
                return {"y": self.outv}

            return m

    d = Provider()
    return Harness(d, provided=dict(m=d.m), inputs=dict(rdy=d.rdy, outv=d.outv), observe=lambda d: dict(seen=d.seen, mrun=d.m._body.run))


class _AdapterHarness(Harness):
    """Harness whose mock Adapter may create validator hooks during elaboration (they are inputs / observed signals)."""

    def _validators(self):
        return getattr(self.ad["mk"], "validators", [])

    def named_signals(self):
        from amaranth import Value

        out = super().named_signals()
        for i, (arg, ret) in enumerate(self._validators()):
            out[f"v{i}.ret"] = ret
            out[f"v{i}.arg"] = Value.cast(arg)
        return out

    def input_signals(self):
        out = super().input_signals()
        for i, (arg, ret) in enumerate(self._validators()):
            out[f"v{i}.ret"] = ret
        return out


def _make_adapter(cfg):
    from amaranth import Elaboratable, Signal
    from transactron import TModule, Transaction
    from transactron.lib import Adapter

    iw, ow, variant = cfg["iw"], cfg["ow"], cfg["variant"]
    ncall = 2 if variant == "nonexclusive" else 1
    kw = dict(nonexclusive=True) if variant == "nonexclusive" else {}
    ad = Adapter(name="mocked", i=_lay("x", iw), o=_lay("y", ow), **kw)
    if variant == "validate":
        ad.set(with_validate_arguments=True)  # what MethodMock.__init__ does when validate_arguments is given

    class Caller(Elaboratable):
        def __init__(self):
            self.req = [Signal(name=f"req{j}") for j in range(ncall)]
            self.arg = [Signal(iw, name=f"arg{j}") for j in range(ncall)]
            self.res = [Signal(ow, name=f"res{j}") for j in range(ncall)]
            self.ts = []

        def elaborate(self, platform):
            m = TModule()
            for j in range(ncall):
                with (t := Transaction(name=f"caller{j}")).body(m, ready=self.req[j]):
                    r = ad.iface(m, x=self.arg[j]) if iw else ad.iface(m)
                    m.d.comb += self.res[j].eq(r.y)
                self.ts.append(t)
            return m

    d = Caller()
    ins = {}
    for j in range(ncall):
        ins[f"req{j}"] = d.req[j]
        if iw:
            ins[f"arg{j}"] = d.arg[j]

    def observe(d):
        o = {"mrun": ad.iface._body.run}
        for j in range(ncall):
            o[f"res{j}"] = d.res[j]
            o[f"trun{j}"] = d.ts[j]._body.run
        return o

    return _AdapterHarness(d, mocks=dict(mk=ad), inputs=ins, observe=observe)


def _run_nl(cfg, ctx):
    make = (lambda: _make_trans(cfg)) if cfg["mode"] == "nl_trans" else (lambda: _make_adapter(cfg))
    b = Built(make, trace_functions=(ctx.index < 3))
    ctx.functions = b.functions
    if ctx.index < 6 and ctx.tier != "replay":  # translator validation: random trace through amaranth.sim and through the encoding
        pts, mism = cosim(b, 8, ctx.seed)
        ctx.cosim_points += pts
        ctx.cosim_traces += 1
        if mism:
            ctx.errors.append(f"cosim mismatch encoder vs pysim in cfg {cfg}: {mism[:4]}")
    u = Unroll(b, free_init=True)
    o = u.cycle()
    ctx.frames += 1
    bit = lambda n: o.sig(n) == 1
    if cfg["mode"] == "nl_trans":
        d = f"AdapterTrans(i={cfg['iw']} bits, o={cfg['ow']} bits)"
        ctx.witness(f"{d}: the call can succeed and can be refused", [o.done("m")])
        ctx.witness(f"{d}: enabled but not ready", [o.en("m"), z3.Not(bit("rdy"))])
        ctx.prove(f"{d}: done == en & ready", [], o.done("m") == z3.And(o.en("m"), bit("rdy")), u)
        ctx.prove(f"{d}: done <=> the method runs", [], o.done("m") == bit("mrun"), u)
        ctx.prove(f"{d}: done => data_out is the method's result of this cycle", [], z3.Implies(o.done("m"), o.out("m") == o.sig("outv")), u)
        ctx.prove(f"{d}: done => the method sees data_in", [], z3.Implies(o.done("m"), o.sig("seen") == o.arg("m")), u)
        return
    variant, iw, ow = cfg["variant"], cfg["iw"], cfg["ow"]
    d = f"Adapter[{variant}](i={iw} bits, o={ow} bits)"
    ncall = 2 if variant == "nonexclusive" else 1
    reqs = [bit(f"req{j}") for j in range(ncall)]
    truns = [bit(f"trun{j}") for j in range(ncall)]
    called = z3.Or(*reqs)
    if variant == "validate":
        nv = len(b.h._validators())
        if nv != 1:
            ctx.errors.append(f"C43 harness: expected one validator hook, found {nv}")
            return
        called = z3.And(called, bit("v0.ret"))
        ctx.witness(f"{d}: the validator can refuse a requested call", [o.en("mk"), reqs[0], z3.Not(bit("v0.ret"))])
        ctx.prove(f"{d}: the validator hook sees the caller's argument", [reqs[0]], o.sig("v0.arg") == o.sig("arg0"), u)
    ctx.witness(f"{d}: the mocked method can run", [o.done("mk")])
    ctx.prove(f"{d}: done == en & caller requests" + (" & validator accepts" if variant == "validate" else ""), [],
              o.done("mk") == z3.And(o.en("mk"), called), u)
    ctx.prove(f"{d}: done <=> the method runs", [], o.done("mk") == bit("mrun"), u)
    if iw:
        ctx.prove(f"{d}: done => data_out is the caller's argument", [], z3.Implies(o.done("mk"), o.out("mk") == o.sig("arg0")), u)
    for j in range(ncall):
        ctx.prove(f"{d}: caller {j} runs => its result equals the adapter's data_in of this cycle, and the method runs", [],
                  z3.Implies(truns[j], z3.And(o.sig(f"res{j}") == o.arg("mk"), o.done("mk"))), u)
        ctx.prove(f"{d}: caller {j} runs iff it requests and the mock is enabled" + (" and the validator accepts" if variant == "validate" else ""), [],
                  truns[j] == z3.And(reqs[j], o.en("mk"), bit("v0.ret") if variant == "validate" else z3.BoolVal(True)), u)
    if ncall == 2:
        ctx.witness(f"{d}: both callers run in the same cycle", [truns[0], truns[1]])


# ---------------------------------------------------------------------------------------------------------------------
# (a) Python half: stub engine under the real amaranth.sim context / trigger classes
# ---------------------------------------------------------------------------------------------------------------------
class _SimEnd(Exception):
    """the bounded stub simulation has no further clock cycle."""


class _SymConst:
    """stand-in for amaranth.lib.data.Const over a symbolic bit pattern (bv is a z3 bit-vector or None for width 0)."""

    def __init__(self, eng, layout, bv):
        self._eng, self._layout, self._bv = eng, layout, bv

    def __getitem__(self, name):
        from amaranth.hdl import Shape
        from amaranth.hdl import ShapeCastable

        f = self._layout[name]
        bv = z3.Extract(f.offset + f.width - 1, f.offset, self._bv) if f.width else None
        if isinstance(f.shape, ShapeCastable):
            return _SymConst(self._eng, f.shape, bv)
        shape = Shape.cast(f.shape)
        if bv is None:
            return 0
        return SInt(self._eng, (z3.SignExt if shape.signed else z3.ZeroExt)(W - f.width, bv))

    def shape(self):
        return self._layout

    def __getattr__(self, name):
        if name.startswith("_"):
            raise AttributeError(name)
        return self[name]


def _bits_of(x, width):
    """z3 bit pattern of a result handed out by the helpers (symbolic stand-in or, in concrete re-runs, a real data.Const / int)."""
    if width == 0:
        return None
    if isinstance(x, _SymConst):
        return x._bv
    if isinstance(x, SInt):
        return z3.Extract(width - 1, 0, x.e)
    if hasattr(x, "as_bits"):
        return z3.BitVecVal(x.as_bits(), width)
    return z3.BitVecVal(int(x), width)


class _Endpoint:
    def __init__(self, name, tbio, ext):
        from amaranth import Value

        self.name, self.tbio, self.ext = name, tbio, ext
        a = tbio.adapter
        self.sig_en, self.sig_done = a.en, a.done
        self.sig_in, self.sig_out = Value.cast(a.data_in), Value.cast(a.data_out)
        self.en = 0
        self.data_in = 0
        self.en_hist, self.in_hist, self.sets = [], [], []


class _World:
    """K clock cycles of the signals around the adapters.  env=None: symbolic; env=dict: concrete re-execution (plain ints)."""

    def __init__(self, eng, K, endpoints, env=None):
        self.eng, self.K, self.env, self.t = eng, K, env, 0
        self.eps = {e.name: e for e in endpoints}
        self.by_sig = {}
        for e in endpoints:
            for role in ("en", "done", "in", "out"):
                self.by_sig[id(getattr(e, "sig_" + role))] = (e, role)
        self.rst = None
        self.awaits = 0
        self.events = []         # everything the code under test did to the engine, in order
        self.before_edge = None  # harness hook: called at the very end of cycle t, before the edge samples

    # -- symbolic inputs of the world
    def _bool(self, name):
        if self.env is not None:
            return z3.BoolVal(bool(self.env[name]))
        self.eng.vars[name] = z3.Bool(name)
        return z3.Bool(name)

    def _bv(self, name, w):
        if self.env is not None:
            return z3.BitVecVal(self.env[name], w)
        self.eng.vars[name] = z3.BitVec(name, w)
        return z3.BitVec(name, w)

    def ready(self, e, t):
        return self._bool(f"{e.name}.ready{t}")

    def out(self, e, t):
        w = len(e.sig_out)
        return self._bv(f"{e.name}.out{t}", w) if w else None

    def en_term(self, e, t=None):
        if e.ext:
            return self._bool(f"{e.name}.en{self.t if t is None else t}")
        return z3.BoolVal(bool(e.en))

    def done_term(self, e):
        return z3.And(self.en_term(e), self.ready(e, self.t))

    # -- values of expressions in the current cycle
    def bits(self, v):
        from amaranth.hdl import Signal, Const
        from amaranth.hdl._ast import Concat

        if self.t >= self.K:
            raise _SimEnd()
        if isinstance(v, Const):
            return z3.BitVecVal(v.value, len(v)) if len(v) else None
        if isinstance(v, Concat):
            parts = [p for p in (self.bits(x) for x in v.parts) if p is not None]
            return z3.Concat(*reversed(parts)) if len(parts) > 1 else (parts[0] if parts else None)
        if not isinstance(v, Signal):
            raise Unsupported(f"stub engine cannot evaluate {v!r}")
        if len(v) == 0:
            return None
        if v is self.rst:
            return z3.BitVecVal(0, 1)  # no reset during the test
        hit = self.by_sig.get(id(v))
        if hit is None:
            return self._bv(f"{v.name}@{self.t}", len(v))
        e, role = hit
        b1 = lambda c: z3.If(c, z3.BitVecVal(1, 1), z3.BitVecVal(0, 1))
        if role == "en":
            return b1(self.en_term(e))
        if role == "done":
            return b1(self.done_term(e))
        if role == "in":
            return z3.BitVecVal(e.data_in, len(v))
        return self.out(e, self.t)

    def value(self, v, shape):
        """what a testbench sees when it samples / gets `v` (shape: the shape it was sampled with)."""
        from amaranth.hdl import ShapeCastable, Shape

        bv = self.bits(v)
        if bv is not None:
            bv = z3.simplify(bv)
        if isinstance(shape, ShapeCastable):
            if self.env is not None:
                return shape.from_bits(bv.as_long() if bv is not None else 0)
            return _SymConst(self.eng, shape, bv)
        if bv is None:
            return 0
        signed = Shape.cast(shape).signed
        if self.env is not None:
            return bv.as_signed_long() if signed else bv.as_long()
        return SInt(self.eng, (z3.SignExt if signed else z3.ZeroExt)(W - bv.size(), bv))

    # -- engine interface used by the real context / trigger classes
    def get_value(self, expr):
        from amaranth import Value

        v = Value.cast(expr)
        return self.value(v, v.shape())

    def set_value(self, expr, value):
        from amaranth import Value

        hit = self.by_sig.get(id(Value.cast(expr)))
        if hit is None or hit[1] not in ("en", "in"):
            raise Unsupported(f"stub engine: set of {expr!r}")
        e, role = hit
        e.sets.append((self.t, role, value))
        self.events.append(("set", role, value))
        if role == "en":
            e.en = value
        else:
            e.data_in = value

    def step_design(self):
        pass

    def add_trigger_combination(self, combination, *, oneshot):
        return _TriggerState(self, combination)

    def clock_edge(self, combination):
        from amaranth.sim._async import SampleTrigger, EdgeTrigger

        from amaranth.sim._async import DelayTrigger

        trgs = combination._triggers
        if trgs and all(isinstance(trg, DelayTrigger) for trg in trgs):  # await sim.delay(x): no clock edge passes
            self.events.append(("delay", tuple(trg.interval_fs for trg in trgs)))
            return tuple(True for _ in trgs)
        if not any(isinstance(trg, EdgeTrigger) for trg in trgs):
            self.events.append(("other", tuple(type(trg).__name__ for trg in trgs)))
            raise _SimEnd()
        if self.t >= self.K:
            raise _SimEnd()
        if self.before_edge is not None:
            self.before_edge(self.t)
        self.events.append(("edge", self.t))
        res = []
        for trg in combination._triggers:
            if isinstance(trg, EdgeTrigger):
                res.append(True)
            elif isinstance(trg, SampleTrigger):
                res.append(self.value(trg.value, trg.shape))
            else:
                raise Unsupported(f"stub engine: trigger {type(trg).__name__}")
        self.end_cycle()
        return tuple(res)

    def end_cycle(self):
        for e in self.eps.values():
            e.en_hist.append(self.en_term(e))
            e.in_hist.append(e.data_in)
        self.t += 1
        self.awaits += 1

    def run_out(self):
        """nobody touches the signals any more: let the remaining cycles pass."""
        while self.t < self.K:
            self.end_cycle()
            self.awaits -= 1


class _TriggerState:
    def __init__(self, world, combination):
        self.world, self.combination = world, combination

    def __await__(self):
        return self.world.clock_edge(self.combination)
        yield  # pragma: no cover - makes this a generator that never suspends


class _Design:
    def __init__(self):
        from amaranth.hdl import ClockDomain

        self.sync = ClockDomain("sync")

    def lookup_domain(self, name, context):
        if name != "sync":
            raise KeyError(name)
        return self.sync


def _context(world):
    from amaranth.sim._async import TestbenchContext
    from amaranth.hdl import ValueCastable, ShapeCastable, Value

    class Ctx(TestbenchContext):
        def get(self, expr):  # real TestbenchContext.get builds a data.Const from an int: the symbolic stand-in takes its place
            if isinstance(expr, ValueCastable) and isinstance(expr.shape(), ShapeCastable):
                return world.value(Value.cast(expr), expr.shape())
            return super().get(expr)

    class _Proc:
        critical = False
        waits_on = None

    design = _Design()
    world.rst = design.sync.rst
    return Ctx(design, world, _Proc())


def _drive(coro):
    try:
        coro.send(None)
    except StopIteration as e:
        return ("ret", e.value)
    except _SimEnd:
        return ("end", None)
    coro.close()
    raise Unsupported("coroutine suspended: the stub awaited something real")


def _tbio(name, lay_in, lay_out):
    from transactron.lib import AdapterTrans
    from transactron.testing.testbenchio import TestbenchIO

    return TestbenchIO(AdapterTrans(name=name, i=lay_in, o=lay_out))


def _packed(layout_list, args):
    v, off = 0, 0
    for n, w in layout_list:
        v |= (args.get(n, 0) & ((1 << w) - 1)) << off
        off += w
    return v


class _Judge:
    """collects (label, z3 Bool) obligations of one path."""

    def __init__(self):
        self.ob = []

    def add(self, label, cond):
        self.ob.append((label, cond if z3.is_expr(cond) else z3.BoolVal(bool(cond))))

    def result_is(self, label, res, world, e, t):
        """`res` is the output of endpoint e in cycle t."""
        w = len(e.sig_out)
        if res is None:
            self.add(label, False)
        elif w:
            self.add(label, _bits_of(res, w) == world.out(e, t))
        else:
            self.add(label, True)


def _scenario(cfg, eng, env=None):
    """Runs one scenario on a fresh world.  Returns (kind, judge.ob)."""
    from transactron.testing.testbenchio import CallTrigger
    from amaranth import Signal

    K, scen = cfg["K"], cfg["scen"]
    if scen == "mock_procs":
        return _scenario_mock_procs(cfg, eng, env)
    lay_out = LAYOUTS[cfg["lay"]]
    lay_in = [("x", 3)]
    args = cfg.get("args") or {}
    J = _Judge()
    T, F = z3.BoolVal(True), z3.BoolVal(False)
    b2i = lambda c: z3.If(c, z3.BitVecVal(1, 8), z3.BitVecVal(0, 8))

    def call_pattern(world, e, n_en, what):
        """en high in exactly the first n_en cycles, arguments present there, every set of data_in carried the arguments."""
        world.run_out()
        J.add(f"{what}: en high in exactly the first {n_en} cycle(s), low afterwards",
              z3.And(*[h == (T if t < n_en else F) for t, h in enumerate(e.en_hist)]))
        J.add(f"{what}: data_in holds the given arguments while enabled", all(v == _packed(lay_in, args) for v in e.in_hist[:n_en]))

    def executed(world, e):
        return sum([b2i(z3.And(h, world.ready(e, t))) for t, h in enumerate(e.en_hist)], z3.BitVecVal(0, 8))

    if scen in ("call", "call_do", "call_try"):
        tb = _tbio("m", lay_in, lay_out)
        e = _Endpoint("m", tb, ext=False)
        world = _World(eng, K, [e], env)
        sim = _context(world)
        if scen == "call":
            coro = tb.call(sim, **args) if cfg["style"] == "kw" else tb.call(sim, dict(args))
        elif scen == "call_try":
            coro = tb.call_try(sim, **args)
        else:
            tb.call_init(sim, **args)
            coro = tb.call_do(sim)
        kind, res = _drive(coro)
        n = world.awaits
        if scen == "call_try":
            J.add("call_try takes exactly one clock cycle", kind == "ret" and n == 1)
            ran = world.ready(e, 0)  # en is high in cycle 0 (asserted below), so the method ran iff it was ready
            if res is None:
                J.add("call_try returns None only if the method did not run", z3.Not(ran))
            else:
                J.add("call_try returns a result only if the method ran", ran)
                J.result_is("call_try returns the method's result of that cycle", res, world, e, 0)
            call_pattern(world, e, 1, "call_try")
            J.add("call_try: at most one executed call", z3.ULE(executed(world, e), 1))
            return ("none" if res is None else "value"), J.ob
        if kind == "end":
            J.add(f"{scen} still pending after {K} cycles only if the method was never ready", z3.Not(z3.Or(*[world.ready(e, t) for t in range(K)])))
            J.add(f"{scen} pending: one await per cycle", n == K)
            call_pattern(world, e, K, f"{scen} (pending)")
            return "pending", J.ob
        d = n - 1
        J.add(f"{scen} returns in the first cycle in which the method is ready", z3.And(world.ready(e, d), *[z3.Not(world.ready(e, t)) for t in range(d)]))
        J.result_is(f"{scen} returns the method's result of the cycle in which the call succeeded", res, world, e, d)
        call_pattern(world, e, d + 1, scen)
        J.add(f"{scen}: exactly one executed call (sum over all cycles of en & ready)", executed(world, e) == 1)
        return f"done@{d}", J.ob

    if scen == "effect_process":
        from transactron.lib import Adapter
        from transactron.testing.method_mock import MethodMock

        ad = Adapter(name="mocked", i=lay_in, o=LAYOUTS["u2"])
        en_seq, counts = [bool(x) for x in cfg["enable"]], cfg["counts"]
        ncalls = [0]

        def enable():
            ncalls[0] += 1
            return en_seq[ncalls[0] - 1] if ncalls[0] <= len(en_seq) else False

        mock = MethodMock(ad, lambda arg: None, enable=enable, delay=cfg["delay"])

        class _Holder:
            adapter = ad

        e = _Endpoint("mk", _Holder, ext=False)
        world = _World(eng, K, [e], env)
        sim = _context(world)
        left = []  # (pending effects, _freeze) as left behind by the previous iteration, seen at the end of each cycle

        def before_edge(t):
            left.append((len(mock._effects), mock._freeze))
            for j in range(counts[t]):  # what output_process does during the cycle: the mocked function registers effects ...
                def eff(t=t, j=j):
                    world.events.append(("eff", t, j))

                with mock._context():
                    MethodMock.effect(eff)
            mock._freeze = True  # ... and the mock is frozen at the clock edge

        world.before_edge = before_edge
        kind, _ = _drive(mock.effect_process(sim))
        left.append((len(mock._effects), mock._freeze))
        ev = world.events
        edges = [i for i, x in enumerate(ev) if x[0] == "edge"]
        J.add("effect_process waits only for clock ticks and its delay (no other trigger)", not any(x[0] == "other" for x in ev))
        J.add("effect_process handles every clock edge of the simulation and never finishes by itself", kind == "end" and len(edges) == K)
        J.add("before the first edge the method is enabled according to enable()", ev[:edges[0]] == [("set", "en", int(en_seq[0]))] if edges else False)
        pattern = ""
        for t, pos in enumerate(edges):
            seg = ev[pos + 1:edges[t + 1]] if t + 1 < len(edges) else ev[pos + 1:]
            effs = [x[1:] for x in seg if x[0] == "eff"]
            rest = [x for x in seg if x[0] != "eff"]
            done_t = z3.And(e.en_hist[t], world.ready(e, t)) if t < len(e.en_hist) else F
            mine = [(t, j) for j in range(counts[t])]
            if effs == mine and mine:
                J.add(f"edge {t}: the pending effects are applied (once, in registration order) only if the method executed on this edge", done_t)
                pattern += "X"
            elif not effs:
                J.add(f"edge {t}: pending effects are dropped only if the method did not execute on this edge", z3.Not(done_t) if mine else T)
                pattern += "-"
            else:
                J.add(f"edge {t}: exactly the effects registered in this cycle are applied, once each, in registration order (applied: {effs})", F)
                pattern += "?"
            exp_rest = [("set", "en", 0), ("delay", (round(float(cfg["delay"]) * 1e15),)), ("set", "en", int(en_seq[t + 1]))]
            J.add(f"edge {t}: en is lowered at the edge and set to enable() again after sim.delay(delay)", rest == exp_rest)
            J.add(f"edge {t}: afterwards no effect is pending and the mock is not frozen", left[t + 1] == (0, False) if t + 1 < len(left) else False)
        J.add("enable() is consulted once at the start and once per clock cycle", ncalls[0] == len(edges) + 1)
        return pattern, J.ob

    if scen in ("call_result", "get_call_result"):
        tb = _tbio("m", lay_in, lay_out)
        e = _Endpoint("m", tb, ext=True)
        world = _World(eng, K, [e], env)
        sim = _context(world)
        if scen == "call_result":
            kind, res = _drive(tb.call_result(sim))
            J.add("call_result takes exactly one clock cycle", kind == "ret" and world.awaits == 1)
        else:
            res = tb.get_call_result(sim)
            J.add("get_call_result does not advance time", world.awaits == 0)
        ran = z3.And(world.en_term(e, 0), world.ready(e, 0))
        if res is None:
            J.add(f"{scen} returns None only if the method did not run in that cycle", z3.Not(ran))
        else:
            J.add(f"{scen} returns a result only if the method ran in that cycle", ran)
            J.result_is(f"{scen} returns the method's result of that cycle", res, world, e, 0)
        J.add(f"{scen} does not drive en or data_in (the method is not called by it)", not e.sets)
        return ("none" if res is None else "value"), J.ob

    # ---- CallTrigger with several calls
    ta, tbb, tc = _tbio("a", lay_in, lay_out), _tbio("b", lay_in, lay_out), _tbio("c", lay_in, lay_out)
    ea, eb, ec = _Endpoint("a", ta, False), _Endpoint("b", tbb, False), _Endpoint("c", tc, True)
    sig = Signal(4, name="probe")
    world = _World(eng, K, [ea, eb, ec], env)
    sim = _context(world)
    args_b = {"x": (args.get("x", 0) + 1) % 8}
    if scen == "trigger":
        trig = CallTrigger(sim).call(ta, dict(args)).sample(sig).call(tbb, **args_b).sample(tc)
        kind, res = _drive(_await(trig))
        J.add("awaiting a CallTrigger takes exactly one clock cycle and returns one entry per call / sampled value", kind == "ret" and world.awaits == 1 and
              isinstance(res, tuple) and len(res) == 4)
        if not (isinstance(res, tuple) and len(res) == 4):
            return "malformed", J.ob
        ra, v, rb, rc = res
        for nm, r, e, ran in (("first call", ra, ea, world.ready(ea, 0)), ("second call", rb, eb, world.ready(eb, 0)),
                              ("sampled method", rc, ec, z3.And(world.en_term(ec, 0), world.ready(ec, 0)))):
            if r is None:
                J.add(f"trigger: {nm} yields None only if that method did not run", z3.Not(ran))
            else:
                J.add(f"trigger: {nm} yields a result only if that method ran", ran)
                J.result_is(f"trigger: {nm} yields that method's result of the cycle", r, world, e, 0)
        J.add("trigger: the sampled signal's value of the cycle is returned in its position", _bits_of(v, 4) == world._bv("probe@0", 4))
        world.run_out()
        for nm, e, a in (("first", ea, args), ("second", eb, args_b)):
            J.add(f"trigger: {nm} called method enabled in exactly that cycle with its own arguments",
                  z3.And(*[h == (T if t < 1 else F) for t, h in enumerate(e.en_hist)], z3.BoolVal(e.in_hist[0] == _packed(lay_in, a))))
        J.add("trigger: the sampled method is not driven", not ec.sets)
        return "".join("N" if r is None else "V" for r in (ra, rb, rc)), J.ob

    trig = CallTrigger(sim).call(ta, dict(args)).call(tbb, **args_b)
    kind, res = _drive(trig.until_done() if scen == "until_done" else trig.until_all_done())
    n = world.awaits
    hit = (lambda t: z3.Or(world.ready(ea, t), world.ready(eb, t))) if scen == "until_done" else (lambda t: z3.And(world.ready(ea, t), world.ready(eb, t)))
    if kind == "end":
        J.add(f"{scen} still pending after {K} cycles only if its condition never held", z3.Not(z3.Or(*[hit(t) for t in range(K)])))
        world.run_out()
        J.add(f"{scen} pending: both methods enabled in every cycle", z3.And(*ea.en_hist, *eb.en_hist))
        return "pending", J.ob
    d = n - 1
    J.add(f"{scen} returns in the first cycle in which " + ("some call succeeds" if scen == "until_done" else "all calls succeed"),
          z3.And(hit(d), *[z3.Not(hit(t)) for t in range(d)]))
    ok = isinstance(res, tuple) and len(res) == 2
    J.add(f"{scen} returns one entry per call", ok)
    if ok:
        for nm, r, e in (("first", res[0], ea), ("second", res[1], eb)):
            if r is None:
                J.add(f"{scen}: {nm} entry None only if that call did not succeed in the returning cycle", z3.Not(world.ready(e, d)))
            else:
                J.add(f"{scen}: {nm} entry is a result only if that call succeeded in the returning cycle", world.ready(e, d))
                J.result_is(f"{scen}: {nm} entry is that method's result of the returning cycle", r, world, e, d)
    world.run_out()
    for nm, e, a in (("first", ea, args), ("second", eb, args_b)):
        J.add(f"{scen}: {nm} method enabled with its arguments in exactly the cycles up to the returning one",
              z3.And(*[h == (T if t <= d else F) for t, h in enumerate(e.en_hist)], z3.BoolVal(all(v == _packed(lay_in, a) for v in e.in_hist[:d + 1]))))
    return f"done@{d}:" + "".join("N" if r is None else "V" for r in (res if ok else ())), J.ob


async def _await(trigger):
    return await trigger


# ---------------------------------------------------------------------------------------------------------------------
# (d) the three REAL MethodMock processes together, on a stub scheduler that follows amaranth.sim's documented order
# ---------------------------------------------------------------------------------------------------------------------
class _Susp:
    """trigger state that SUSPENDS the awaiting coroutine; the stub scheduler sends the trigger's result tuple back in."""

    def __init__(self, combination):
        self.combination = combination

    def __await__(self):
        res = yield self
        return res


def _scenario_mock_procs(cfg, eng, env=None):
    """`output_process`, `validate_arguments_process` (optional) and `effect_process` of one real MethodMock run as coroutines over a
    stub of the simulator's scheduler.  amaranth.sim (PySimEngine.advance / step_design, _PyTriggerState): processes are woken by their
    changed/edge triggers and run until the design converges BEFORE any testbench runs; an edge trigger delivers the values from before
    the edge; `TestbenchContext.set` commits at once and runs the woken processes (step_design) before it returns; a process's `set`
    is committed after the processes of that delta cycle ran.  Per clock cycle t the caller side of the mocked method is symbolic:
    `called[t][p]`, `arg[t][p]` for p < P combinational phases before the edge (the last one is what the edge sees), and after the
    edge the values of the next cycle's first phase become visible while `en` is still what it was (registers updated, the mock's
    testbench has not run yet).  Wake-ups are over-approximated (a process is woken at every event, also when the value it watches
    happened not to change): harmless for a mocked function without side effects outside MethodMock.effect."""
    from amaranth.hdl import Value
    from amaranth.sim._async import ProcessContext, ChangedTrigger, EdgeTrigger, SampleTrigger, DelayTrigger
    from transactron.lib import Adapter
    from transactron.testing.method_mock import MethodMock

    K, P, validate = cfg["K"], cfg["phases"], cfg["validate"]
    en_seq = [bool(x) for x in cfg["enable"]]
    J = _Judge()
    T, F = z3.BoolVal(True), z3.BoolVal(False)
    AW, RW, BAD = 3, 2, 5  # argument width, result width, the argument value that validate_arguments rejects
    ad = Adapter(name="mocked", i=[("x", AW)], o=[("y", RW)])
    ncalls = [0]

    def enable():
        ncalls[0] += 1
        return en_seq[ncalls[0] - 1] if ncalls[0] <= len(en_seq) else False

    st = dict(t=0, en=False, vres=F, pend_v=None, data_in=None, called=F, arg=z3.BitVecVal(0, AW), applied=[], evals=0)

    def func(x):
        st["evals"] += 1

        def eff(x=x, t_reg=st["t"]):
            st["applied"].append((st["t"], t_reg, x))

        MethodMock.effect(eff)
        return {"y": x + 1}

    def vfunc(x):
        return x != BAD

    mock = MethodMock(ad, func, validate_arguments=vfunc if validate else None, enable=enable, delay=cfg["delay"])
    vsig = None
    if validate:  # one caller: the pair (argument view, result signal) that Adapter.elaborate would create for it
        from amaranth import Signal
        from amaranth.lib import data as adata
        vsig = (Signal(ad.data_out.shape(), name="varg"), Signal(name="vres"))
        ad.validators.append(vsig)

    def sym_bool(name):
        if env is not None:
            return z3.BoolVal(bool(env[name]))
        eng.vars[name] = z3.Bool(name)
        return z3.Bool(name)

    def sym_bv(name, w):
        if env is not None:
            return z3.BitVecVal(env[name], w)
        eng.vars[name] = z3.BitVec(name, w)
        return z3.BitVec(name, w)

    called = [[sym_bool(f"called{t}_{p}") for p in range(P)] for t in range(K + 1)]
    arg = [[sym_bv(f"arg{t}_{p}", AW) for p in range(P)] for t in range(K + 1)]
    design = _Design()
    clk, rst = design.sync.clk, design.sync.rst

    def done_term():
        return z3.simplify(z3.And(z3.BoolVal(st["en"]), st["called"], st["vres"] if validate else T))

    def as_bool_term(v):
        if isinstance(v, (bool, int)):
            return z3.BoolVal(bool(v))
        if hasattr(v, "e") and z3.is_bool(v.e):
            return v.e
        if hasattr(v, "e"):
            return v.e != 0
        raise Unsupported(f"validator result {v!r}")

    class World:
        def value_of(self, v, shape):
            from amaranth.hdl import ShapeCastable, Const

            v = Value.cast(v)
            if isinstance(v, Const):
                return v.value
            if v is rst:
                return 0
            if v is Value.cast(ad.done):
                bv = z3.simplify(z3.If(done_term(), z3.BitVecVal(1, 1), z3.BitVecVal(0, 1)))
            elif v is Value.cast(ad.data_out) or (vsig is not None and v is Value.cast(vsig[0])):
                bv = z3.simplify(st["arg"])
            elif v is Value.cast(ad.en):
                return int(st["en"])
            else:
                raise Unsupported(f"stub scheduler cannot evaluate {v!r}")
            if isinstance(shape, ShapeCastable):
                return shape.from_bits(bv.as_long()) if env is not None else _SymConst(eng, shape, bv)
            return bv.as_long() if env is not None else SInt(eng, z3.ZeroExt(W - bv.size(), bv))

        def get_value(self, expr):
            v = Value.cast(expr)
            return self.value_of(v, v.shape())

        def add_trigger_combination(self, combination, *, oneshot):
            return _Susp(combination)

        def set_value(self, expr, value):  # TestbenchContext.set (committed at once; step_design follows)
            if Value.cast(expr) is not Value.cast(ad.en):
                raise Unsupported(f"stub scheduler: testbench set of {expr!r}")
            self.en_rise = bool(value) and not st["en"]
            st["en"] = bool(value)
            events.append(("en", int(bool(value))))

        def proc_set(self, expr, value):  # ProcessContext.set (queued until the delta cycle commits)
            v = Value.cast(expr)
            if v is Value.cast(ad.data_in):
                st["data_in"] = value
            elif vsig is not None and v is vsig[1]:
                st["pend_v"] = as_bool_term(value)
            else:
                raise Unsupported(f"stub scheduler: process set of {expr!r}")

        def result_for(self, comb, clk_edge, en_rise, delay):
            res = []
            for trg in comb._triggers:
                if isinstance(trg, (ChangedTrigger, SampleTrigger)):
                    res.append(self.value_of(trg.value if isinstance(trg, SampleTrigger) else trg.signal, trg.shape))
                elif isinstance(trg, EdgeTrigger):
                    if trg.signal is clk:
                        res.append(bool(clk_edge))
                    elif trg.signal is Value.cast(ad.en):
                        res.append(bool(en_rise))
                    else:
                        raise Unsupported("stub scheduler: edge trigger on an unknown signal")
                elif isinstance(trg, DelayTrigger):
                    res.append(bool(delay))
                else:
                    raise Unsupported(f"stub scheduler: trigger {type(trg).__name__}")
            return tuple(res)

        en_rise = False

        def step_design(self, clk_edge=False):
            """delta cycles until convergence: every process runs on the current values, then queued sets are committed."""
            en_rise, self.en_rise = self.en_rise, False
            for it in range(4):
                for pr in procs:
                    pr["ts"] = pr["coro"].send(self.result_for(pr["ts"].combination, clk_edge and it == 0, en_rise and it == 0, False))
                nv, st["pend_v"] = st["pend_v"], None
                if nv is None or z3.eq(z3.simplify(nv), z3.simplify(st["vres"])):
                    return
                st["vres"] = z3.simplify(nv)
            raise Unsupported("stub scheduler: validator result does not settle")

    world = World()
    events = []

    class _Proc:
        critical = False
        waits_on = None

    class PCtx(ProcessContext):
        def set(self, expr, value):
            world.proc_set(expr, value)

    psim = PCtx(design, world, _Proc())
    tsim = _context(world)
    tsim._design = design
    procs = [dict(coro=mock.output_process(psim))] + ([dict(coro=mock.validate_arguments_process(psim))] if validate else [])
    for pr in procs:
        pr["ts"] = pr["coro"].send(None)  # runs to the first await
    st["called"], st["arg"] = called[0][0], arg[0][0]
    world.step_design()  # multi-shot `changed` triggers are initially eligible
    ep = mock.effect_process(tsim)
    ets = ep.send(None)  # sets en for cycle 0 (-> step_design), then waits for the tick
    pattern = ""
    for t in range(K):
        st["t"] = t
        for p in range(1, P):  # further combinational phases before the edge
            st["called"], st["arg"] = called[t][p], arg[t][p]
            world.step_design()
        c_t, a_t, en_t = called[t][P - 1], arg[t][P - 1], st["en"]
        valid_t = (a_t != BAD) if validate else T
        executed_t = z3.simplify(z3.And(z3.BoolVal(en_t), c_t, valid_t))
        if validate:
            J.add(f"edge {t}: the validator result at the edge is validate_arguments(the argument at the edge) while the method is enabled",
                  z3.Implies(z3.BoolVal(en_t), st["vres"] == valid_t))
        J.add(f"edge {t}: adapter.done at the edge <=> enabled, requested and (validated) - the executed call", done_term() == executed_t)
        ret = st["data_in"]
        if ret is None:
            J.add(f"edge {t}: a return value was computed if the method executes", z3.Not(executed_t))
        else:
            y = ret["y"]
            yb = z3.Extract(RW - 1, 0, y.e) if hasattr(y, "e") else z3.BitVecVal(int(y) & ((1 << RW) - 1), RW)
            J.add(f"edge {t}: the return value at the edge is the mocked function applied to the executed call's argument",
                  z3.Implies(executed_t, yb == z3.Extract(RW - 1, 0, a_t + 1)))
        sampled_done = world.value_of(ad.done, Value.cast(ad.done).shape())
        world.step_design(clk_edge=True)  # the clock edge wakes the processes (values from before the edge)
        st["called"], st["arg"] = called[t + 1][0], arg[t + 1][0]  # registers updated: next cycle's values, `en` unchanged
        world.step_design()
        n0 = len(st["applied"])
        if not isinstance(ets.combination._triggers[0], EdgeTrigger):
            raise Unsupported("effect_process does not wait for the clock tick")
        ets = ep.send(tuple([True, 0, 0, sampled_done]))  # TickTrigger result: (clk edge, Const(0), rst, sampled done) -> lowers en, applies effects, awaits the delay
        if not all(isinstance(trg, DelayTrigger) for trg in ets.combination._triggers):
            raise Unsupported("effect_process awaits something else than its delay after the edge")
        world.step_design()  # time passes: nothing changes
        ets = ep.send(tuple(True for _ in ets.combination._triggers))  # un-freezes, sets en for the next cycle (-> step_design)
        new = st["applied"][n0:]
        if len(new) == 1:
            J.add(f"edge {t}: an effect is applied only if the method executed on this edge", executed_t)
            x = new[0][2]
            xb = z3.Extract(AW - 1, 0, x.e) if hasattr(x, "e") else z3.BitVecVal(int(x) & ((1 << AW) - 1), AW)
            J.add(f"edge {t}: the applied effect is the one registered for the EXECUTED call (its argument, not a later evaluation's)", xb == a_t)
            pattern += "X"
        elif not new:
            J.add(f"edge {t}: the effect is dropped only if the method did not execute on this edge", z3.Not(executed_t))
            pattern += "-"
        else:
            J.add(f"edge {t}: exactly one effect per executed call (applied: {len(new)})", F)
            pattern += "?"
    J.add("enable() is consulted once at the start and once per clock cycle", ncalls[0] == K + 1)
    for pr in procs:
        pr["coro"].close()
    ep.close()
    return pattern, J.ob


def _cosim_mock_procs(cfg, ctx, traces=6):
    """Validation of the stub scheduler: the same real MethodMock under the REAL amaranth.sim (hardware caller whose request and
    argument come from registers, i.e. change at the clock edge) and under the stub in concrete mode must apply the same effects,
    execute in the same cycles and return the same values."""
    import random
    from amaranth import Elaboratable, Signal, Array, Const
    from amaranth.sim import Simulator
    from transactron import TModule, Transaction
    from transactron.core import TransactronContextElaboratable
    from transactron.lib import Adapter
    from transactron.testing.method_mock import MethodMock

    K, validate = cfg["K"], cfg["validate"]
    if cfg["phases"] != 1:
        return
    rng = random.Random(ctx.seed * 7919 + ctx.index)
    for tr in range(traces):
        cs = [rng.random() < 0.7 for _ in range(K + 2)]
        xs = [rng.randrange(8) if rng.random() < 0.8 else 5 for _ in range(K + 2)]
        en_seq = [bool(x) for x in cfg["enable"]]
        ncalls = [0]

        def enable():
            ncalls[0] += 1
            return en_seq[ncalls[0] - 1] if ncalls[0] <= len(en_seq) else False

        applied, rets = [], []

        def func(x):
            def eff(x=x):
                applied.append(int(x))

            MethodMock.effect(eff)
            return {"y": (x + 1) & 3}

        ad = Adapter(name="mocked", i=[("x", 3)], o=[("y", 2)])
        mock = MethodMock(ad, func, validate_arguments=(lambda x: x != 5) if validate else None, enable=enable, delay=cfg["delay"])

        class Circ(Elaboratable):
            def elaborate(self, platform):
                m = TModule()
                m.submodules.ad = ad
                tcnt = Signal(range(K + 3))
                m.d.sync += tcnt.eq(tcnt + 1)
                req, x = Signal(), Signal(3)
                m.d.comb += [req.eq(Array(Const(int(c), 1) for c in cs)[tcnt]), x.eq(Array(Const(v, 3) for v in xs)[tcnt])]
                with Transaction(name="caller").body(m, ready=req):
                    ad.iface(m, x=x)
                return m

        sim = Simulator(TransactronContextElaboratable(Circ()))
        sim.add_clock(1e-6)
        sim.add_process(mock.output_process)
        if validate:
            sim.add_process(mock.validate_arguments_process)
        sim.add_testbench(mock.effect_process, background=True)

        async def tb(sctx):
            for _ in range(K):
                _, _, done, y = await sctx.tick().sample(ad.done, ad.data_in.y)
                rets.append((int(done), int(y) if done else None))
            await sctx.delay(2e-7)

        sim.add_testbench(tb)
        sim.run()
        env = _DefaultEnv({f"called{t}_0": cs[t] for t in range(K + 1)})
        env.update({f"arg{t}_0": xs[t] for t in range(K + 1)})
        pattern, ob = _scenario_mock_procs(cfg, Engine(width=W), env)
        bad = [lab for lab, g in ob if z3.is_false(z3.simplify(g))]
        real_pattern = "".join("X" if d else "-" for d, _ in rets)
        want_applied = [xs[t] for t in range(K) if rets[t][0]]
        want_rets = [(1, (xs[t] + 1) & 3) if rets[t][0] else (0, None) for t in range(K)]
        ctx.cosim_traces += 1
        ctx.cosim_points += K
        if bad or real_pattern != pattern or applied != want_applied or rets != want_rets:
            ctx.errors.append(f"C43 stub scheduler vs amaranth.sim: called={cs} args={xs} cfg={cfg}: real executed {real_pattern} effects {applied} results {rets}; "
                              f"stub executed {pattern}, failed obligations {bad[:3]}")


def _run_py(cfg, ctx):
    if cfg["scen"] == "mock_procs":
        _cosim_mock_procs(cfg, ctx)
    eng = Engine(width=W, max_paths=5000)
    paths = eng.run(lambda e: _scenario(cfg, e))
    ctx.solver_time += eng.solver_time
    note = lambda k, n=1: ctx.notes.__setitem__(k, ctx.notes.get(k, 0) + n)
    note("pysym_paths", len(paths))
    note("pysym_feasibility_queries", eng.queries)
    ctx.frames += cfg["K"] * len(paths)
    ctx.steps += cfg["K"] * len(paths)
    desc = f"{cfg['scen']}[{cfg['lay']} outputs, {cfg['K']} cycles" + (f", args {cfg['args']}" if cfg.get("args") else "") + (f", {cfg['style']}" if cfg.get("style") else "") + \
        (f", effects per cycle {cfg['counts']}, enable() {cfg['enable']}, delay {cfg['delay']}" if cfg["scen"] == "effect_process" else "") + \
        (f", {cfg['phases']} phase(s) per cycle, enable() {cfg['enable']}, delay {cfg['delay']}, validate_arguments={cfg['validate']}" if cfg["scen"] == "mock_procs" else "") + "]"
    ctx.prove(f"{desc}: the {len(paths)} explored paths cover every readiness history", [], z3.Or(*[z3.And(*p.pc) if p.pc else z3.BoolVal(True) for p in paths]), None)
    kinds = {}
    for p in paths:
        kinds.setdefault(p.result[0], []).append(p)
    # vacuity: every outcome class that should exist was reached on a feasible path
    want = {"call": [f"done@{cfg['K'] - 1}", "done@0", "pending"], "call_do": [f"done@{cfg['K'] - 1}", "pending"], "call_try": ["none", "value"],
            "call_result": ["none", "value"], "get_call_result": ["none", "value"], "trigger": ["VVV", "NNN", "VNV"],
            "until_done": ["pending", f"done@{cfg['K'] - 1}:NV"], "until_all_done": ["pending", f"done@{cfg['K'] - 1}:VV"],
            "mock_procs": ["-" * cfg["K"], "".join("X" if en else "-" for en in cfg.get("enable", [])[:cfg["K"]])],
            "effect_process": ["-" * cfg["K"]] + ["".join("X" if c and en else "-" for c, en in zip(cfg.get("counts", []), cfg.get("enable", [])))]}[cfg["scen"]]
    for k in want:
        ps = kinds.get(k, [])
        ctx.witness(f"{desc}: outcome '{k}' is reachable", [z3.Or(*[z3.And(*p.pc) if p.pc else z3.BoolVal(True) for p in ps])] if ps else [z3.BoolVal(False)])
    for pi, p in enumerate(paths):
        kind, ob = p.result
        box = {}

        def detail(m, ob=ob):
            box["m"] = m
            box["bad"] = [lab for lab, g in ob if z3.is_false(m.eval(g, model_completion=True))]
            return box["bad"][:4]

        name = f"{desc} outcome {kind} [path {pi}]: " + "; ".join(sorted({lab.split(':')[0] for lab, _ in ob}))[:160]
        r = ctx.prove(name, p.pc, z3.And(*[g for _, g in ob]), None, detail=detail)
        if r is False:
            ctx.violations.pop()
            m = box["m"]
            env = {}
            for nm, var in _all_vars(p, ob).items():
                v = m.eval(var, model_completion=True)
                env[nm] = z3.is_true(v) if z3.is_bool(var) else v.as_long()
            env = _DefaultEnv(env)
            # concrete re-execution: the same real coroutines on plain ints / real data.Const values
            kind_c, ob_c = _scenario(cfg, Engine(width=W), env)
            again = [lab for lab, g in ob_c if z3.is_false(z3.simplify(g))]
            if again:
                ctx.violation(f"{desc}: {again[0]}", dict(history={k: v for k, v in sorted(env.items())}, failed=again[:4], outcome=kind_c), confirmed="re-executed concretely")
            else:
                ctx.errors.append(f"C43: symbolic failure {box['bad'][:3]} does not reproduce on concrete values ({desc}, {dict(env)})")


class _DefaultEnv(dict):
    def __missing__(self, k):
        return 0


def _all_vars(p, ob):
    out = {}

    def walk(t, seen):
        if t.get_id() in seen:
            return
        seen.add(t.get_id())
        if z3.is_const(t) and t.decl().kind() == z3.Z3_OP_UNINTERPRETED:
            out[t.decl().name()] = t
        for c in t.children():
            walk(c, seen)

    seen = set()
    for c in list(p.pc) + [g for _, g in ob]:
        walk(c, seen)
    return out


def run(cfg, ctx):
    if cfg["mode"] == "py":
        _run_py(cfg, ctx)
    else:
        _run_nl(cfg, ctx)


# ---------------------------------------------------------------------------------------------------------------------
# canaries
# ---------------------------------------------------------------------------------------------------------------------
def _patch_method(modname, clsname, fname, old, new, more=()):
    import importlib
    import inspect
    import textwrap

    mod = importlib.import_module(modname)
    cls = getattr(mod, clsname)
    if getattr(getattr(cls, fname), "_verif_canary", False):
        return
    src = textwrap.dedent(inspect.getsource(getattr(cls, fname)))
    for o_, n_ in [(old, new), *more]:
        assert o_ in src, (fname, o_)
        src = src.replace(o_, n_)
    ns = {}
    exec(src, mod.__dict__, ns)
    ns[fname]._verif_canary = True
    setattr(cls, fname, ns[fname])


def _canary_effects_unconditional():
    # effect_process no longer looks at `done`: effects registered by a mid-cycle evaluation are applied although the method did not execute
    _patch_method("transactron.testing.method_mock", "MethodMock", "effect_process", "async for *_, done in sim.tick().sample(self.adapter.done):",
                  "async for _ in sim.tick():", more=[("if done:\n", "if True:\n")])


def _canary_no_disable():
    # the trigger forgets to lower `en` after the clock edge: the method is called again in the following cycles
    _patch_method("transactron.testing.testbenchio", "CallTrigger", "__await__", "tbio.disable(self.sim)", "pass")


def _canary_done_ignored():
    # the result is handed out even when the call did not succeed
    _patch_method("transactron.testing.testbenchio", "CallTrigger", "__await__", "s.outputs if s.done else None", "s.outputs")


def _canary_adapter_done():
    # AdapterTrans reports done whenever it is enabled (top_comb instead of comb inside the transaction body)
    _patch_method("transactron.lib.adapters", "AdapterTrans", "elaborate", "m.d.comb += self.done.eq(1)", "m.d.top_comb += self.done.eq(self.en)")


CANARIES = [("CallTrigger does not disable the method after the edge", _canary_no_disable),
            ("CallTrigger returns outputs although done is low", _canary_done_ignored),
            ("AdapterTrans.done follows en instead of the transaction's run", _canary_adapter_done),
            ("MethodMock.effect_process applies pending effects without checking done", _canary_effects_unconditional)]


def classify(v):
    n = v.get("name", "")
    return "netlist" if n.startswith("Adapter") else "python"
