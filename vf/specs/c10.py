"""C10: well-formed designs elaborate without combinational loops (E5 `acyc`).

The design is elaborated by the real code with the default (eager) scheduler, the netlist is emitted with Amaranth's own
cycle check bypassed, and every bit-level combinational dependency (`comb_edges_to` of each NIR cell, plus late-bound
signal connections) becomes a difference-logic constraint level[dst] > level[src] over integer variables.
sat <=> acyclic (the model is a topological levelling); unsat => the unsat core names the cycle, and the replay is
Amaranth's real `check_comb_cycles()` raising CombinationalCycle on the same netlist.
Designs: generated specs that the spec-level oracle classifies as well-formed (calls under If/Switch/FSM, nested
transactions and methods, aliases, validate_arguments, Forwarder-style readiness `ready = f | run(earlier body)` declared with
schedule_before) plus fixed compositions of library components (Forwarder, Pipe, BasicFifo, Connect, condition(), Collector).
"""
import random
import time
import z3
from amaranth.hdl import Fragment, _nir, _ir
from ._core_common import *  # noqa
from ..designgen import Design, Oracle, rand_spec
from ..harness import DependencyContext, DependencyManager, TransactronContextElaboratable, HarnessError
from ..util import FunctionTracer

PROP = "C10"
LEVEL = "proof"
ENGINES = ["E5 acyc", "E2 designgen+oracle"]
TECHNIQUE = "SMT (z3 difference logic over Int levels) on the bit-level combinational dependency graph of the Amaranth netlist IR emitted for the really elaborated design; unsat core = cycle, replayed with Amaranth's own CombinationalCycle check"
OPTS = dict(multi=True, p_single_group=0.3, alias=True, combiner=True, fsm=True, nested_methods=True, p_fresh=0.96, fwd=True, p_before=0.5, p_conflict=0.5)
BOUNDS = {"quick": "40 batches x 10 random specs (well-formed ones are checked) + 14 fixed compositions of library components; eager scheduler",
          "thorough": "400 batches x 25 random specs + the fixed compositions"}
OUTSIDE = OUTSIDE_COMMON + ["readiness that depends on call arguments/results of other methods", "round-robin scheduler (the statement is about the default scheduler)"]
ASSUMES = ["a design is 'well-formed' iff the spec-level oracle of vf/designgen.py finds none of the C11 defects"]


def configs(tier, seed):
    out = batch_configs(tier, seed, 40, 400, 10 if tier == "quick" else 25, OPTS, ("eager",))
    out += [dict(fixed=k) for k in range(len(FIXED))]
    return out


def netlist_nocheck(frag, ports=()):
    design = frag.prepare(ports=ports, hierarchy=("top",))
    nl = _nir.Netlist()
    _ir._emit_netlist(nl, design, all_undef_to_ff=False)
    return nl


def acyclic(nl):
    lvl = {}

    def L(net):
        if net not in lvl:
            lvl[net] = z3.Int(f"l{int(net)}")
        return lvl[net]

    s = z3.Solver()
    s.set("timeout", 120000)
    tags = {}
    n = 0

    def edge(dst, src, what):
        nonlocal n
        if src.is_const:
            return
        p = z3.Bool(f"e{n}")
        tags[str(p)] = what
        n += 1
        s.assert_and_track(L(dst) > L(src), p)

    for net, drv in nl.connections.items():
        edge(net, drv, ("late-bound signal", nl.late_to_signal[net][0].name if net in nl.late_to_signal else "?"))
    for ci, cell in enumerate(nl.cells):
        for net in cell.output_nets(ci):
            try:
                for src, loc in cell.comb_edges_to(net.bit):
                    edge(net, src, (type(cell).__name__, str(loc)))
            except NotImplementedError:
                pass
    t = time.time()
    r = str(s.check())
    dt = time.time() - t
    core = [tags[str(c)] for c in s.unsat_core()] if r == "unsat" else None
    return r, n, dt, core


def check_top(ctx, name, make_top, cfg_desc):
    dm = DependencyManager()
    with DependencyContext(dm):
        top = make_top(dm)
        try:
            if ctx.functions is None and getattr(ctx, "index", 1) == 0:
                with FunctionTracer() as tr:
                    frag = Fragment.get(top, None)
                ctx.functions = tr.result()
            else:
                frag = Fragment.get(top, None)
        except Exception as e:
            return "rejected", f"{type(e).__name__}: {str(e)[:100]}"
        nl = netlist_nocheck(frag)
    r, nedges, dt, core = acyclic(nl)
    ctx.solver_time += dt
    ctx.notes["edges"] = ctx.notes.get("edges", 0) + nedges
    # obligation "no combinational cycle": sat (a levelling exists) = discharged
    ctx._record(f"{name}: a topological levelling of {nedges} combinational dependencies exists", "obligation",
                {"sat": "unsat", "unsat": "sat"}.get(r, r), dt)
    if r == "unsat":
        try:
            nl.check_comb_cycles()
            ctx.errors.append(f"acyc says cyclic but Amaranth's check accepts: {cfg_desc} core={core[:6]}")
        except _nir.CombinationalCycle as e:
            ctx.violation(f"{name}: combinational cycle in a well-formed design", dict(core=core[:12], amaranth=str(e)[:400]),
                          "Amaranth's own check_comb_cycles() raises CombinationalCycle on the same netlist")
    elif r == "sat":
        try:
            nl.check_comb_cycles()
        except _nir.CombinationalCycle as e:
            ctx.errors.append(f"acyc says acyclic but Amaranth reports a cycle: {cfg_desc}: {str(e)[:200]}")
    return "accepted", None


# ---------------------------------------------------------------- fixed library compositions
def _fixed_designs():
    from amaranth import Elaboratable, Signal
    from transactron import TModule, Transaction, Method, def_method
    from transactron.lib import Forwarder, Pipe, BasicFifo, AdapterTrans, Adapter, Connect, condition, Collector, ConnectTrans, FIFO

    class Chain(Elaboratable):
        def __init__(self, kinds):
            self.kinds = kinds

        def elaborate(self, p):
            m = TModule()
            mk = {"f": lambda: Forwarder([("d", 2)]), "p": lambda: Pipe([("d", 2)]), "q": lambda: BasicFifo([("d", 2)], 2), "a": lambda: FIFO([("d", 2)], 2)}
            mods = [mk[k]() for k in self.kinds]
            for i, x in enumerate(mods):
                m.submodules[f"s{i}"] = x
            m.submodules.src = AdapterTrans.create(mods[0].write)
            m.submodules.dst = AdapterTrans.create(mods[-1].read)
            for a, b in zip(mods, mods[1:]):
                with Transaction().body(m):
                    b.write(m, a.read(m))
            return m

    class CondInMethod(Elaboratable):
        def elaborate(self, p):
            m = TModule()
            m.submodules.f = f = Forwarder([("d", 2)])
            m.submodules.q = q = BasicFifo([("d", 2)], 2)
            m.submodules.src = AdapterTrans.create(f.write)
            m.submodules.dst = AdapterTrans.create(q.read)
            c = Signal()
            outer = Method(i=[("d", 2)])

            @def_method(m, outer)
            def _(d):
                with condition(m, nonblocking=True) as branch:
                    with branch(d[0]):
                        q.write(m, d=d)
                    with branch(c):
                        pass

            with Transaction().body(m):
                outer(m, f.read(m))
            return m

    class ConnCollector(Elaboratable):
        def elaborate(self, p):
            m = TModule()
            m.submodules.f1 = f1 = Forwarder([("d", 2)])
            m.submodules.f2 = f2 = Pipe([("d", 2)])
            m.submodules.col = col = Collector.create([f1.read, f2.read])
            m.submodules.c = c = Connect([("d", 2)])
            m.submodules.ct = ConnectTrans.create(col.method, c.write)
            m.submodules.w1 = AdapterTrans.create(f1.write)
            m.submodules.w2 = AdapterTrans.create(f2.write)
            m.submodules.r = AdapterTrans.create(c.read)
            return m

    class SharedResource(Elaboratable):
        """writer and reader of a Forwarder/Pipe also share an exclusive method, i.e. they conflict: the scheduler must
        order them as declared by schedule_before, otherwise run -> ready -> runnable -> run loops."""

        def __init__(self, kind):
            self.kind = kind

        def elaborate(self, p):
            m = TModule()
            m.submodules.b = b = (Forwarder([("d", 2)]) if self.kind == "f" else Pipe([("d", 2)]))
            m.submodules.x = x = Adapter()
            r1, r2 = Signal(), Signal()
            with Transaction(name="writer").body(m, ready=r1):
                b.write(m, d=1)
                x.iface(m)
            with Transaction(name="reader").body(m, ready=r2):
                b.read(m)
                x.iface(m)
            return m

    class CondValidate(Elaboratable):
        """a condition() branch calls a method with validate_arguments; variant: the condition sits in a method that is
        itself called conditionally (m.If / enable_call) by the transaction."""

        def __init__(self, in_method, how):
            self.in_method, self.how = in_method, how

        def elaborate(self, p):
            m = TModule()
            req, c, en = Signal(), Signal(), Signal()
            arg = Signal(2)
            v = Method(i=[("d", 2)], name="validated")

            @def_method(m, v, validate_arguments=lambda d: d != 3)
            def _(d):
                pass

            def body():
                with condition(m, nonblocking=True) as branch:
                    with branch(c):
                        v(m, d=arg)

            if self.in_method:
                outer = Method(name="outer")

                @def_method(m, outer)
                def _():
                    body()

                how, callee = self.how, outer
                if how.startswith("via_"):
                    # the conditional call sits one level down: transaction -> helper -> (conditionally) outer
                    helper, how = Method(name="helper"), how[4:]

                    @def_method(m, helper)
                    def _():
                        if how == "if":
                            with m.If(en):
                                outer(m)
                        else:
                            outer(m, enable_call=en)

                    how, callee = "plain", helper
                with Transaction().body(m, ready=req):
                    if how == "if":
                        with m.If(en):
                            callee(m)
                    elif how == "enable":
                        callee(m, enable_call=en)
                    else:
                        callee(m)
            else:
                with Transaction().body(m, ready=req):
                    body()
            return m

    out = [("condition() branch calling a validate_arguments method (in a transaction)", lambda: CondValidate(False, "plain")),
           ("condition() branch calling a validate_arguments method (in a method)", lambda: CondValidate(True, "plain")),
           ("condition() branch calling a validate_arguments method (in a method called under m.If)", lambda: CondValidate(True, "if")),
           ("condition() branch calling a validate_arguments method (in a method called with enable_call)", lambda: CondValidate(True, "enable")),
           ("condition() branch calling a validate_arguments method (in a method called under m.If by a helper method)", lambda: CondValidate(True, "via_if")),
           ("condition() branch calling a validate_arguments method (in a method called with enable_call by a helper method)", lambda: CondValidate(True, "via_enable")),
           ("Forwarder writer/reader sharing an exclusive method", lambda: SharedResource("f")),
           ("Pipe writer/reader sharing an exclusive method", lambda: SharedResource("p")),
           ("Forwarder->Pipe->BasicFifo", lambda: Chain("fpq")), ("Pipe->Forwarder->Forwarder", lambda: Chain("pff")),
           ("Forwarder->Forwarder->Pipe->FIFO", lambda: Chain("ffpa")), ("BasicFifo->Forwarder", lambda: Chain("qf")),
           ("Pipe->Pipe->Pipe", lambda: Chain("ppp")), ("Forwarder x4", lambda: Chain("ffff")),
           ("condition() inside a method fed by a Forwarder", CondInMethod), ("Collector + Connect + ConnectTrans", ConnCollector)]
    return out


FIXED = [None] * 14


def run(cfg, ctx):
    if "fixed" in cfg:
        name, make = _fixed_designs()[cfg["fixed"]]
        r, err = check_top(ctx, f"library composition '{name}'", lambda dm: TransactronContextElaboratable(make(), dependency_manager=dm), name)
        if r == "rejected":
            ctx.violation(f"library composition '{name}' is rejected by elaboration", err, "elaboration raised")
        return
    for i in range(cfg["n"]):
        rng = random.Random(cfg["seed"] * 1009 + i)
        spec = rand_spec(rng, cfg["opts"])
        ctx.cfg = dict(cfg, index=i, spec=spec)
        holder = []

        def make_top(dm):
            d = Design(spec)
            holder.append(d)
            return TransactronContextElaboratable(d, dependency_manager=dm)

        r, err = check_top(ctx, "generated design", make_top, f"batch {cfg['batch']} index {i}")
        orc = Oracle(holder[0])
        try:
            ill = orc.ill_formed()
        except OverflowError:
            continue
        if r == "rejected":
            if ill is None and not getattr(orc, "ambiguous", None):
                ctx.violation("well-formed generated design is rejected by elaboration", err, "elaboration raised")
            ctx.notes["designs_rejected"] = ctx.notes.get("designs_rejected", 0) + 1
        else:
            ctx.notes["designs_checked"] = ctx.notes.get("designs_checked", 0) + 1
    ctx.cfg = cfg


def _canary_reverse_priority_order():
    # the scheduler processes transactions in the reverse of the priority order
    from transactron.core.manager import TransactionManager

    orig = TransactionManager._conflict_graph

    def patched(method_map):
        cgr, porder = orig(method_map)
        return cgr, {t: -k for t, k in porder.items()}

    TransactionManager._conflict_graph = staticmethod(patched)


CANARIES = [("scheduler uses the reversed priority order (Forwarder-style readiness then loops)", _canary_reverse_priority_order)]


def classify(v):
    n = v.get("name", "")
    if "condition() branch calling a validate_arguments method (in a method called" in n and "combinational cycle" in n:
        return "condition-branch-validate-arguments-under-conditional-call"
    return None
