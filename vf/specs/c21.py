"""C21: MemoryBank returns what an ideal memory holds.

The real `MemoryBank` is wrapped with one AdapterTrans per `read_req[i]`, `read_resp[i]` and `write[j]`.  Next to the
netlist an ideal memory (array of rows, written by the write calls that ran, with per-granule masks) and, per read
port, a queue of at most two pending responses (address + value captured at request time) is stepped over z3 terms.
Obligations per cycle and port: `read_req` is accepted iff it is enabled and fewer than two responses are pending;
`read_resp` runs only when a response is pending (and, as the class docstring says, is accepted whenever one is);
the data of a response is the ideal contents of the oldest pending address at request time (without read_on_resp)
or at response time (with read_on_resp), where the writes of that same cycle count exactly when the bank is
transparent.  BMC from reset over all call histories up to K cycles; counterexamples are replayed on amaranth.sim.
"""
import z3
from ..harness import Harness, Built
from ..seq import Unroll, cosim

PROP = "C21"
LEVEL = "model_checking"
TECHNIQUE = "BMC from reset against a z3 reference model (ideal array + per-port queue of <=2 pending reads); one query per cycle, obligations of earlier cycles as already-proven lemmas; amaranth.sim replay"
BOUNDS = {
    "quick": "transparent x read_on_resp x {1r1w, 2r2w} x granularity {None,1}, depth 4, 2-bit data, lib.memory.Memory; plus depth 3 (not a power of two) "
             "and granularity 2 of 4 bits and of 2 bits (one granule per row, 1-bit mask); BMC 7 cycles from reset (6 for 2r2w), all enables/addresses/data/masks",
    "thorough": "as quick with BMC 10 (8 for 2r2w); memory_type in {Memory, MultiReadMemory(2r1w), MultiportXORMemory, MultiportXORILVTMemory, "
                "MultiportOneHotILVTMemory} x transparent x read_on_resp, depth 4 and 8, BMC 8; depths 3,5,8; 3r1w and 1r3w; granularity 1,2",
}
OUTSIDE = ["histories longer than the BMC bound", "depths/widths/port counts not enumerated", "structured (View) shapes",
           "two write calls to the same row in one cycle (also when their masks are disjoint)", "addresses >= depth"]
ASSUMES = ["single clock domain, reset held low", "callers are AdapterTrans transactions (one per method)",
           "no two write calls that run in the same cycle address the same row", "addresses passed to read_req/write are < depth",
           "memory contents start at 0 (MemoryBank passes init=[])"]
MEMTYPES = ["Memory", "MultiReadMemory", "MultiportXORMemory", "MultiportXORILVTMemory", "MultiportOneHotILVTMemory"]


def make(cfg):
    from transactron.lib import MemoryBank
    import amaranth.lib.memory as amem
    import transactron.utils.amaranth_ext.memory as tmem

    mt = amem.Memory if cfg["mem"] == "Memory" else getattr(tmem, cfg["mem"])
    d = MemoryBank(shape=cfg["width"], depth=cfg["depth"], granularity=cfg["gran"], transparent=cfg["transparent"],
                   read_on_resp=cfg["ror"], read_ports=cfg["nr"], write_ports=cfg["nw"], memory_type=mt)
    prov = {}
    for i in range(cfg["nr"]):
        prov[f"req{i}"] = d.read_req[i]
        prov[f"resp{i}"] = d.read_resp[i]
    for j in range(cfg["nw"]):
        prov[f"wr{j}"] = d.write[j]
    return Harness(d, prov)


def _mk(transparent, ror, nr, nw, gran, K, depth=4, width=2, mem="Memory"):
    return dict(transparent=transparent, ror=ror, nr=nr, nw=nw, gran=gran, depth=depth, width=width, mem=mem, K=K)


def configs(tier, seed):
    out = []
    q = tier == "quick"
    for nr, nw in ((1, 1), (2, 2)):
        for gran in (None, 1):
            for tr in (False, True):
                for ror in (False, True):
                    out.append(_mk(tr, ror, nr, nw, gran, (7 if nr == 1 else 6) if q else (10 if nr == 1 else 8)))
    out.append(_mk(True, False, 1, 1, None, 7 if q else 10, depth=3))
    out.append(_mk(False, True, 1, 2, None, 6 if q else 9, depth=3))
    out.append(_mk(True, False, 1, 1, 2, 6 if q else 9, width=4))
    # granules wider than one bit together with read_on_resp (the forwarding network has its own mask expansion)
    out.append(_mk(True, True, 1, 1, 2, 6 if q else 9, width=4))
    out.append(_mk(False, True, 1, 1, 2, 6 if q else 9, width=4))
    # one granule per row (granularity = row width): the one-bit mask must still be honoured
    out.append(_mk(True, False, 1, 1, 2, 6 if q else 9, width=2))
    out.append(_mk(False, True, 1, 1, 2, 6 if q else 9, width=2))
    # granularity on the ILVT-based memory types behind a transparent bank (their bypass has its own enable / mask registers)
    out.append(_mk(True, False, 1, 1, 1, 6 if q else 8, mem="MultiportXORILVTMemory"))
    out.append(_mk(True, True, 1, 1, 2, 5 if q else 8, width=4, mem="MultiportOneHotILVTMemory"))
    # three write ports (not a power of two) on the ILVT-based memory types
    out.append(_mk(False, False, 1, 3, None, 6 if q else 8, mem="MultiportXORILVTMemory"))
    if q:
        return out
    for mem in MEMTYPES[1:]:
        nr, nw = (2, 1) if mem == "MultiReadMemory" else (1, 2)
        for tr in (False, True):
            for ror in (False, True):
                out.append(_mk(tr, ror, nr, nw, None, 8, mem=mem))
        out.append(_mk(True, False, 2, 1 if mem == "MultiReadMemory" else 2, None, 7, mem=mem))
        out.append(_mk(True, True, nr, nw, None, 7, depth=8, width=3, mem=mem))
        out.append(_mk(True, False, nr, nw, None, 7, depth=8, width=2, mem=mem))
    for mem in ("MultiReadMemory", "MultiportXORILVTMemory"):
        out.append(_mk(True, False, 1, 1, 1, 8, mem=mem))
        out.append(_mk(False, True, 1, 1, 1, 8, mem=mem))
    for depth in (3, 5, 8):
        for tr, ror in ((False, False), (True, True)):
            out.append(_mk(tr, ror, 1, 1, None, 9, depth=depth, width=3))
    for tr in (False, True):
        for ror in (False, True):
            out.append(_mk(tr, ror, 3, 1, None, 7))
            out.append(_mk(tr, ror, 1, 3, None, 8))
            out.append(_mk(tr, ror, 1, 1, 2, 9, width=4))
    return out


def _rd(rows, addr):
    r = rows[-1]
    for k in reversed(range(len(rows) - 1)):
        r = z3.If(addr == k, rows[k], r)
    return r


def _merge(cur, data, mask, width, gran):
    """row after a write of `data` under per-granule `mask` (mask None = whole row)."""
    if mask is None:
        return data
    parts = []
    for gi in range(width // gran):
        hi, lo = (gi + 1) * gran - 1, gi * gran
        parts.append(z3.If(z3.Extract(gi, gi, mask) == 1, z3.Extract(hi, lo, data), z3.Extract(hi, lo, cur)))
    return z3.Concat(*reversed(parts)) if len(parts) > 1 else parts[0]


def _init_model(cfg):
    w, d = cfg["width"], cfg["depth"]
    aw = max((d - 1).bit_length(), 1)
    rows = [z3.BitVecVal(0, w)] * d
    F = z3.BoolVal(False)
    pend = [[(F, z3.BitVecVal(0, aw), z3.BitVecVal(0, w))] * 2 for _ in range(cfg["nr"])]
    return rows, pend


def _step(cfg):
    d, w, nr, nw, gran = cfg["depth"], cfg["width"], cfg["nr"], cfg["nw"], cfg["gran"]
    transparent, ror = cfg["transparent"], cfg["ror"]
    pow2 = not (d & (d - 1))

    def step(model, o, t):
        rows, pend = model
        asm, ob, wit = [], [], {}
        wdone = [o.done(f"wr{j}") for j in range(nw)]
        waddr = [o.arg(f"wr{j}", "addr") for j in range(nw)]
        wdata = [o.arg(f"wr{j}", "data") for j in range(nw)]
        wmask = [o.arg(f"wr{j}", "mask") if gran is not None else None for j in range(nw)]
        for j in range(nw):
            for k in range(j):
                asm.append(z3.Not(z3.And(wdone[j], wdone[k], waddr[j] == waddr[k])))
            if not pow2:
                asm.append(z3.ULT(waddr[j], d))
        after = []
        for r in range(d):
            cur = rows[r]
            for j in range(nw):
                cur = z3.If(z3.And(wdone[j], waddr[j] == r), _merge(rows[r], wdata[j], wmask[j], w, gran), cur)
            after.append(cur)
        seen = after if transparent else rows      # what a read performed in this cycle observes
        for j in range(nw):
            ob.append((f"write{j} is total: it runs whenever it is called (an ideal memory never refuses a write)", wdone[j] == o.en(f"wr{j}")))
        newpend = []
        for i in range(nr):
            qen, qdone, qaddr = o.en(f"req{i}"), o.done(f"req{i}"), o.arg(f"req{i}", "addr")
            sen, sdone, sdata = o.en(f"resp{i}"), o.done(f"resp{i}"), o.out(f"resp{i}", "data")
            if not pow2:
                asm.append(z3.ULT(qaddr, d))
            (v0, a0, d0), (v1, a1, d1) = pend[i]          # entry 0 = oldest
            expect = _rd(seen, a0) if ror else d0
            ob += [(f"read_req{i} accepted iff enabled and fewer than two responses pending", qdone == z3.And(qen, z3.Not(v1))),
                   (f"read_resp{i} runs only when a response is pending", z3.Implies(sdone, v0)),
                   (f"read_resp{i} accepted whenever a response is pending", z3.Implies(z3.And(sen, v0), sdone)),
                   (f"read_resp{i} returns the ideal contents of the oldest pending address", z3.Implies(sdone, sdata == expect))]
            # pop, then push
            e0 = (z3.If(sdone, v1, v0), z3.If(sdone, a1, a0), z3.If(sdone, d1, d0))
            e1 = (z3.And(v1, z3.Not(sdone)), a1, d1)
            cap = _rd(seen, qaddr)
            to0 = z3.And(qdone, z3.Not(e0[0]))
            to1 = z3.And(qdone, e0[0])
            n0 = (z3.Or(e0[0], qdone), z3.If(to0, qaddr, e0[1]), z3.If(to0, cap, e0[2]))
            n1 = (z3.Or(e1[0], to1), z3.If(to1, qaddr, e1[1]), z3.If(to1, cap, e1[2]))
            newpend.append([n0, n1])
            if i == 0:
                wit["response with non-zero expected data while two responses are pending"] = z3.And(sdone, expect != 0, v1)
                wit["request and response in the same cycle"] = z3.And(sdone, qdone)
                wit["request of a row that is written in the same cycle"] = z3.And(qdone, wdone[0], waddr[0] == qaddr, wdata[0] != _rd(rows, qaddr))
                wit["write to the oldest pending address while its response waits"] = z3.And(v0, z3.Not(sdone), wdone[nw - 1], waddr[nw - 1] == a0,
                                                                                           wdata[nw - 1] != _rd(rows, a0))
                wit["two pending responses for different rows with different contents"] = z3.And(v1, a0 != a1, sdone, expect != _rd(rows, a1))
        if nw > 1:
            wit["two writes in the same cycle"] = z3.And(wdone[0], wdone[1])
        if gran is not None and w // gran > 1:
            wit["partial write (mask neither empty nor full)"] = z3.And(wdone[0], wmask[0] != 0, ~wmask[0] != 0)
        return ob, asm, (after, newpend), wit

    return step


def run(cfg, ctx):
    b = Built(lambda: make(cfg), trace_functions=(ctx.index == 0))
    ctx.functions = b.functions
    mt = "" if cfg["mem"] == "Memory" else f" on {cfg['mem']}"
    name = f"MemoryBank{mt} vs ideal memory"
    K = cfg["K"]
    u = Unroll(b)
    step = _step(cfg)
    model, asm, per_cycle, wit = _init_model(cfg), [], [], {}
    for t in range(K):
        o = u.cycle()
        ob, a, model, w = step(model, o, t)
        asm += a
        per_cycle.append((ob, list(asm)))
        for k, c in w.items():
            wit.setdefault(k, []).append(c)
        u.advance()
    ctx.frames += K + 1
    ctx.steps += K
    for k, cs in wit.items():
        ctx.witness(f"{name}: reach '{k}' within {K} cycles", asm + [z3.Or(*cs)])
    bad = [z3.Not(z3.And(*[c for _, c in ob])) for ob, _ in per_cycle]
    # One query per cycle; obligations of earlier cycles are added as lemmas (each was proved under a subset of the
    # current assumptions before it is used), which keeps the queries small.  Stop at the first failing cycle.
    lemmas = []
    for t, (ob, asm_t) in enumerate(per_cycle):
        def detail(m, ob=ob, t=t):
            return [f"cycle {t}: {lab}" for lab, c in ob if z3.is_false(m.eval(c, model_completion=True))]

        r = ctx.refute(f"{name}: all obligations of cycle {t} (BMC from reset)", asm_t + lemmas + [bad[t]], u, detail, bad_by_cycle=bad)
        if r is not True:
            return
        lemmas += [c for _, c in ob]
    if ctx.index < 3:
        pts, mism = cosim(b, 12, ctx.seed)
        ctx.cosim_points += pts
        ctx.cosim_traces += 1
        if mism:
            ctx.errors.append(f"cosim mismatch encoder vs pysim in cfg {ctx.cfg}: {mism[:4]}")


def classify(v):
    c = v.get("cfg", {})
    if c.get("gran") is not None and c.get("ror"):
        return "read_on_resp-forwarding-ignores-mask"
    if "ILVT" in c.get("mem", "") and c.get("width", 0) < max((c.get("depth", 1) - 1).bit_length(), 1):
        return "ilvt-read-addr-bypass-width (C23)"
    return "other"


# ---- canaries -------------------------------------------------------------------------------------------------

def _patch(old, new):
    import inspect
    import textwrap
    import transactron.lib.storage as S

    src = inspect.getsource(S.MemoryBank.elaborate)
    assert old in src, f"canary anchor not found: {old}"
    ns = {}
    exec(textwrap.dedent(src.replace(old, new)), S.__dict__, ns)
    S.MemoryBank.elaborate = ns["elaborate"]


def _canary_overflow_cond():
    # the overflow buffer is also filled when the response is consumed in the same cycle
    _patch("& self.read_req[i].run & ~self.read_resp[i].run):", "& self.read_req[i].run):")


def _canary_not_transparent():
    # the transparent flag is ignored for the physical read ports
    _patch("transparent_for=write_port if self.transparent or self.read_on_resp else []", "transparent_for=write_port if self.read_on_resp else []")


def _canary_stale_overflow():
    # read_on_resp: the overflow buffer is not kept up to date with later writes
    _patch("m.d.sync += overflow_data[i].eq(overflow_next[i])", "pass")


CANARIES = [("overflow buffer filled although the response is read in the same cycle", _canary_overflow_cond),
            ("transparent=True ignored by the read ports", _canary_not_transparent),
            ("read_on_resp: overflow buffer misses later writes", _canary_stale_overflow)]


def _callers_items():
    from transactron.lib import MemoryBank

    return [("MemoryBank(2 bits, depth 4, 1 read / 1 write port)", lambda: MemoryBank(shape=2, depth=4),
             [("read_req", ["read_req", 0]), ("read_resp", ["read_resp", 0]), ("write", ["write", 0])], [])]


from ..excl import install as _install  # noqa: E402
_install(globals(), _callers_items())
