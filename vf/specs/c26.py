"""C26: PreservedOrderAllocator tracks the allocation order.

The real allocator is wrapped with one AdapterTrans per method (alloc, free, free_idx, order, clear).  The reference model
is the list of allocated identifiers from oldest to newest (entries slots + length), written from the docstrings: alloc
appends the returned identifier (which must be free), free(ident) / free_idx(idx) delete exactly that element keeping the
order of the others, alloc in the same cycle as a free appends after the deletion, clear empties the list.  Per cycle:
`order` always runs and returns a permutation of all identifiers whose first `used` entries are the model list
(after clear: the reset value, the identity permutation); alloc runs iff enabled and fewer than `entries` identifiers
are allocated.  BMC from reset decides every call history up to K cycles; a one-step induction from any state whose
`order` view is a permutation with used <= entries (model list := that view) extends it to unbounded histories per
configuration (its counterexamples would be CTIs and are never reported).
"""
import time
import z3
from ..harness import Harness, Built
from ..seq import bmc, Unroll
from ..util import zx, b2i, sel

PROP = "C26"
LEVEL = "model_checking"
ENGINES = ["E1 nir2smt", "E3 BMC + one-step induction"]
TECHNIQUE = "BMC from reset against a z3 list model + one-step induction under the representation invariant (permutation, used <= entries); counterexamples replayed on amaranth.sim"
BOUNDS = {
    "quick": "entries 1..5, BMC 4/6/8/10/8 cycles from reset, all subsets of simultaneous alloc/free/free_idx/order/clear, all arguments; "
             "one-step induction for entries 2..6",
    "thorough": "entries 1..8, BMC 6/10/14/12/11/10/9/9 cycles; one-step induction for entries 2..12",
}
OUTSIDE = ["histories that free an identifier which is not allocated or an index >= used (documented precondition)",
           "histories longer than the BMC bound where the inductive step is not run", "entry counts above the enumerated range",
           "which free identifier alloc returns (only: not currently allocated)"]
ASSUMES = ["single clock domain, reset held low", "callers are AdapterTrans transactions (one per method)",
           "an enabled free passes a currently allocated identifier; an enabled free_idx passes an index below the used count",
           "free and free_idx conflict (free calls free_idx): at most one runs, each runs when enabled alone",
           "'clear restores the initial state' is read as: next cycle used = 0 and order is the identity permutation (the reset value)"]
W = 8


def make(cfg):
    from transactron.lib import PreservedOrderAllocator

    d = PreservedOrderAllocator(cfg["entries"])
    return Harness(d, dict(alloc=d.alloc, free=d.free, free_idx=d.free_idx, order=d.order, clear=d.clear))


def configs(tier, seed):
    out = []
    if tier == "quick":
        for n, k in ((1, 4), (2, 6), (3, 8), (4, 10), (5, 8)):
            out.append(dict(entries=n, mode="bmc", K=k))
        for n in (2, 3, 4, 5, 6):
            out.append(dict(entries=n, mode="ind"))
    else:
        for n, k in ((1, 6), (2, 10), (3, 14), (4, 12), (5, 11), (6, 10), (7, 9), (8, 9)):
            out.append(dict(entries=n, mode="bmc", K=k))
        for n in range(2, 13):
            out.append(dict(entries=n, mode="ind"))
    return out


def _view(cfg, o):
    """(used, [order[i]]) as returned by the `order` method in this frame (W-bit terms)."""
    n = cfg["entries"]
    iw = (n - 1).bit_length()
    used = zx(o.out("order", "used"), W)
    if iw == 0:
        return used, [z3.BitVecVal(0, W)] * n
    whole = o.out("order", "order")
    return used, [zx(z3.Extract((i + 1) * iw - 1, i * iw, whole), W) for i in range(n)]


def _is_perm(ids, n):
    return z3.And(*[z3.ULT(x, n) for x in ids], *[ids[i] != ids[j] for i in range(n) for j in range(i)])


def _step(cfg):
    n = cfg["entries"]
    iw = (n - 1).bit_length()
    K = lambda k: z3.BitVecVal(k, W)

    def step(model, o, t):
        lst, cnt, cleared = model            # allocated identifiers oldest -> newest, their number, "previous cycle ran clear"
        used, order = _view(cfg, o)
        live = [z3.ULT(K(i), cnt) for i in range(n)]
        fid = zx(o.arg("free"), W) if iw else K(0)
        fidx = zx(o.arg("free_idx"), W) if iw else K(0)
        aid = zx(o.out("alloc"), W) if iw else K(0)
        allocated = lambda x: z3.Or(*[z3.And(live[i], lst[i] == x) for i in range(n)])
        asm = [z3.Implies(o.en("free"), allocated(fid)), z3.Implies(o.en("free_idx"), z3.ULT(fidx, cnt))]
        al, fr, fi, cl = o.done("alloc"), o.done("free"), o.done("free_idx"), o.done("clear")
        ob = [
            ("order always accepted", o.done("order") == o.en("order")),
            ("order.used is the number of allocated identifiers", z3.Implies(o.done("order"), used == cnt)),
            ("order.order is a permutation of all identifiers", z3.Implies(o.done("order"), _is_perm(order, n))),
            ("the first used entries of order are the allocated identifiers from oldest to newest",
             z3.Implies(o.done("order"), z3.And(*[z3.Implies(live[i], order[i] == lst[i]) for i in range(n)]))),
            ("after clear the order is the initial (identity) permutation",
             z3.Implies(z3.And(o.done("order"), cleared), z3.And(*[order[i] == i for i in range(n)]))),
            ("alloc runs iff enabled and a free identifier exists", al == z3.And(o.en("alloc"), cnt != n)),
            ("alloc returns an identifier that is not allocated", z3.Implies(al, z3.And(z3.ULT(aid, n), z3.Not(allocated(aid))))),
            ("free and free_idx never run together", z3.Not(z3.And(fr, fi))),
            ("free runs when enabled alone", z3.Implies(z3.And(o.en("free"), z3.Not(o.en("free_idx"))), fr)),
            ("free_idx runs when enabled alone", z3.Implies(z3.And(o.en("free_idx"), z3.Not(o.en("free"))), fi)),
            ("free / free_idx run only when enabled", z3.And(z3.Implies(fr, o.en("free")), z3.Implies(fi, o.en("free_idx")))),
            ("clear always accepted", cl == o.en("clear")),
        ]
        # position of the element to delete
        pos_of = K(0)
        for i in reversed(range(n)):
            pos_of = z3.If(z3.And(live[i], lst[i] == fid), K(i), pos_of)
        dele = z3.Or(fr, fi)
        pos = z3.If(fr, pos_of, fidx)
        l1 = [z3.If(z3.And(dele, z3.UGE(K(i), pos)), lst[i + 1] if i + 1 < n else lst[i], lst[i]) for i in range(n)]
        c1 = z3.If(dele, cnt - 1, cnt)
        l2 = [z3.If(z3.And(al, c1 == i), aid, l1[i]) for i in range(n)]
        c2 = z3.If(al, c1 + 1, c1)
        c3 = z3.If(cl, K(0), c2)
        wit = {"alloc runs": al}
        if n > 1:
            wit.update({"all identifiers allocated": cnt == n, "alloc and free in the same cycle": z3.And(al, fr),
                        "alloc and free_idx in the same cycle": z3.And(al, fi), "free of an identifier that is not the oldest": z3.And(fr, pos != 0),
                        "clear with identifiers allocated": z3.And(cl, cnt != 0)})
        return ob, asm, (l2, c3, cl), wit

    return step


def run(cfg, ctx):
    b = Built(lambda: make(cfg), trace_functions=(ctx.index == 0))
    ctx.functions = b.functions
    n = cfg["entries"]
    step = _step(cfg)
    K = lambda k: z3.BitVecVal(k, W)
    if cfg["mode"] == "bmc":
        init = lambda h: ([K(0)] * n, K(0), z3.BoolVal(True))      # reset state = cleared state
        bmc(ctx, f"PreservedOrderAllocator({n}) vs allocation-order model", b, cfg["K"], step, init, cosim_k=12 if ctx.index < 3 else 0)
        return
    # one-step induction: free state, `order` enabled in both frames, invariant on its view; model list := the view
    u = Unroll(b, free_init=True)
    o = u.cycle()
    used, order = _view(cfg, o)
    pre = [o.en("order"), _is_perm(order, n), z3.ULE(used, n)]
    ob, asm, (l2, c2, cl), _ = step((order, used, z3.BoolVal(False)), o, 0)
    u.advance()
    o2 = u.cycle()
    used2, order2 = _view(cfg, o2)
    post = z3.Implies(o2.en("order"), z3.And(o2.done("order"), _is_perm(order2, n), z3.ULE(used2, n)))
    refine = z3.Implies(o2.en("order"), z3.And(used2 == c2, *[z3.Implies(z3.ULT(K(i), c2), order2[i] == l2[i]) for i in range(n)],
                                              z3.Implies(cl, z3.And(*[order2[i] == i for i in range(n)]))))
    ctx.frames += 2
    ctx.steps += 1
    ctx.witness("IND: invariant satisfiable with every identifier allocated in a non-identity order", pre + [used == n, order[0] != 0])
    u0 = Unroll(b)
    o0 = u0.cycle()
    used0, order0 = _view(cfg, o0)
    ctx.prove("IND base: reset state satisfies the invariant", [o0.en("order")], z3.And(_is_perm(order0, n), used0 == 0), u0)
    for nm, goal in [("step obligations", z3.And(*[c for _, c in ob])), ("invariant preserved", post), ("refinement of the allocation-order model", refine)]:
        s = z3.SolverFor("QF_BV")
        s.set("timeout", 120000)
        s.add(*pre, *asm, z3.Not(goal))
        t = time.time()
        r = str(s.check())
        dt = time.time() - t
        ctx.solver_time += dt
        if r == "sat":
            # a CTI may start in an unreachable state: recorded, never reported (the BMC verdict stands)
            ctx.notes["ind_cti"] = ctx.notes.get("ind_cti", 0) + 1
            ctx._record(f"IND {nm} (CTI found; inductive argument not closed, BMC verdict stands)", "induction", "cti", dt)
        else:
            ctx._record(f"IND {nm} from any state satisfying the invariant", "obligation", r, dt)


def _patch_source(owner, name, old, new):
    """re-compile method `name` of class `owner` with one token changed (idempotent: workers may apply a canary repeatedly)."""
    import inspect
    import sys
    import textwrap

    fn = getattr(owner, name)
    if getattr(fn, "_vf_mutant", False):
        return
    src = textwrap.dedent(inspect.getsource(fn))
    assert old in src, f"canary pattern not found in {owner.__name__}.{name}"
    ns = {}
    exec(src.replace(old, new, 1), sys.modules[owner.__module__].__dict__, ns)
    ns[name]._vf_mutant = True
    setattr(owner, name, ns[name])


def _canary_shift_off_by_one():
    # free_idx shifts the entries strictly above idx only: the freed identifier stays, its successor is duplicated/lost
    from transactron.lib.allocators import PreservedOrderAllocator
    _patch_source(PreservedOrderAllocator, "elaborate", "with m.If(i >= idx):", "with m.If(i > idx):")


def _canary_freed_not_recycled():
    # the freed identifier is not moved to the end of the permutation
    from transactron.lib.allocators import PreservedOrderAllocator
    _patch_source(PreservedOrderAllocator, "elaborate", "m.d.sync += order[self.entries - 1].eq(order[idx])", "pass")


def _canary_used_ignores_free():
    from transactron.lib.allocators import PreservedOrderAllocator
    _patch_source(PreservedOrderAllocator, "elaborate", "m.d.sync += used.eq(incr_used - self.free_idx.run)", "m.d.sync += used.eq(incr_used - self.free.run)")


CANARIES = [("free_idx shifts only the entries above idx", _canary_shift_off_by_one),
            ("freed identifier is not moved behind the used part", _canary_freed_not_recycled),
            ("used count decremented only by free, not by free_idx", _canary_used_ignores_free)]


def _callers_items():
    from transactron.lib import PreservedOrderAllocator

    return [("PreservedOrderAllocator(3)", lambda: PreservedOrderAllocator(3), [("alloc", ["alloc"]), ("free", ["free"]), ("free_idx", ["free_idx"])],
             [("order", ["order"]), ("clear", ["clear"])])]


from ..excl import install as _install  # noqa: E402
_install(globals(), _callers_items())
