"""C37: shifters and rotators compute their documented functions.

`shift_left/shift_right/rotate_left/rotate_right` and the vector variants `shift_vec_*`/`rotate_vec_*` of
transactron.utils.amaranth_ext.shifter are instantiated by the real Python code inside a tiny wrapper module whose
inputs (value, offset, placeholder) are top-level ports.  The netlist is translated to z3 and compared, for ALL
values, placeholders and all offsets 0..width (inclusive), with an independent specification: z3's own
shift/rotate operators for the bit versions and an index-wise definition (`out[i] = data[i +- offset]` or the
placeholder / modulo the length) for the vector versions, whose elements are struct views read back field-wise.
Every (width | length, element kind) is a separate complete query per function.
"""
import z3
from ..comb import comb
from ..util import zx, sel

PROP = "C37"
LEVEL = "proof"
ENGINES = ["E1 nir2smt"]
TECHNIQUE = ("SMT equivalence (z3 QF_BV) between the Amaranth netlist IR of the real shifter functions and an independent "
             "bit-vector / index-wise specification, complete per width; counterexamples replayed on amaranth.sim")
BOUNDS = {
    "quick": "bit versions: widths 1..9, offsets 0..width inclusive, offset signal either just wide enough for `width` or for width-1, "
             "placeholder symbolic and defaulted, operand unsigned and signed; vector versions: lengths 1..4 of 2-field struct views (1+2 bits), of nested struct "
             "views and of plain 2-bit values, offsets 0..length inclusive, placeholder symbolic and defaulted",
    "thorough": "bit versions: widths 1..32 (plus an over-wide offset signal restricted to 0..width); vector versions: lengths 1..10, "
                "three element kinds",
}
OUTSIDE = ["offsets above the width / length (outside the documented domain: the repository's tests draw offsets from range(width+1), "
           "in-tree users pass indices below the width; the implementation shifts in zeros from beyond the doubled vector there)",
           "widths / lengths above the enumerated range", "generic_shift_* with unrelated fill vectors other than placeholder / self"]
ASSUMES = ["offset <= width (bit versions) / offset <= length (vector versions)",
           "sequences are read with element 0 as the least significant position (shift right moves towards index 0), as in the repository's tests"]
W = 8


def configs(tier, seed):
    out = []
    hi = 9 if tier == "quick" else 32
    for w in range(1, hi + 1):
        out.append(dict(group="bits", w=w, ow="exact"))
        if w > 1:
            out.append(dict(group="bits", w=w, ow="narrow"))
        if tier != "quick":
            out.append(dict(group="bits", w=w, ow="wide"))
    for n in range(1, (4 if tier == "quick" else 10) + 1):
        for kind in ("struct", "plain", "nested"):
            out.append(dict(group="vec", n=n, kind=kind))
    return out


def _ones(w):
    return z3.BitVecVal((1 << w) - 1, w)


def _fit(x, w):
    return zx(x, w) if x.size() <= w else z3.Extract(w - 1, 0, x)


def _layout(kind):
    from amaranth.lib import data

    if kind == "struct":
        return data.StructLayout({"a": 1, "b": 2}), [("a",), ("b",)]
    if kind == "nested":
        return data.StructLayout({"p": data.StructLayout({"x": 1, "y": 1}), "q": 2}), [("p", "x"), ("p", "y"), ("q",)]
    return None, []


def run(cfg, ctx):
    from transactron.utils.amaranth_ext import shifter as S
    from amaranth.lib import data

    tf = ctx.index == 0
    if cfg["group"] == "bits":
        w = cfg["w"]
        ow = {"exact": w.bit_length(), "narrow": max((w - 1).bit_length(), 1), "wide": w.bit_length() + 2}[cfg["ow"]]
        b, u, o = comb({"x": w, "off": ow, "p": 1}, lambda m, s: {
            "sl": S.shift_left(s["x"], s["off"], s["p"]), "sr": S.shift_right(s["x"], s["off"], s["p"]),
            "sl0": S.shift_left(s["x"], s["off"]), "sr0": S.shift_right(s["x"], s["off"]),
            "rl": S.rotate_left(s["x"], s["off"]), "rr": S.rotate_right(s["x"], s["off"]),
            # the same functions on a SIGNED operand (any ValueLike is accepted; the result is defined bit-wise)
            "ssl": S.shift_left(s["x"].as_signed(), s["off"], s["p"]), "ssr": S.shift_right(s["x"].as_signed(), s["off"], s["p"]),
            "ssl0": S.shift_left(s["x"].as_signed(), s["off"]), "ssr0": S.shift_right(s["x"].as_signed(), s["off"]),
            "srl": S.rotate_left(s["x"].as_signed(), s["off"]), "srr": S.rotate_right(s["x"].as_signed(), s["off"])}, trace_functions=tf)
        ctx.functions = b.functions
        x, p = o.sig("x"), o.sig("p") == 1
        WW = max(w, ow)
        off = zx(o.sig("off"), WW)
        pre = [z3.ULE(off, w)]
        xx = zx(x, WW)
        ones = zx(_ones(w), WW)
        lo = lambda t: z3.Extract(w - 1, 0, t)
        fill_l = z3.If(p, lo(~(ones << off)), z3.BitVecVal(0, w))
        fill_r = z3.If(p, lo(~z3.LShR(ones, off)), z3.BitVecVal(0, w))
        # rotation amount reduced modulo the width (offset == width is the identity)
        offw = _fit(z3.URem(off, z3.BitVecVal(w, WW)), w)
        tag = f"width {w}, offset signal {ow} bits"
        ctx.witness(f"shifters {tag}: offset == width reachable", pre + ([off == w] if (1 << ow) > w else []))
        ctx.witness(f"shifters {tag}: placeholder 1 with a non-zero offset", pre + [p] + ([off != 0]))
        goals = {
            "shift_left fills with the placeholder": o.sig("o.sl") == (lo(xx << off) | fill_l),
            "shift_right fills with the placeholder": o.sig("o.sr") == (lo(z3.LShR(xx, off)) | fill_r),
            "shift_left default placeholder 0": o.sig("o.sl0") == lo(xx << off),
            "shift_right default placeholder 0": o.sig("o.sr0") == lo(z3.LShR(xx, off)),
            "rotate_left rotates modulo the width": o.sig("o.rl") == z3.RotateLeft(x, offw),
            "rotate_right rotates modulo the width": o.sig("o.rr") == z3.RotateRight(x, offw),
        }
        goals.update({
            "shift_left of a signed operand fills with the placeholder": o.sig("o.ssl") == (lo(xx << off) | fill_l),
            "shift_right of a signed operand fills with the placeholder (not the sign)": o.sig("o.ssr") == (lo(z3.LShR(xx, off)) | fill_r),
            "shift_left of a signed operand, default placeholder 0": o.sig("o.ssl0") == lo(xx << off),
            "shift_right of a signed operand, default placeholder 0 (not the sign)": o.sig("o.ssr0") == lo(z3.LShR(xx, off)),
            "rotate_left of a signed operand": o.sig("o.srl") == z3.RotateLeft(x, offw),
            "rotate_right of a signed operand": o.sig("o.srr") == z3.RotateRight(x, offw),
        })
        for n, g in goals.items():
            ctx.prove(f"{n}, {tag}", pre, g, u)
        for n in ("o.sl", "o.sr", "o.sl0", "o.sr0", "o.rl", "o.rr", "o.ssl", "o.ssr", "o.ssl0", "o.ssr0", "o.srl", "o.srr"):
            if o.sig(n).size() != w:
                ctx.violation(f"result width of {n} for width {w}", f"{o.sig(n).size()} != {w}", "elaboration")
        return

    n, kind = cfg["n"], cfg["kind"]
    lay, fields = _layout(kind)
    ew = 2 if lay is None else lay.size
    ow = n.bit_length()
    ins = {f"d{i}": ew for i in range(n)}
    ins.update(ph=ew, off=ow)
    meta = {}

    def fn(m, s):
        view = (lambda v: v) if lay is None else (lambda v: data.View(lay, v))
        d = [view(s[f"d{i}"]) for i in range(n)]
        ph = view(s["ph"])
        res = {"sr": S.shift_vec_right(d, s["off"], ph), "sl": S.shift_vec_left(d, s["off"], ph),
               "sr0": S.shift_vec_right(d, s["off"]), "sl0": S.shift_vec_left(d, s["off"]),
               "rr": S.rotate_vec_right(d, s["off"]), "rl": S.rotate_vec_left(d, s["off"])}
        outs = {}
        for k, seq in res.items():
            meta[k] = (len(seq), all((lay is None) or (isinstance(e, data.View) and e.shape() == lay) for e in seq))
            for i, e in enumerate(seq):
                outs[f"{k}{i}"] = e.as_value() if hasattr(e, "as_value") else e
                for path in fields:
                    f = e
                    for nm in path:
                        f = getattr(f, nm)
                    outs[f"{k}{i}_{'_'.join(path)}"] = f.as_value() if hasattr(f, "as_value") else f
        return outs

    b, u, o = comb(ins, fn, trace_functions=tf)
    ctx.functions = b.functions
    for k, (ln, typed) in meta.items():
        if ln != n:
            ctx.violation(f"{k}: result length for length {n}", f"{ln} != {n}", "elaboration")
    d = [o.sig(f"d{i}") for i in range(n)]
    ph = o.sig("ph")
    off = zx(o.sig("off"), W)
    pre = [z3.ULE(off, n)]
    zero = z3.BitVecVal(0, ew)
    K = lambda k: z3.BitVecVal(k, W)
    N = z3.BitVecVal(n, W)
    exp = {
        "sr": lambda i, f: z3.If(z3.ULT(K(i) + off, N), sel(d, K(i) + off), f),
        "sl": lambda i, f: z3.If(z3.UGE(K(i), off), sel(d, K(i) - off), f),
        "rr": lambda i, f: sel(d, z3.URem(K(i) + off, N)),
        "rl": lambda i, f: sel(d, z3.URem(K(i) + N - z3.URem(off, N), N)),
    }
    tag = f"length {n} of {kind} elements ({ew} bits)"
    ctx.witness(f"vector shifters {tag}: offset == length reachable, elements differ", pre + [off == n] + ([d[0] != d[1]] if n > 1 else []))
    names = {"sr": "shift_vec_right fills with the placeholder", "sl": "shift_vec_left fills with the placeholder",
             "sr0": "shift_vec_right default placeholder is zero", "sl0": "shift_vec_left default placeholder is zero",
             "rr": "rotate_vec_right rotates modulo the length", "rl": "rotate_vec_left rotates modulo the length"}
    offs = {}
    if lay is not None:
        for path in fields:
            ofs, l = 0, lay
            for nm in path:
                fl = l[nm]
                ofs += fl.offset
                l = fl.shape
                wd = fl.width
            offs[path] = (ofs, wd)
    for k, title in names.items():
        base = k[:2]
        fill = zero if k.endswith("0") else ph
        parts = []
        for i in range(n):
            e = exp[base](i, fill)
            parts.append(o.sig(f"o.{k}{i}") == e)
            for path, (ofs, wd) in offs.items():
                parts.append(o.sig(f"o.{k}{i}_{'_'.join(path)}") == z3.Extract(ofs + wd - 1, ofs, e))
        ctx.prove(f"{title}, {tag}", pre, z3.And(*parts), u)


def _canary_left_fill_not_reversed():
    # generic_shift_left forgets to reverse the fill vector (invisible for constant placeholders, breaks rotate_left)
    import transactron.utils.amaranth_ext.shifter as S
    from amaranth import Cat, Value

    def generic_shift_left(value1, value2, offset):
        value1 = Value.cast(value1)
        value2 = Value.cast(value2)
        return Cat(*reversed(S.generic_shift_right(Cat(*reversed(value1)), value2, offset)))

    S.generic_shift_left = generic_shift_left


def _canary_vec_left_fill_not_reversed():
    import transactron.utils.amaranth_ext.shifter as S

    def generic_shift_vec_left(data1, data2, offset):
        return list(reversed(S.generic_shift_vec_right(list(reversed(data1)), list(data2), offset)))

    S.generic_shift_vec_left = generic_shift_vec_left


def _canary_shift_right_window_short():
    # the selected window of the doubled vector starts one bit too high when the offset equals the width
    import transactron.utils.amaranth_ext.shifter as S
    from amaranth import Cat, Value, Mux

    def generic_shift_right(value1, value2, offset):
        value1 = Value.cast(value1)
        value2 = Value.cast(value2)
        offset = Value.cast(offset)
        return Cat(value1, value2).bit_select(Mux(offset == len(value1), len(value1) - 1, offset), len(value1))

    S.generic_shift_right = generic_shift_right


CANARIES = [("generic_shift_left does not reverse the fill vector", _canary_left_fill_not_reversed),
            ("generic_shift_vec_left does not reverse the fill sequence", _canary_vec_left_fill_not_reversed),
            ("offset == width treated as width-1", _canary_shift_right_window_short)]
