"""C39: OneHotRoundRobin / RoundRobin grant one active requester and serve every persistent requester within `count` cycles.

The real arbiters are elaborated inside a tiny wrapper (requests = top-level port) and translated to a z3 transition
system.  Per count: (1) the representation invariant (`grant_reg` one-hot, resp. `grant < count`) holds at reset and is
preserved by every step from any invariant state; every invariant state is shown reachable from reset, so the
invariant characterises exactly the reachable states; (2) one step from ANY invariant state with ANY request vector:
OneHotRoundRobin's `valid` is high iff a request is present, the grant is then one-hot and designates a requester, and
with no request the gated grant (`grant & valid`) is empty; RoundRobin's registered `valid` is high iff a request was
present and its registered `grant` then names a requester of that cycle; (3) fairness by BMC(count) from any invariant
state: a requester held for `count` consecutive cycles is granted within them (tightness `count-1` is a witness).
"""
import z3
from ..comb import comb
from ..seq import Unroll, cosim
from ..util import zx, bit, onehot, sel

PROP = "C39"
LEVEL = "model_checking"
ENGINES = ["E1 nir2smt", "E3 induction + BMC from any invariant state"]
TECHNIQUE = "inductive invariant + one symbolic step from every invariant state + BMC(count) fairness window, z3 QF_BV on the netlist; counterexamples replayed on amaranth.sim with the state forced"
BOUNDS = {
    "quick": "count 1..6 for both arbiters; all request histories of length count from every invariant (= reachable) state",
    "thorough": "count 1..20",
}
OUTSIDE = ["count above the enumerated range", "count = 0", "use under EnableInserter", "fairness windows for requesters that are not held continuously",
           "the raw `grant` of OneHotRoundRobin when no request is present (it keeps the last value; only the gated grant is claimed empty)"]
ASSUMES = ["single clock domain, reset held low",
           "'grants none' is read on the gated grant (grant & valid); RoundRobin's outputs are registered, so they refer to the requests of the previous cycle",
           "fairness: requester held during cycles 0..count-1; OneHotRoundRobin grant observed in cycles 0..count-1 (combinational), "
           "RoundRobin grant/valid observed in cycles 1..count (registered)"]
W = 8


def configs(tier, seed):
    hi = 6 if tier == "quick" else 20
    return [dict(cls=c, count=n) for n in range(1, hi + 1) for c in ("OneHotRoundRobin", "RoundRobin")]


def _find(b, name):
    """Signal of the elaborated design by its local name (internal registers are locals of `elaborate`)."""
    hits = []
    for frag, info in b.design.fragments.items():
        for sig, nm in info.signal_names.items():
            if nm == name and not any(sig is h for h in hits):
                hits.append(sig)
    if len(hits) != 1:
        raise KeyError(f"signal {name}: {len(hits)} candidates")
    return hits[0]


def _build(cfg, tf):
    from transactron.utils.amaranth_ext import elaboratables as E

    n = cfg["count"]

    def fn(m, s):
        d = E.OneHotRoundRobin(n) if cfg["cls"] == "OneHotRoundRobin" else E.RoundRobin(count=n)
        m.submodules.dut = d
        m.d.comb += d.requests.eq(s["req"])
        if cfg["cls"] == "RoundRobin":
            # registered outputs are read directly from the dut's signals: a combinational copy `o_valid` would alias the
            # flip-flop's nets and the forced-state replay cannot write to a comb-driven alias
            return {}
        return {"valid": d.valid, "grant": d.grant}

    b, _, _ = comb({"req": n}, fn, trace_functions=tf)
    return b


def _prove_all(ctx, items, pre, u):
    for name, goal in items:
        ctx.prove(name, pre, goal, u)


def run(cfg, ctx):
    n = cfg["count"]
    b = _build(cfg, ctx.index == 0)
    ctx.functions = b.functions
    K = lambda k: z3.BitVecVal(k, W)
    if cfg["cls"] == "OneHotRoundRobin":
        greg = _find(b, "grant_reg")
        tag = f"OneHotRoundRobin({n})"
        inv = lambda o: onehot(o.sig(greg))
        # base
        u0 = Unroll(b)
        o0 = u0.cycle()
        ctx.prove(f"{tag}: reset state satisfies the invariant (grant_reg one-hot)", [], inv(o0), u0)
        u0.advance()
        o1 = u0.cycle()
        for j in range(n):
            ctx.witness(f"{tag}: invariant state grant_reg = 1<<{j} is reachable from reset in one step", [o1.sig(greg) == (1 << j)])
        # step
        u = Unroll(b, free_init=True)
        o = u.cycle()
        req, gr, va = o.sig("req"), o.sig("o.grant"), o.sig("o.valid") == 1
        pre = [inv(o)]
        u.advance()
        o2 = u.cycle()
        ctx.frames += 4
        ctx.steps += 2
        ctx.witness(f"{tag}: several requesters and the last granted one among them", pre + ([(req & o.sig(greg)) != 0] + ([z3.Not(onehot(req))] if n > 1 else [])))
        gated = z3.If(va, gr, z3.BitVecVal(0, n))
        _prove_all(ctx, [
            (f"{tag}: invariant preserved by every step", inv(o2)),
            (f"{tag}: valid is high iff a request is present", va == (req != 0)),
            (f"{tag}: with a request present the grant is one-hot", z3.Implies(req != 0, onehot(gr))),
            (f"{tag}: with a request present the granted agent is a requester", z3.Implies(req != 0, (gr & ~req) == 0)),
            (f"{tag}: without requests nothing is granted (grant gated by valid is empty)", z3.Implies(req == 0, gated == 0)),
        ], pre, u)
        # fairness
        for i in range(n):
            uf = Unroll(b, free_init=True)
            pre, got = [], []
            for t in range(n):
                of = uf.cycle()
                if t == 0:
                    pre.append(inv(of))
                pre.append(bit(of.sig("req"), i))
                got.append(z3.And(bit(of.sig("o.grant"), i), of.sig("o.valid") == 1))
                uf.advance()
            ctx.frames += n + 1
            ctx.steps += n
            ctx.prove(f"{tag}: requester {i} held for {n} cycles is granted within them, from any invariant state", pre, z3.Or(*got), uf)
            if n > 1 and i == n - 1:
                ctx.witness(f"{tag}: the window is tight (requester {i} can wait {n - 1} cycles)", pre + [z3.Not(z3.Or(*got[:-1]))])
    else:
        tag = f"RoundRobin({n})"
        gw = (n - 1).bit_length()
        dut_grant = _find(b, "grant") if gw else None
        dut_valid = _find(b, "valid")
        grant = (lambda o: zx(o.sig(dut_grant), W)) if gw else (lambda o: K(0))
        valid = lambda o: o.sig(dut_valid) == 1
        inv = lambda o: z3.ULT(grant(o), n)
        u0 = Unroll(b)
        o0 = u0.cycle()
        ctx.prove(f"{tag}: reset state satisfies the invariant (grant < count)", [], inv(o0), u0)
        u0.advance()
        o1 = u0.cycle()
        for j in range(n):
            ctx.witness(f"{tag}: invariant state grant = {j} is reachable from reset in one step", [grant(o1) == j])
        u = Unroll(b, free_init=True)
        o = u.cycle()
        req = o.sig("req")
        pre = [inv(o)]
        u.advance()
        o2 = u.cycle()
        ctx.frames += 4
        ctx.steps += 2
        reqbits = [bit(req, p) for p in range(n)]
        ctx.witness(f"{tag}: several requesters and the currently granted one among them", pre + [sel(reqbits, grant(o))] + ([z3.Not(onehot(req))] if n > 1 else []))
        _prove_all(ctx, [
            (f"{tag}: invariant preserved by every step", inv(o2)),
            (f"{tag}: valid is high iff a request was present in the previous cycle", valid(o2) == (req != 0)),
            (f"{tag}: when valid, grant designates a requester that was active in the previous cycle", z3.Implies(valid(o2), sel(reqbits, grant(o2)))),
        ], pre, u)
        for i in range(n):
            uf = Unroll(b, free_init=True)
            pre, got = [], []
            for t in range(n + 1):
                of = uf.cycle()
                if t == 0:
                    pre.append(inv(of))
                if t < n:
                    pre.append(bit(of.sig("req"), i))
                if t > 0:
                    got.append(z3.And(valid(of), grant(of) == i))
                uf.advance()
            ctx.frames += n + 2
            ctx.steps += n + 1
            ctx.prove(f"{tag}: requester {i} held for {n} cycles is granted within them, from any invariant state", pre, z3.Or(*got), uf)
            if n > 1 and i == n - 1:
                ctx.witness(f"{tag}: the window is tight (requester {i} can wait {n - 1} cycles)", pre + [z3.Not(z3.Or(*got[:-1]))])
    if ctx.index < 4:
        pts, mism = cosim(b, 12, ctx.seed)
        ctx.cosim_points += pts
        ctx.cosim_traces += 1
        if mism:
            ctx.errors.append(f"cosim mismatch encoder vs pysim in cfg {ctx.cfg}: {mism[:4]}")


def _patch_source(owner, name, old, new):
    """re-compile method `name` of class `owner` with one token changed (idempotent: workers may apply a canary repeatedly)."""
    import inspect
    import sys
    import textwrap

    fn = getattr(owner, name)
    if getattr(fn, "_vf_mutant", False):
        return
    src = textwrap.dedent(inspect.getsource(fn))
    assert old in src, f"canary pattern not found in {owner.__name__}.{name}"
    ns = {}
    exec(src.replace(old, new, 1), sys.modules[owner.__module__].__dict__, ns)
    ns[name]._vf_mutant = True
    setattr(owner, name, ns[name])


def _canary_onehot_skips_lowest():
    # the wrap-around part of the search misses agent 0 (starves it when a higher agent keeps requesting)
    from transactron.utils.amaranth_ext.elaboratables import OneHotRoundRobin
    _patch_source(OneHotRoundRobin, "elaborate", "itertools.chain(reversed(range(i)), reversed(range(i + 1, self.count)))",
                  "itertools.chain(reversed(range(1, i)), reversed(range(i + 1, self.count)))")


def _canary_rr_order():
    # RoundRobin prefers lower-numbered requesters over the successors (fixed priority instead of rotation)
    from transactron.utils.amaranth_ext.elaboratables import RoundRobin
    _patch_source(RoundRobin, "elaborate", "for succ in reversed(range(i + 1, self.count)):", "for succ in range(i + 1, self.count):")


def _canary_onehot_valid():
    from transactron.utils.amaranth_ext.elaboratables import OneHotRoundRobin
    _patch_source(OneHotRoundRobin, "elaborate", "self.valid.eq(self.requests.any())", "self.valid.eq(self.requests[1:].any())")


CANARIES = [("OneHotRoundRobin wrap-around search skips agent 0", _canary_onehot_skips_lowest),
            ("RoundRobin scans successors in fixed priority order", _canary_rr_order),
            ("OneHotRoundRobin valid ignores agent 0", _canary_onehot_valid)]
