"""C07 on generated designs: see vf/core.py (obligations) and vf/designgen.py (design grammar + oracle)."""
from ._core_common import *  # noqa

PROP = "C07"
SCHEDULERS = ("eager",)
OPTS = dict(multi=True, mgroup=True, p_single_group=0.3, alias=True, combiner=True, fsm=True, nested_methods=True, p_fresh=0.96)
BOUNDS = {"quick": "fixed relation family (61 designs: cross-module add_conflict in same-position alternatives of If/Switch/FSM, prioritised method conflicts lifted over an exclusive caller pair, bodies with two ready-dependency sources) + exhaustive small family (2 transactions x call through {direct, alias, nonexclusive method, exclusive method, enable_call} in If/Else alternatives: 93 designs, plus 42 designs with two non-exclusive call sites of one exclusive method through the same / different Method objects) + 40 batches x 12 random designs (<=3 transactions + nested, <=5 methods, If/Elif/Else, sibling If, Switch, FSM, enable_call, aliases, combiners, nested bodies), "
                   "both schedulers where applicable; per design all inputs and all register states",
          "thorough": "1600 batches x 25 random designs, VERIF_SEED-seeded"}
OUTSIDE = OUTSIDE_COMMON
ASSUMES = ASSUMES_COMMON


def configs(tier, seed):
    return systematic_configs(SCHEDULERS, family="relations") + systematic_configs(SCHEDULERS) + batch_configs(tier, seed, 40, 1600, 12 if tier == "quick" else 25, OPTS, SCHEDULERS)


def run(cfg, ctx):
    run_batch(cfg, ctx, {PROP})
