"""Shared driver for the core-property specs (C01-C09, C11): batches of generated designs per configuration."""
import random
from ..core import check_design
from ..designgen import rand_spec

LEVEL = "proof"
ENGINES = ["E1 nir2smt", "E2 designgen+oracle"]
TECHNIQUE = ("SMT (z3 QF_BV) over the Amaranth netlist IR of designs elaborated by the real TransactionManager/scheduler: per design every "
             "obligation is decided for all input valuations and all register states; designs enumerated (seeded generator + oracle computed "
             "from the spec); counterexamples replayed on amaranth.sim")
TRUSTED = ["Amaranth 0.5 elaboration and NIR netlist construction", "vf/nir2smt.py translator (counterexamples replayed on amaranth.sim)",
           "vf/designgen.py oracle (conflicts / eligibility computed from the spec alone, less-demanding readings where the statement is silent)", "z3 5.1.0"]
OUTSIDE_COMMON = ["designs outside the generator grammar (see vf/designgen.py docstring): more than 3 top-level transactions + nested ones, 5 methods, call depth > 3, "
                  "control nesting > 2", "more than three TModules", "schedule_before(x, y) with x defined after y (rejected by a sanity check of the library)"]
ASSUMES_COMMON = ["FSM state registers hold a declared state; round-robin grant registers are one-hot (proved inductive under C09)",
                  "every condition/selector/readiness/enable/argument/result is an independent free input"]


def batch_configs(tier, seed, quick_batches, thorough_batches, per_batch, opts, schedulers=("eager",)):
    nb = quick_batches if tier == "quick" else thorough_batches
    out = []
    for k in range(nb):
        out.append(dict(batch=k, seed=seed * 1000003 + k * 7919 + (0 if tier == "quick" else 500009), n=per_batch, opts=opts,
                        scheduler=schedulers[k % len(schedulers)]))
    return out


def _family(name):
    from ..designgen import systematic_specs, systematic_relation_specs

    return systematic_relation_specs() if name == "relations" else systematic_specs()


def systematic_configs(schedulers=("eager",), family="calls"):
    n = len(_family(family))
    return [dict(systematic=family, lo=lo, hi=min(lo + 12, n), scheduler=s) for s in schedulers for lo in range(0, n, 12)]


def run_batch(cfg, ctx, props):
    if cfg.get("systematic"):
        specs = _family(cfg["systematic"])
        for i in range(cfg["lo"], cfg["hi"]):
            ctx.cfg = dict(cfg, index=i, spec=specs[i])
            r = check_design(specs[i], ctx, set(props), cfg["scheduler"])
            ctx.notes["systematic_designs_" + r] = ctx.notes.get("systematic_designs_" + r, 0) + 1
        ctx.cfg = cfg
        return
    for i in range(cfg["n"]):
        rng = random.Random(cfg["seed"] * 1009 + i)
        spec = rand_spec(rng, cfg["opts"])
        ctx.cfg = dict(cfg, index=i, spec=spec)
        r = check_design(spec, ctx, set(props), cfg["scheduler"])
        ctx.notes["designs_" + r] = ctx.notes.get("designs_" + r, 0) + 1
    ctx.cfg = cfg
