"""C23: multiport memories are equivalent to an ideal synchronous memory (miter against amaranth.lib.memory.Memory).

The real `MultiReadMemory` / `MultiportXORMemory` / `MultiportXORILVTMemory` / `MultiportOneHotILVTMemory` is elaborated
next to a real `amaranth.lib.memory.Memory` with the same shape, depth, init, port counts, per-read-port transparency
and write granularity.  Both are driven from the same input pins (address / data / enable of every port are free in
every cycle); the netlist of the pair is translated to z3 and unrolled from reset.  Under the assumption that no two
write ports with a non-zero enable address the same row in one cycle, the read data of every DUT read port must equal
the read data of the corresponding port of the ideal memory in every cycle (data is held while the read enable is
low).  No hand-written memory model is involved: both sides are real code encoded by the same translator, and every
counterexample is replayed on amaranth.sim before it is reported.
"""
import z3
from amaranth import Elaboratable, Module, Signal
from ..harness import Built
from ..seq import Unroll, cosim

PROP = "C23"
LEVEL = "model_checking"
TECHNIQUE = ("BMC of a miter (DUT memory vs amaranth.lib.memory.Memory in one netlist) from reset, all port stimuli; one query per "
             "(cycle, read port) with the equalities of earlier cycles as already-proven lemmas; amaranth.sim replay of every counterexample")
BOUNDS = {
    "quick": "4 classes; (depth,width) in {(4,2),(4,4),(8,2)} with (r,w) in {(1,2),(2,2)} (MultiReadMemory: w=1), transparent in {all,none}, "
             "init in {[], non-zero}; plus depth 16 x width 2 (address wider than data), depth 3, mixed transparency, partial init and "
             "granularity (MultiReadMemory; both ILVT memories with 1 and 2 write ports; one granule per row on all four classes); BMC 6 cycles from reset (5 for depth 16), all addresses/data/enables",
    "thorough": "as quick plus (r,w) up to (3,3), depths 3,5,6, depth 16 x width 2 for all classes and transparencies, mixed transparency, "
                "partial init, granularity 1/2 (MultiReadMemory, ILVT memories with one write port); BMC 9 cycles (7 for depth 16 and for 3 ports of a kind)",
}
OUTSIDE = ["histories longer than the BMC bound", "depths/widths/port counts not enumerated", "signed or structured shapes",
           "two enabled write ports addressing the same row in one cycle (documented as undefined)", "addresses >= depth",
           "asynchronous (comb) read ports (not offered by these classes)"]
ASSUMES = ["single clock domain, reset held low", "no two write ports with a non-zero enable (any mask bit) address the same row in one cycle",
           "all read and write addresses are < depth (only restrictive for depths that are not a power of two)",
           "the reference is Amaranth's own lib.memory.Memory as simulated/encoded from its netlist cell"]
CLASSES = ["MultiReadMemory", "MultiportXORMemory", "MultiportXORILVTMemory", "MultiportOneHotILVTMemory"]


def _init(cfg):
    d, w = cfg["depth"], cfg["width"]
    if cfg["init"] == "zero":
        return []
    if cfg["init"] == "full":
        return [(5 * i + 3) % (1 << w) for i in range(d)]
    return [(3 * i + 1) % (1 << w) for i in range(max(d // 2, 1))]   # partial: remaining rows are 0


def _transp(cfg, i):
    """write-port indices read port i is transparent for."""
    nw = cfg["nw"]
    if cfg["transp"] == "all":
        return list(range(nw))
    if cfg["transp"] == "none":
        return []
    return [j for j in range(nw) if (i + j) % 2 == 0]    # mixed


class Miter(Elaboratable):
    """DUT memory and ideal memory side by side, same pins."""

    def __init__(self, cfg):
        import amaranth.lib.memory as amem
        import transactron.utils.amaranth_ext.memory as tmem

        self.cfg = cfg
        self.dut = None
        self.ad = {}
        d, w, nr, nw, g = cfg["depth"], cfg["width"], cfg["nr"], cfg["nw"], cfg.get("gran")
        init = _init(cfg)
        self.mem = getattr(tmem, cfg["cls"])(shape=w, depth=d, init=list(init))
        self.ref = amem.Memory(shape=w, depth=d, init=list(init))
        self.wp = [self.mem.write_port(granularity=g) for _ in range(nw)]
        self.rwp = [self.ref.write_port(granularity=g) for _ in range(nw)]
        self.rp = [self.mem.read_port(transparent_for=[self.wp[j] for j in _transp(cfg, i)]) for i in range(nr)]
        self.rrp = [self.ref.read_port(transparent_for=[self.rwp[j] for j in _transp(cfg, i)]) for i in range(nr)]
        self.pins = {}
        for j in range(nw):
            self.pins[f"w{j}.addr"] = Signal(range(d), name=f"w{j}_addr")
            self.pins[f"w{j}.data"] = Signal(w, name=f"w{j}_data")
            self.pins[f"w{j}.en"] = Signal(len(self.wp[j].en), name=f"w{j}_en")
        for i in range(nr):
            self.pins[f"r{i}.addr"] = Signal(range(d), name=f"r{i}_addr")
            self.pins[f"r{i}.en"] = Signal(1, name=f"r{i}_en")

    def elaborate(self, platform):
        m = Module()
        m.submodules.dut = self.mem
        m.submodules.ref = self.ref
        for j, (a, b) in enumerate(zip(self.wp, self.rwp)):
            for p in (a, b):
                m.d.comb += [p.addr.eq(self.pins[f"w{j}.addr"]), p.data.eq(self.pins[f"w{j}.data"]), p.en.eq(self.pins[f"w{j}.en"])]
        for i, (a, b) in enumerate(zip(self.rp, self.rrp)):
            for p in (a, b):
                m.d.comb += [p.addr.eq(self.pins[f"r{i}.addr"]), p.en.eq(self.pins[f"r{i}.en"])]
        return m

    def named_signals(self):
        out = dict(self.pins)
        for i, (a, b) in enumerate(zip(self.rp, self.rrp)):
            out[f"r{i}.dut"] = a.data
            out[f"r{i}.ref"] = b.data
        return out

    def input_signals(self):
        return dict(self.pins)


def _mk(cls, depth, width, nr, nw, transp, init, K, gran=None):
    return dict(cls=cls, depth=depth, width=width, nr=nr, nw=nw, transp=transp, init=init, gran=gran, K=K)


def configs(tier, seed):
    out = []
    multi = CLASSES[1:]
    ilvt = CLASSES[2:]
    K = 6 if tier == "quick" else 9
    for cls in CLASSES:
        for depth, width in ((4, 2), (4, 4), (8, 2)):
            for nr, nw in ((1, 2), (2, 2)):
                if cls == "MultiReadMemory":
                    nw = 1
                for transp in ("all", "none"):
                    for init in ("zero", "full"):
                        out.append(_mk(cls, depth, width, nr, nw, transp, init, K))
    # regression configurations for the defects found (address wider than data, non-zero init, granularity) and the remaining axes;
    # they are part of BOTH tiers so that a regression is caught on every change
    for cls in ilvt:
        out.append(_mk(cls, 16, 2, 1, 2, "all", "zero", 5 if tier == "quick" else 7))     # address (4 bits) wider than data (2 bits)
    out.append(_mk("MultiportXORMemory", 16, 2, 1, 2, "all", "zero", 5 if tier == "quick" else 7))
    out.append(_mk("MultiportXORMemory", 4, 2, 1, 2, "none", "partial", K))                # XOR with non-zero (partial) init
    out.append(_mk("MultiportXORILVTMemory", 4, 2, 1, 2, "none", "partial", K))            # XOR-ILVT with non-zero init
    out.append(_mk("MultiportOneHotILVTMemory", 4, 2, 1, 2, "none", "partial", K))
    for cls in multi:
        out.append(_mk(cls, 4, 2, 2, 2, "mixed", "full", K))
        out.append(_mk(cls, 3, 2, 1, 2, "all", "full", K))                                  # depth not a power of two
    out.append(_mk("MultiReadMemory", 3, 2, 2, 1, "mixed", "full", K))
    out.append(_mk("MultiReadMemory", 4, 4, 2, 1, "all", "full", K, gran=2))
    out.append(_mk("MultiReadMemory", 4, 2, 1, 1, "none", "zero", K, gran=1))
    for cls in ilvt:
        out.append(_mk(cls, 4, 2, 1, 1, "all", "full", K, gran=1))                          # granularity, one write port
        out.append(_mk(cls, 4, 2, 1, 2, "all", "zero", K, gran=1))                          # granularity, two write ports
        out.append(_mk(cls, 4, 2, 1, 2, "none", "zero", K, gran=1))
    # one granule per row (granularity = row width): the one-bit write mask must still be honoured
    out.append(_mk("MultiReadMemory", 4, 2, 2, 1, "all", "full", K, gran=2))
    for cls in multi:
        out.append(_mk(cls, 4, 2, 1, 1, "all", "full", K, gran=2))
        out.append(_mk(cls, 4, 2, 1, 2, "none", "zero", K, gran=2))
    for cls in multi:
        # a write-port count that is not a power of two (bank-index width corner)
        out.append(_mk(cls, 4, 2, 1, 3, "none", "full", 5 if tier == "quick" else 7))
    if tier == "quick":
        return out
    for cls in multi:
        for nr, nw in ((1, 3), (3, 2), (3, 3), (2, 3)):
            for transp in ("all", "none", "mixed"):
                out.append(_mk(cls, 4, 2, nr, nw, transp, "full" if transp != "none" else "zero", 7))
        for depth in (3, 5, 6):
            for transp in ("all", "none"):
                out.append(_mk(cls, depth, 3, 2, 2, transp, "partial", K))
        for transp in ("all", "none", "mixed"):
            for init in ("zero", "full"):
                out.append(_mk(cls, 16, 2, 2, 2, transp, init, 7))
        out.append(_mk(cls, 8, 4, 2, 2, "mixed", "partial", K))
        out.append(_mk(cls, 2, 1, 2, 2, "all", "full", K))
    for nr in (1, 2, 3):
        for depth, width in ((3, 2), (5, 3), (16, 2), (2, 1)):
            for transp in ("all", "none", "mixed"):
                out.append(_mk("MultiReadMemory", depth, width, nr, 1, transp, "partial", K if depth < 16 else 7))
    for g, width in ((1, 2), (2, 4), (1, 3)):
        for transp in ("all", "none"):
            out.append(_mk("MultiReadMemory", 4, width, 2, 1, transp, "full", K, gran=g))
            for cls in ilvt:
                out.append(_mk(cls, 4, width, 2, 1, transp, "full", K, gran=g))
    seen, uniq = set(), []
    for c in out:
        k = tuple(sorted(c.items(), key=lambda kv: kv[0]))
        if k not in seen:
            seen.add(k)
            uniq.append(c)
    return uniq


def _step(cfg):
    d, nr, nw = cfg["depth"], cfg["nr"], cfg["nw"]
    pow2 = not (d & (d - 1))

    def step(model, o, t):
        asm = []
        wa = [o.sig(f"w{j}.addr") for j in range(nw)]
        we = [o.sig(f"w{j}.en") != 0 for j in range(nw)]
        ra = [o.sig(f"r{i}.addr") for i in range(nr)]
        re = [o.sig(f"r{i}.en") == 1 for i in range(nr)]
        for j in range(nw):
            for k in range(j):
                asm.append(z3.Not(z3.And(we[j], we[k], wa[j] == wa[k])))
        if not pow2:
            asm += [z3.ULT(a, d) for a in wa + ra]
        ob = [(f"read port {i} returns the data of the ideal memory", o.sig(f"r{i}.dut") == o.sig(f"r{i}.ref")) for i in range(nr)]
        # model = what happened in the previous cycle (only used by the vacuity witnesses)
        prev = model
        wit = {}
        if prev is not None:
            pwa, pwe, pra, pre = prev
            wit["ideal memory returns non-zero data on an enabled read"] = z3.And(pre[0], o.sig("r0.ref") != 0)
            wit["read of a row written by the last write port in the same cycle"] = z3.And(pre[0], pwe[nw - 1], pwa[nw - 1] == pra[0])
            wit["read disabled (data must be held) while a write hits the held row"] = z3.And(z3.Not(pre[0]), pwe[0])
            if nw > 1:
                wit["two write ports enabled in the same cycle"] = z3.And(pwe[0], pwe[1])
        return ob, asm, (wa, we, ra, re), wit

    return step


def run(cfg, ctx):
    try:
        b = Built(lambda: Miter(cfg), wrap=False, trace_functions=(ctx.index == 0))
    except ValueError as e:
        if cfg.get("gran") is not None and "ranularity" in str(e):
            # the constructor/elaborate rejects this port configuration: outside "configurations the constructors accept"
            ctx.notes["rejected_by_constructor"] = ctx.notes.get("rejected_by_constructor", 0) + 1
            return
        raise
    ctx.functions = b.functions
    name = f"{cfg['cls']} vs lib.memory.Memory"
    K = cfg["K"]
    u = Unroll(b)
    step = _step(cfg)
    model, asm, per_cycle, wit = None, [], [], {}
    # Known finding C23 (ILVT memories with write granularity and >= 2 write ports): a PARTIAL write through port k to a row that
    # holds data and whose live bank is another one leaves the other granules stale.  For this shape the history predicate `trig` ("such a write happened
    # in an earlier cycle") is tracked beside the design; the obligations are decided under NOT trig (anything found there is a
    # violation of its own), and one extra query without the restriction reports the known finding - deterministically, whatever
    # model the solver picks.
    # the known class needs a PARTIAL write, i.e. at least two granules per row; with one granule per row the check is unrestricted
    known_shape = "ILVT" in cfg["cls"] and cfg.get("gran") is not None and cfg["nw"] >= 2 and cfg["width"] // cfg["gran"] > 1
    nw, depth = cfg["nw"], cfg["depth"]
    lb = max((nw - 1).bit_length(), 1)
    live = [z3.BitVecVal(0, lb) for _ in range(depth)]     # data and live-value table start in bank 0
    # with an all-zero initial content a row that was never written is zero in EVERY bank, so the first partial write to it is
    # still exact in the real design; only rows that hold data count for the trigger
    holds_data = [z3.BoolVal(cfg.get("init") != "zero") for _ in range(depth)]
    trig = z3.BoolVal(False)
    unrestricted = []
    for t in range(K):
        o = u.cycle()
        ob, a, model, w = step(model, o, t)
        asm += a
        unrestricted.append((ob, list(asm)))
        per_cycle.append((ob, list(asm) + ([z3.Not(trig)] if known_shape else [])))
        if known_shape:
            full = z3.BitVecVal((1 << o.sig("w0.en").size()) - 1, o.sig("w0.en").size())
            now = []
            for j in range(nw):
                en, ad = o.sig(f"w{j}.en"), o.sig(f"w{j}.addr")
                for row in range(depth):
                    hit = z3.And(en != 0, ad == row)
                    now.append(z3.And(hit, en != full, live[row] != j, holds_data[row]))
                    live[row] = z3.If(hit, z3.BitVecVal(j, lb), live[row])
                    holds_data[row] = z3.Or(holds_data[row], hit)
            trig = z3.Or(trig, *now)
        for k, c in w.items():
            wit.setdefault(k, []).append(c)
        u.advance()
    ctx.frames += K + 1
    ctx.steps += K
    for k, cs in wit.items():
        ctx.witness(f"{name}: reach '{k}' within {K} cycles", asm + [z3.Or(*cs)])
    bad = [z3.Not(z3.And(*[c for _, c in ob])) for ob, _ in per_cycle]
    # One query per (cycle, read port).  The obligations of earlier cycles are added as lemmas: each of them has been
    # proved (unsat) under a subset of the current assumptions before it is used, so this only helps the SAT solver.
    lemmas = []
    for t, (ob, asm_t) in enumerate(per_cycle):
        for lab, c in ob:
            r = ctx.refute(f"{name}: {lab}, cycle {t} (BMC from reset)", asm_t + lemmas + [z3.Not(c)], u,
                           [f"cycle {t}: {lab}"], bad_by_cycle=bad)
            if r is not True:
                return        # first failing cycle = shortest counterexample of this configuration
        lemmas += [c for _, c in ob]
    if known_shape:
        # everything above holds in histories without the trigger; the same obligations without the restriction:
        anybad = z3.Or(*[z3.Not(c) for ob, _ in unrestricted for _, c in ob])
        ctx.witness(f"{name}: a partial write to a row living in another bank is reachable", asm + [trig])
        ctx.refute(f"{name}: every read returns the data of the ideal memory also after a partial write to a row living in another bank "
                   f"[{KNOWN_MARK}], {K} cycles (BMC from reset)", asm + [anybad], u, [f"{KNOWN_MARK}"], bad_by_cycle=bad)
    if ctx.index < 3:
        pts, mism = cosim(b, 10, ctx.seed)
        ctx.cosim_points += pts
        ctx.cosim_traces += 1
        if mism:
            ctx.errors.append(f"cosim mismatch encoder vs pysim in cfg {ctx.cfg}: {mism[:4]}")


KNOWN_MARK = "only reachable through a partial write to a row whose live bank is another port's"


def classify(v):
    """Class label of a violation (used by known_findings matching and in reports); derived from cfg and the replayed trace."""
    import re

    if KNOWN_MARK in v.get("name", ""):
        # this query is only posed after the same obligations were proved for all histories WITHOUT such a write
        return "ilvt-granularity-partial-write-moves-row-to-other-bank"

    c = v.get("cfg", {})
    cls = c.get("cls", "")
    tr = v.get("trace") or []
    bad = v.get("first_bad_cycle") or 0
    nw = c.get("nw", 1)
    mt = re.search(r"read port (\d+)", " ".join(v.get("detail") or []) + v.get("name", ""))
    port = int(mt.group(1)) if mt else 0
    prev = tr[bad - 1] if bad and len(tr) >= bad else {}
    row = prev.get(f"r{port}.addr")
    written = {r.get(f"w{j}.addr") for r in tr[:bad] for j in range(nw) if r.get(f"w{j}.en", 0)}
    same_cycle = any(prev.get(f"w{j}.en", 0) and prev.get(f"w{j}.addr") == row for j in range(nw))
    aw = max((c.get("depth", 1) - 1).bit_length(), 1)
    if "ILVT" in cls and c.get("gran") is not None and row in written:
        if c.get("transp") != "none" and same_cycle:
            return "ilvt-granularity-transparent-bypass-ignores-mask"
        # the known finding is only ever reported through the marked query (see run); a counterexample of any OTHER query of these
        # configurations was found in a history without the trigger and is a violation of its own
        return "ilvt-granularity-outside-the-known-trigger"
    if cls == "MultiportXORILVTMemory" and c.get("init") != "zero" and row not in written:
        return "ilvt-data-init-in-lvt"
    if "ILVT" in cls and c.get("width", 0) < aw and c.get("transp") != "none" and written:
        return "ilvt-read-addr-bypass-width"
    if cls == "MultiportXORILVTMemory" and c.get("init") != "zero":
        return "ilvt-data-init-in-lvt"
    if cls == "MultiportXORMemory" and c.get("init") != "zero" and row in written:
        return "xor-feedback-init"
    return "other"


# ---- canaries -------------------------------------------------------------------------------------------------

def _patch_elaborate(cls, old, new):
    import inspect
    import textwrap
    import transactron.utils.amaranth_ext.memory as M

    src = inspect.getsource(cls.elaborate)
    assert old in src, f"canary anchor not found: {old}"
    ns = {}
    exec(textwrap.dedent(src.replace(old, new)), M.__dict__, ns)
    cls.elaborate = ns["elaborate"]


def _canary_multiread_transparency():
    # MultiReadMemory forgets the transparency of its physical read ports
    import transactron.utils.amaranth_ext.memory as M
    _patch_elaborate(M.MultiReadMemory, "if physical_write_port and write_port in port.transparent_for else []", "if False else []")


def _canary_onehot_bypass():
    # OneHotCodedILVT: the double-stage bypass ignores the write enable
    import transactron.utils.amaranth_ext.memory as M
    _patch_elaborate(M.OneHotCodedILVT, "& write_en_bypass[i]", "")


def _canary_xor_bypass_addr():
    # MultiportXORMemory: double-stage bypass compares with the wrong pipeline stage of the write address
    import transactron.utils.amaranth_ext.memory as M
    _patch_elaborate(M.MultiportXORMemory, "write_addr_bypass.eq(write_regs_addr[index])", "write_addr_bypass.eq(write_port.addr)")


CANARIES = [("MultiReadMemory drops read-port transparency", _canary_multiread_transparency),
            ("OneHotCodedILVT bypass ignores the delayed write enable", _canary_onehot_bypass),
            ("MultiportXORMemory bypass uses an undelayed write address", _canary_xor_bypass_addr)]
