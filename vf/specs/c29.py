"""C29: StreamSource / StreamSink / StreamModuleWrapper obey the ready/valid protocol.

StreamSource: `write` behind an AdapterTrans, `o.ready` a free pin, `o.valid`/`o.payload` observed.  A protocol monitor
(valid and not ready => next cycle valid with the same payload), a sequence monitor (the k-th transfer carries the k-th
written item; a written, not yet transferred item keeps valid high; write executes only when the buffer is empty or
being emptied) run in a BMC from reset; a one-step relation from FREE registers (valid, payload: every value reachable)
characterises the one-slot buffer for all histories.
StreamSink: `i.valid`/`i.payload` free pins; read runs iff enabled and valid, returns the payload, `i.ready` is high
exactly when read runs (so peek alone never consumes), peek runs only when valid and returns the payload; with two
callers of `read` a transferred item is consumed by exactly one of them (and both callers of `peek` may look at it).
StreamModuleWrapper: wrapped around two trivial pass-through stream modules (wires; one register stage); the monitors
run on the module's own `i` and `o` interfaces (what the wrapped module sees is a correct producer and consumer) and
end-to-end (k-th read returns the k-th written item).  Typed interface: around a wire whose input and output payload shapes
differ but have the same width (unsigned/signed, two different structs) callers use the typed views of write's argument and of
read's result; every leaf field, extended into an 8-bit signed signal, must equal the corresponding field of the module's own
payload extended by the shape the MODULE declares (a wrapper that types a side with the other side's shape fails here or
cannot be elaborated by such a caller).
"""
import z3
from ..harness import Harness, Built
from ..seq import bmc, Unroll
from ..util import b2i, sel

PROP = "C29"
LEVEL = "model_checking"
TECHNIQUE = ("BMC from reset with protocol/sequence monitors over symbolic items + one-step relation from free registers for StreamSource + "
             "combinational proof for StreamSink (z3 QF_BV on the netlist of the real components), counterexamples replayed on amaranth.sim")
BOUNDS = {
    "quick": "2-bit payload; StreamSource BMC 6 + one-step relation from any register state; StreamSink complete (stateless); "
             "StreamModuleWrapper around a wire pass-through and a one-register pass-through, BMC 6; typed interface for (i, o) payload shapes (unsigned 4, signed 4), (signed 4, unsigned 4), (struct a:1 b:s3, struct x:s3 y:1), complete (two cycles from reset: write, then read through the stateless wire)",
    "thorough": "payload 1, 2, 4 bits and a 2-field struct (1+2 bits); StreamSource BMC 10 + one-step relation; StreamSink complete; wrapper BMC 10; typed interface additionally for (unsigned 4, struct) and (struct, signed 4)",
}
OUTSIDE = ["payload shapes other than the enumerated ones", "wrapped modules other than the two pass-through modules (the wrapper itself contains no logic besides source and sink)",
           "histories longer than the BMC bound for the wrapper", "eventual acceptance of writes (liveness)"]
ASSUMES = ["single clock domain, reset held low", "callers are AdapterTrans transactions (one per method; two per method for the StreamSink two-caller configuration)",
           "the stream consumer/producer pins are free per cycle (a producer that violates the protocol is allowed for StreamSink, which is stateless)"]
W = 8


def configs(tier, seed):
    out = []
    if tier == "quick":
        shapes, K = ["2"], 6
    else:
        shapes, K = ["1", "2", "4", "s"], 10
    for sh in shapes:
        out.append(dict(comp="source", mode="bmc", shape=sh, K=K))
        out.append(dict(comp="source", mode="step", shape=sh))
        out.append(dict(comp="sink", shape=sh))
        out.append(dict(comp="sink2", shape=sh))
        for mod in ("wire", "reg"):
            out.append(dict(comp="wrapper", module=mod, shape=sh, K=K))
    # typed interfaces: wrapped modules whose input and output payload shapes differ but have the same width
    for io in (("u4", "s4"), ("s4", "u4"), ("sab", "sxy")) + ((("u4", "sab"), ("sxy", "s4")) if tier != "quick" else ()):
        out.append(dict(comp="typed", i=io[0], o=io[1]))
    return out


def _shape(kind):
    from amaranth.lib import data

    if kind == "s":
        return data.StructLayout({"a": 1, "b": 2}), 3
    if kind in ("u4", "s4"):
        from amaranth import signed, unsigned
        return (signed(4) if kind == "s4" else unsigned(4)), 4
    if kind == "sab":
        from amaranth import signed
        return data.StructLayout({"a": 1, "b": signed(3)}), 4
    if kind == "sxy":
        from amaranth import signed
        return data.StructLayout({"x": signed(3), "y": 1}), 4
    return int(kind), int(kind)


def _module(kind, shape, oshape=None):
    from amaranth import Module, Value
    from amaranth.lib import stream, wiring
    from amaranth.lib.wiring import In, Out

    oshape = shape if oshape is None else oshape

    class Wire(wiring.Component):
        def __init__(self):
            super().__init__({"i": In(stream.Signature(shape)), "o": Out(stream.Signature(oshape))})

        def elaborate(self, platform):
            m = Module()
            m.d.comb += [self.o.valid.eq(self.i.valid), Value.cast(self.o.payload).eq(Value.cast(self.i.payload)), self.i.ready.eq(self.o.ready)]
            return m

    class Reg(Wire):
        def elaborate(self, platform):
            m = Module()
            m.d.comb += self.i.ready.eq(~self.o.valid | self.o.ready)
            with m.If(self.i.ready):
                m.d.sync += self.o.valid.eq(self.i.valid)
                with m.If(self.i.valid):
                    m.d.sync += self.o.payload.eq(self.i.payload)
            return m

    return Wire() if kind == "wire" else Reg()


def make(cfg):
    from amaranth import Value
    from transactron.lib.stream import StreamSource, StreamSink, StreamModuleWrapper

    if cfg["comp"] == "typed":
        return _make_typed(cfg)
    shape, _ = _shape(cfg["shape"])
    if cfg["comp"] == "source":
        d = StreamSource(shape)
        return Harness(d, {"write": d.write}, inputs={"ready": d.o.ready}, observe=lambda d: {"valid": d.o.valid, "payload": Value.cast(d.o.payload)})
    if cfg["comp"] == "sink":
        d = StreamSink(shape)
        return Harness(d, {"read": d.read, "peek": d.peek}, inputs={"valid": d.i.valid, "payload": Value.cast(d.i.payload)}, observe=lambda d: {"ready": d.i.ready})
    if cfg["comp"] == "sink2":
        # two independent callers of read and of peek (AdapterTrans transactions on the same method)
        d = StreamSink(shape)
        return Harness(d, {"read": d.read, "read2": d.read, "peek": d.peek, "peek2": d.peek},
                       inputs={"valid": d.i.valid, "payload": Value.cast(d.i.payload)}, observe=lambda d: {"ready": d.i.ready})
    mod = _module(cfg["module"], shape)
    d = StreamModuleWrapper(mod)
    obs = lambda d: {"mi_valid": mod.i.valid, "mi_ready": mod.i.ready, "mi_payload": Value.cast(mod.i.payload),
                     "mo_valid": mod.o.valid, "mo_ready": mod.o.ready, "mo_payload": Value.cast(mod.o.payload)}
    return Harness(d, {"write": d.write, "read": d.read}, observe=obs)


def _typed_fields(kind):
    """leaf fields of a payload shape as the documentation of the wrapped module states them: (path, lsb, width, signed)."""
    return {"u4": [((), 0, 4, False)], "s4": [((), 0, 4, True)],
            "sab": [(("a",), 0, 1, False), (("b",), 1, 3, True)],
            "sxy": [(("x",), 0, 3, True), (("y",), 3, 1, False)]}[kind]


def _make_typed(cfg):
    """StreamModuleWrapper around a wire whose `i` and `o` payload shapes differ (same width).  The callers use the TYPED views of
    `write`'s argument and of `read`'s result: every leaf field of the result is copied into an 8-bit signed signal (Amaranth
    extends it according to the shape the wrapper declared for it), every leaf field of the argument likewise."""
    from amaranth import Module, Signal, Value, signed, Elaboratable
    from transactron.lib.stream import StreamModuleWrapper

    ish, _ = _shape(cfg["i"])
    osh, _ = _shape(cfg["o"])
    mod = _module("wire", ish, osh)
    d = StreamModuleWrapper(mod)
    sigs = {}

    def leaf(view, path):
        for f in path:
            view = getattr(view, f)
        return view

    class Typed(Elaboratable):
        def __init__(self, h):
            self.h = h

        def elaborate(self, platform):
            m = Module()
            for side, ad, val, kind in (("rd", self.h.ad["read"], lambda a: a.data_out.data, cfg["o"]),
                                        ("wr", self.h.ad["write"], lambda a: a.data_in.data, cfg["i"])):
                for path, _lsb, _w, _sg in _typed_fields(kind):
                    s = Signal(signed(8), name="typed_" + side + "_" + "_".join(path))
                    sigs[side + "." + ".".join(path)] = s
                    m.d.comb += s.eq(leaf(val(ad), path))
            return m

    h = Harness(d, {"write": d.write, "read": d.read},
                observe=lambda d: dict({"mi_payload": Value.cast(mod.i.payload), "mo_payload": Value.cast(mod.o.payload),
                                        "mo_valid": mod.o.valid, "mi_valid": mod.i.valid}, **sigs))
    h.subs["typed"] = Typed(h)
    return h


def _run_typed(cfg, ctx):
    name = f"StreamModuleWrapper typed interface (module.i: {cfg['i']}, module.o: {cfg['o']}): "
    try:
        b = Built(lambda: make(cfg), trace_functions=(ctx.index == 0))
    except (AttributeError, TypeError, ValueError) as e:
        first = f"{type(e).__name__}: {e}"
        try:
            Built(lambda: make(cfg))
        except (AttributeError, TypeError, ValueError) as e2:
            if f"{type(e2).__name__}: {e2}" == first:
                ctx._record(name + "write takes the module's input payload shape, read returns its output payload shape (callers elaborate)",
                            "obligation", "sat", 0.0)
                ctx.violation(name + "a caller using the fields of the module's payload shapes cannot be elaborated", first,
                              "reproduced by a second, fresh elaboration")
                return
        raise
    ctx.functions = b.functions
    # StreamSource is a one-slot register: cycle 0 writes (from reset: empty), cycle 1 shows the item to the module and reads it
    u = Unroll(b)
    o0 = u.cycle()
    u.advance()
    o = u.cycle()
    ctx.frames += 2
    ctx.steps += 1

    def ext(bits, lsb, w, sg):
        x = z3.Extract(lsb + w - 1, lsb, bits)
        return z3.SignExt(8 - w, x) if sg else z3.ZeroExt(8 - w, x)

    rd, wr0 = o.done("read"), o0.done("write")
    ctx.witness(name + "an item is written and read in the next cycle", [wr0, rd])
    ctx.witness(name + "a negative / high item is read", [rd, z3.Extract(3, 3, o.sig("mo_payload")) == 1, z3.Extract(2, 2, o.sig("mo_payload")) == 1])
    for path, lsb, w, sg in _typed_fields(cfg["o"]):
        ctx.prove(name + f"read result field {'.'.join(path) or 'data'} is the module's output payload field, extended by ITS shape ({'signed' if sg else 'unsigned'} {w})",
                  [rd], o.sig("rd." + ".".join(path)) == ext(o.sig("mo_payload"), lsb, w, sg), u)
    for path, lsb, w, sg in _typed_fields(cfg["i"]):
        ctx.prove(name + f"write argument field {'.'.join(path) or 'data'} reaches the module's input payload field unchanged",
                  [wr0], z3.And(o0.sig("wr." + ".".join(path)) == ext(o.sig("mi_payload"), lsb, w, sg), o.sig("mi_valid") == 1), u)
    ctx.prove(name + "the item passes through bit-exact", [wr0, rd], z3.And(o.out("read") == o.sig("mo_payload"), o.out("read") == o0.arg("write")), u)


def _source_monitor(st, o, N, valid, ready, payload, pre=""):
    """Producer-side monitors on (valid, ready, payload) fed by the `write` adapter.  st = (prev, q, cnt_in, cnt_out)."""
    prev, q, cin, cout = st
    wr = o.done("write")
    pending = cin != cout
    xfer = z3.And(valid, ready)
    ob = []
    if prev is not None:
        pv, pr, pp = prev
        ob.append((pre + "valid stays high and the payload is stable while the consumer stalls", z3.Implies(z3.And(pv, z3.Not(pr)), z3.And(valid, payload == pp))))
    ob += [(pre + "k-th transfer carries the k-th written item", z3.Implies(xfer, z3.And(pending, payload == sel(q, cout)))),
           (pre + "a written, not yet transferred item keeps valid high", z3.Implies(pending, valid)),
           (pre + "write executes only when the buffer is empty or being emptied", z3.Implies(wr, z3.And(o.en("write"), z3.Or(z3.Not(valid), ready))))]
    q2 = [z3.If(z3.And(wr, cin == i), o.arg("write"), q[i]) for i in range(N)]
    wit = {pre + "stall (valid, not ready)": z3.And(valid, z3.Not(ready)),
           pre + "transfer and write in the same cycle": z3.And(xfer, wr),
           pre + "third item transferred": z3.And(xfer, cout == 2)}
    return ob, ((valid, ready, payload), q2, cin + b2i(wr, W), cout + b2i(xfer, W)), wit


def _step_source(cfg):
    N = cfg["K"]

    def step(st, o, t):
        ob, st2, wit = _source_monitor(st, o, N, o.sig("valid") == 1, o.sig("ready") == 1, o.sig("payload"))
        return ob, [], st2, wit

    return step


def _sink_relations(o, valid, payload, ready, pre=""):
    rd = o.done("read")
    ob = [(pre + "read runs iff enabled and valid", rd == z3.And(o.en("read"), valid)),
          (pre + "read returns the payload", z3.Implies(rd, o.out("read") == payload)),
          (pre + "the stream transfer happens exactly when read runs (nothing else consumes)", ready == rd)]
    return ob


def _step_wrapper(cfg):
    N = cfg["K"]

    def step(st, o, t):
        src, nread = st
        miv, mir, mip = o.sig("mi_valid") == 1, o.sig("mi_ready") == 1, o.sig("mi_payload")
        mov, mor, mop = o.sig("mo_valid") == 1, o.sig("mo_ready") == 1, o.sig("mo_payload")
        ob, src2, wit = _source_monitor(src, o, N, miv, mir, mip, pre="module.i: ")
        ob += _sink_relations(o, mov, mop, mor, pre="module.o: ")
        _, q, cin, _ = src
        rd = o.done("read")
        ob.append(("end to end: k-th read returns the k-th written item", z3.Implies(rd, z3.And(z3.ULT(nread, cin), o.out("read") == sel(q, nread)))))
        wit["third item read"] = z3.And(rd, nread == 2)
        wit["read and write in the same cycle"] = z3.And(rd, o.done("write"))
        wit["read enabled but blocked"] = z3.And(o.en("read"), z3.Not(rd))
        return ob, [], (src2, nread + b2i(rd, W)), wit

    return step


def run(cfg, ctx):
    if cfg["comp"] == "typed":
        return _run_typed(cfg, ctx)
    b = Built(lambda: make(cfg), trace_functions=(ctx.index == 0))
    ctx.functions = b.functions
    _, dw = _shape(cfg["shape"])
    comp = cfg["comp"]
    zero = z3.BitVecVal(0, W)
    if comp == "source" and cfg["mode"] == "bmc":
        N = cfg["K"]
        bmc(ctx, f"StreamSource shape={cfg['shape']}", b, N, _step_source(cfg), lambda h: (None, [z3.BitVecVal(0, dw)] * N, zero, zero), cosim_k=12)
    elif comp == "source":
        # one-slot buffer, characterised from any register state (valid, payload are free: every value is reachable)
        u = Unroll(b, free_init=True)
        o = u.cycle()
        u.advance()
        o2 = u.cycle()
        ctx.frames += 2
        ctx.steps += 1
        v, r, p = o.sig("valid") == 1, o.sig("ready") == 1, o.sig("payload")
        v2, p2 = o2.sig("valid") == 1, o2.sig("payload")
        wr = o.done("write")
        name = f"StreamSource shape={cfg['shape']} one step from any state: "
        ctx.witness(name + "stalled with a write attempt", [v, z3.Not(r), o.en("write")])
        ctx.witness(name + "write while transferring", [v, r, wr])
        for lab, goal in [("stalled => next valid, payload stable", z3.Implies(z3.And(v, z3.Not(r)), z3.And(v2, p2 == p))),
                          ("write executes only when empty or being emptied", z3.Implies(wr, z3.And(o.en("write"), z3.Or(z3.Not(v), r)))),
                          ("executed write => next valid with the written payload", z3.Implies(wr, z3.And(v2, p2 == o.arg("write")))),
                          ("transferred or empty and no write => next not valid (each item emitted once)", z3.Implies(z3.And(z3.Or(z3.Not(v), r), z3.Not(wr)), z3.Not(v2)))]:
            ctx.prove(name + lab, [], goal, u)
        u0 = Unroll(b)
        o0 = u0.cycle()
        ctx.prove(f"StreamSource shape={cfg['shape']}: not valid after reset", [], o0.sig("valid") == 0, u0)
    elif comp == "sink":
        u = Unroll(b)
        o = u.cycle()
        ctx.frames += 1
        rk = b.state_keys_for_replay()
        if [k for k in b.ts.state_keys() if not any(e[1] == "@top/main_module:_keep_sync" for e in rk.get(k) or [])]:
            from ..harness import HarnessError
            raise HarnessError("StreamSink is expected to be stateless")
        valid, payload, ready = o.sig("valid") == 1, o.sig("payload"), o.sig("ready") == 1
        name = f"StreamSink shape={cfg['shape']}: "
        ctx.witness(name + "peek and read run together", [o.done("peek"), o.done("read")])
        ctx.witness(name + "peek runs alone", [o.done("peek"), z3.Not(o.done("read"))])
        obs = _sink_relations(o, valid, payload, ready)
        obs += [("peek runs only when valid", z3.Implies(o.done("peek"), z3.And(o.en("peek"), valid))),
                ("peek returns the payload", z3.Implies(o.done("peek"), o.out("peek") == payload)),
                ("peek without read does not consume (ready low)", z3.Implies(z3.Not(o.done("read")), z3.Not(ready)))]
        for lab, goal in obs:
            ctx.prove(name + lab, [], goal, u)
    elif comp == "sink2":
        u = Unroll(b)
        o = u.cycle()
        ctx.frames += 1
        valid, payload, ready = o.sig("valid") == 1, o.sig("payload"), o.sig("ready") == 1
        r1, r2 = o.done("read"), o.done("read2")
        name = f"StreamSink shape={cfg['shape']}, two callers of read and of peek: "
        ctx.witness(name + "both readers enabled, one runs", [o.en("read"), o.en("read2"), z3.Or(r1, r2)])
        ctx.witness(name + "both peeks run with a read", [o.done("peek"), o.done("peek2"), z3.Or(r1, r2)])
        obs = [("a transferred item is consumed by exactly one reader (the two reads never run together)", z3.Not(z3.And(r1, r2))),
               ("some enabled reader runs iff valid", z3.Or(r1, r2) == z3.And(z3.Or(o.en("read"), o.en("read2")), valid)),
               ("a reader runs only when enabled", z3.And(z3.Implies(r1, o.en("read")), z3.Implies(r2, o.en("read2")))),
               ("the stream transfer happens exactly when a read runs", ready == z3.Or(r1, r2)),
               ("the running reader returns the payload", z3.And(z3.Implies(r1, o.out("read") == payload), z3.Implies(r2, o.out("read2") == payload))),
               ("peeks run iff enabled and valid (non-exclusive), return the payload",
                z3.And(o.done("peek") == z3.And(o.en("peek"), valid), o.done("peek2") == z3.And(o.en("peek2"), valid),
                       z3.Implies(o.done("peek"), o.out("peek") == payload), z3.Implies(o.done("peek2"), o.out("peek2") == payload)))]
        for lab, goal in obs:
            ctx.prove(name + lab, [], goal, u)
    else:
        N = cfg["K"]
        init = lambda h: ((None, [z3.BitVecVal(0, dw)] * N, zero, zero), zero)
        bmc(ctx, f"StreamModuleWrapper({cfg['module']}) shape={cfg['shape']}", b, N, _step_wrapper(cfg), init, cosim_k=12 if ctx.index < 8 else 0)


def _patch(cls, old, new):
    import inspect
    import textwrap
    import transactron.lib.stream as S

    if getattr(cls.elaborate, "_verif_mutant", False):
        return
    src = textwrap.dedent(inspect.getsource(cls.elaborate))
    assert old in src
    ns = {}
    exec(src.replace(old, new), S.__dict__, ns)
    ns["elaborate"]._verif_mutant = True
    cls.elaborate = ns["elaborate"]


def _canary_source_always_ready():
    # write accepted while a stalled item is still in the buffer (overwrites it)
    from transactron.lib.stream import StreamSource
    _patch(StreamSource, "ready=(~self.o.valid | self.o.ready)", "ready=1")


def _canary_source_drops_valid():
    # valid is dropped after one cycle even if the consumer was not ready
    from transactron.lib.stream import StreamSource
    _patch(StreamSource, "with m.If(self.o.ready & ~self.write.run):", "with m.If(~self.write.run):")


def _canary_sink_peek_consumes():
    from transactron.lib.stream import StreamSink
    _patch(StreamSink, 'def _():\n        return {"data": self.i.payload}', 'def _():\n        m.d.comb += self.i.ready.eq(1)\n        return {"data": self.i.payload}')


CANARIES = [("StreamSource.write always ready (overwrites a stalled item)", _canary_source_always_ready),
            ("StreamSource drops valid without a transfer", _canary_source_drops_valid),
            ("StreamSink.peek consumes", _canary_sink_peek_consumes)]


def _callers_items():
    from transactron.lib.stream import StreamSource

    return [("StreamSource(2 bits)", lambda: StreamSource(2), [("write", ["write"])], [])]


from ..excl import install as _install  # noqa: E402
_install(globals(), _callers_items())
