"""C42: DependencyManager keys behave as documented (list / simple / unifier keys, lock_on_get, cache).

The REAL `DependencyManager`, `ListKey`, `SimpleKey` and `UnifierKey` classes are executed; dependency values (and the
default value of simple keys) are opaque `vf.pysym` proxies, so any attempt of the code to look into, compare, hash or
copy-by-value a dependency is detected, and "the value returned is THAT dependency" is a term equality.

(a) Inductive step.  A real manager object is put into a symbolic VALID state: for the operated key and for one
    bystander key the number of dependencies (0..2), the presence of the `dependencies` entry, the presence of a cache
    entry (whose value is the documented combination of the current dependencies) and the locked flag are symbolic
    and only constrained by the state invariant below; `pysym` forks enumerate the shapes.  ONE `add_dependency`,
    `get_dependency` or `get_optional_dependency` is executed on the key.  Asserted: the result prescribed by the
    docstrings, the frame (the bystander key's dependencies / cache / lock are untouched, the very same objects) and
    that the post-state satisfies the invariant again, in particular `key in cache => cache[key] == combine(deps)`.
    Every reachable state satisfies the invariant (empty manager: base case; every operation: this step), hence a
    cached result is never stale after a history of ANY length over any number of keys of these kinds.
(b) Histories.  Every operation skeleton (which operation on which of 4 keys) of the stated length is executed from
    the empty manager through the public API only, next to an independent reference model written from the
    docstrings; all results and raised exceptions along the way are compared.

HONEST NOTE: dependency values are opaque to this code, control flow depends only on the skeleton.  The solver
therefore decides only (1) that the forked state shapes cover the whole invariant (one query per configuration) and
(2) equalities between value terms which are syntactically trivial when the code is right.  The substance of this
check is the exhaustive enumeration of state shapes / skeletons against the reference model (`ctx.notes`:
skeletons_enumerated_exhaustively, state_shapes_enumerated).
"""
import itertools
import z3

from ..pysym import Engine, SInt, SBool, Unsupported, implies, all_of, model_int

PROP = "C42"
LEVEL = "model_checking"
ENGINES = ["E4 pysym"]
TECHNIQUE = ("execution of the real DependencyManager on opaque symbolic values: one-step induction over a symbolic valid manager state "
             "(shapes enumerated by solver-checked forks) + exhaustive skeleton enumeration of bounded histories against a reference model")
BOUNDS = {
    "quick": "induction: every key kind (list, simple, simple+default, unifier-style, call-counting) x lock_on_get x cache x "
             "{add, get_dependency, get_optional_dependency}, 0..2 dependencies, one bystander key (kind rotating, 0..1 dependencies); histories: all 8^4 = 4096 "
             "skeletons of 4 operations {add, get_dependency} over 4 keys, for 6 assignments of kinds/flags to the 4 keys",
    "thorough": "induction: additionally every bystander kind with 0..2 dependencies; histories: all 12^4 skeletons of 4 operations {add, get_dependency, "
                "get_optional_dependency} over 4 keys for 12 assignments, all 8^5 skeletons of 5 operations for 6 assignments, and all 4^8 "
                "skeletons of 8 operations {add, get} over 2 keys for 10 pairs",
}
OUTSIDE = ["keys with a user-defined combine other than the call-counting one used here; the real Unifier modules behind UnifierKey (stubbed)",
           "dependency values that are None (get_dependency treats a None result as 'not provided'), default_value None",
           "whether a get_dependency that FAILED (KeyError / error from combine) locks the key (get_optional_dependency answering None is treated as a read): the docstring speaks of keys 'already read'; both outcomes accepted",
           "aliasing: ListKey.combine hands out the manager's internal list, so a list obtained earlier grows when a non-locking key is extended later",
           "DependencyContext (the stack of managers)", "histories longer than the bound for the black-box part (the inductive step covers the state invariant only)"]
ASSUMES = ["dependency values and default values are opaque, non-None objects (pysym proxies)",
           "UnifierKey.unifier is a stub class that records the list of methods it was built from and exposes `.method`",
           "call-counting key: combine returns (number of combine calls so far for this key, tuple(data)); used to observe whether a result came from the cache",
           "induction: states are described by the public attributes dependencies / cache / locked_dependencies; invariant per key: "
           "deps non-empty => entry present; entry present and not empty_valid => deps non-empty; locked => lock_on_get; cache entry => key.cache, entry "
           "present, combine defined on deps, value == combine(deps), and (lock_on_get => locked)",
           "'an error' for a simple key with more than one dependency: any exception raised by get_dependency",
           "an add_dependency that raises leaves the key's dependencies unchanged"]
TRUSTED = ["vf/pysym.py proxies and fork enumeration (coverage of the state invariant is a solver query per configuration)", "z3 5.1.0",
           "CPython dict / set / list / dataclass semantics"]
FUNCTIONS = ["transactron/utils/dependencies.py:DependencyManager.add_dependency", "transactron/utils/dependencies.py:DependencyManager.get_dependency",
             "transactron/utils/dependencies.py:DependencyManager.get_optional_dependency", "transactron/utils/dependencies.py:SimpleKey.combine",
             "transactron/utils/dependencies.py:ListKey.combine", "transactron/lib/dependencies.py:UnifierKey.combine"]
W = 32
KINDS = ["list", "simple", "simple_default", "unifier", "counting"]
EMPTY_VALID = {"list": True, "simple": False, "simple_default": True, "unifier": False, "counting": False}
OPS2 = ["add", "get"]
OPS3 = ["add", "get", "opt"]


# ---------------------------------------------------------------------------------------------------------------------
# real key classes (created per run: default_value / counters are per run)
# ---------------------------------------------------------------------------------------------------------------------
class _StubUnifier:
    """stands for a transactron.lib.transformers.Unifier: built from the list of methods, presents one method."""

    def __init__(self, methods):
        self.methods = list(methods)
        self.method = _Unified(self)


class _Unified:
    def __init__(self, unifier):
        self.unifier = unifier


def _make_key(kind, lock, cache, tag, dflt, calls):
    """an instance of a fresh frozen-dataclass key class of the REAL base class for `kind`."""
    from dataclasses import dataclass
    from transactron.utils.dependencies import DependencyKey, SimpleKey, ListKey
    from transactron.lib.dependencies import UnifierKey

    ns = {"lock_on_get": lock, "cache": cache, "__annotations__": {"tag": int}, "__module__": __name__}
    kw = {}
    if kind == "list":
        base = ListKey
    elif kind == "simple":
        base = SimpleKey
    elif kind == "simple_default":
        base = SimpleKey
        ns["empty_valid"] = True
        ns["default_value"] = dflt
    elif kind == "unifier":
        base = UnifierKey
        kw["unifier"] = _StubUnifier
    else:
        base = DependencyKey

        def combine(self, data):
            calls[self.tag] = calls.get(self.tag, 0) + 1
            return (calls[self.tag], tuple(data))

        ns["combine"] = combine
    cls = dataclass(frozen=True)(type(f"K_{kind}_{int(lock)}{int(cache)}", (base,), ns, **kw))
    return cls(tag)


# ---------------------------------------------------------------------------------------------------------------------
# reference model, written from the docstrings
# ---------------------------------------------------------------------------------------------------------------------
def _combine_doc(kind, deps, dflt, ncalls):
    """documented result of reading a key holding `deps`: ('missing',) | ('error',) | ('ok', descriptor)."""
    n = len(deps)
    if kind == "list":  # "Provides list of dependencies" (empty_valid: the empty list when nothing was added)
        return ("ok", ("list", list(deps)))
    if kind in ("simple", "simple_default"):
        if n == 0:  # "default value returned when no dependencies are added. To enable it empty_valid must be True" / KeyError otherwise
            return ("ok", ("value", dflt)) if kind == "simple_default" else ("missing",)
        if n == 1:
            return ("ok", ("value", deps[0]))
        return ("error",)  # "If more than one dependency is added to a simple key, an error is raised"
    if n == 0:
        return ("missing",)
    if kind == "unifier":  # one method: the method itself and no unifier; several: a unifier over all of them presents a single method
        return ("ok", ("single", deps[0]) if n == 1 else ("unified", list(deps)))
    return ("ok", ("count", ncalls + 1, list(deps)))


def _eq(a, b):
    """z3 Bool: the two leaves are the same value (term equality for proxies, == for plain ints in concrete re-runs)."""
    if isinstance(a, SInt) and isinstance(b, SInt):
        return a.e == b.e
    if isinstance(a, (SInt, SBool)) or isinstance(b, (SInt, SBool)):
        return z3.BoolVal(False)
    if type(a) is int and type(b) is int:
        return z3.BoolVal(a == b)
    return z3.BoolVal(a is b)


def _all_eq(xs, ys):
    if len(xs) != len(ys):
        return z3.BoolVal(False)
    return z3.And(*[_eq(x, y) for x, y in zip(xs, ys)]) if xs else z3.BoolVal(True)


def _matches(res, desc):
    """z3 Bool: the value `res` returned by the real code is the documented one."""
    tag = desc[0]
    if tag == "list":
        return _all_eq(res, desc[1]) if type(res) is list else z3.BoolVal(False)
    if tag == "value":
        return _eq(res, desc[1])
    if tag == "single":
        ok = type(res) is tuple and len(res) == 2 and isinstance(res[1], tuple) and len(res[1]) == 0
        return _eq(res[0], desc[1]) if ok else z3.BoolVal(False)
    if tag == "unified":
        ok = (type(res) is tuple and len(res) == 2 and isinstance(res[1], tuple) and len(res[1]) == 1 and isinstance(res[1][0], _StubUnifier)
              and res[0] is res[1][0].method)
        return _all_eq(res[1][0].methods, desc[1]) if ok else z3.BoolVal(False)
    if tag == "count":
        ok = type(res) is tuple and len(res) == 2 and res[0] == desc[1] and type(res[1]) is tuple
        return _all_eq(list(res[1]), desc[2]) if ok else z3.BoolVal(False)
    if tag == "same":  # the cached object itself
        return z3.BoolVal(res is desc[1])
    raise AssertionError(tag)


def _call(fn, *a):
    try:
        return ("ret", fn(*a))
    except Unsupported:
        raise
    except Exception as e:  # noqa
        return ("exc", e)


class _ModelKey:
    def __init__(self, kind, lock, cache):
        self.kind, self.lock, self.cache = kind, lock, cache
        self.deps, self.read_ok, self.read_any = [], False, False
        self.memo = None  # documented cache: result of the last successful read, dropped by add
        self.ncalls = 0


def _history(keyspecs, skeleton, value, dflt, keys=None, calls=None):
    """Runs a skeleton on a fresh real manager next to the reference model.  Returns [(label, z3 Bool)]."""
    from transactron.utils.dependencies import DependencyManager

    if keys is None:
        calls = {}
        keys = [_make_key(k, lo, ca, i, dflt, calls) for i, (k, lo, ca) in enumerate(keyspecs)]
    calls.clear()
    model = [_ModelKey(*ks) for ks in keyspecs]
    dm = DependencyManager()
    out = []
    for step, (op, ki) in enumerate(skeleton):
        key, mk = keys[ki], model[ki]
        where = f"step {step} {op}(key{ki}:{mk.kind})"
        if op == "add":
            v = value(step)
            r = _call(dm.add_dependency, key, v)
            must = mk.lock and mk.read_ok
            may = mk.lock and mk.read_any
            if r[0] == "exc":
                out.append((f"{where}: add raises only on a key that locks on get and was read, and then a KeyError (raised {type(r[1]).__name__})",
                            z3.BoolVal((must or may) and isinstance(r[1], KeyError))))
            else:
                out.append((f"{where}: add after a successful read of a locking key raises", z3.BoolVal(not must)))
                out.append((f"{where}: add_dependency returns None", z3.BoolVal(r[1] is None)))
                mk.deps.append(v)
                mk.memo = None
            continue
        r = _call(dm.get_dependency if op == "get" else dm.get_optional_dependency, key)
        mk.read_any = True
        if mk.cache and mk.memo is not None:
            exp = ("ok", mk.memo)
        else:
            exp = _combine_doc(mk.kind, mk.deps, dflt, mk.ncalls)
            if exp[0] == "ok" and mk.kind == "counting":
                mk.ncalls += 1
            if exp[0] == "ok" and mk.cache:
                mk.memo = exp[1]
        if exp[0] == "missing":
            if op == "get":
                out.append((f"{where}: nothing provided and no default: KeyError", z3.BoolVal(r[0] == "exc" and isinstance(r[1], KeyError))))
            else:
                out.append((f"{where}: nothing provided and no default: None", z3.BoolVal(r[0] == "ret" and r[1] is None)))
        elif exp[0] == "error":
            out.append((f"{where}: simple key with {len(mk.deps)} dependencies: an error is raised", z3.BoolVal(r[0] == "exc")))
        else:
            mk.read_ok = True
            if r[0] != "ret":
                out.append((f"{where}: returns a value (raised {type(r[1]).__name__}: {r[1]})", z3.BoolVal(False)))
            else:
                out.append((f"{where}: returns the documented value", _matches(r[1], exp[1])))
    return out


# ---------------------------------------------------------------------------------------------------------------------
# configurations
# ---------------------------------------------------------------------------------------------------------------------
def _assignments(n, nkeys=4):
    """n assignments of (kind, lock_on_get, cache) to the keys; together they contain every (kind, lock, cache)."""
    combos = [(k, lo, ca) for k in KINDS for lo in (True, False) for ca in (True, False)]
    out = []
    for a in range(n):
        out.append([list(combos[(a * nkeys + i * 7 + a // 5) % len(combos)]) for i in range(nkeys)])
    return out


def configs(tier, seed):
    out = []
    for kind in KINDS:
        for lock in (True, False):
            for cache in (True, False):
                for op in OPS3:
                    bys = KINDS if tier == "thorough" else [KINDS[(KINDS.index(kind) + 1 + OPS3.index(op)) % len(KINDS)]]
                    for bk in bys:
                        out.append(dict(mode="ind", kind=kind, lock=lock, cache=cache, op=op, bkind=bk, block=not lock if bk != kind else lock, bcache=True,
                                        bmax=1 if tier == "quick" else 2))
    if tier == "quick":
        for keys in _assignments(6):
            for first in range(8):
                out.append(dict(mode="hist", keys=keys, ops=OPS2, length=4, first=[first]))
    else:
        for keys in _assignments(12):
            for first in range(12):
                out.append(dict(mode="hist", keys=keys, ops=OPS3, length=4, first=[first]))
        for keys in _assignments(6):
            for f1 in range(8):
                for f2 in range(8):
                    out.append(dict(mode="hist", keys=keys, ops=OPS2, length=5, first=[f1, f2]))
        for keys in _assignments(10, 2):
            for f1 in range(4):
                for f2 in range(4):
                    out.append(dict(mode="hist", keys=keys, ops=OPS2, length=8, first=[f1, f2]))
    return out


# ---------------------------------------------------------------------------------------------------------------------
# (b) histories
# ---------------------------------------------------------------------------------------------------------------------
def _run_hist(cfg, ctx):
    keyspecs = [tuple(k) for k in cfg["keys"]]
    alphabet = [(op, ki) for op in cfg["ops"] for ki in range(len(keyspecs))]
    first = [alphabet[i] for i in cfg["first"]]
    eng = Engine(width=W)  # never forks here: the proxies only need an owner
    dflt = SInt(eng, z3.BitVec("dflt", W))
    vals = [SInt(eng, z3.BitVec(f"v{step}", W)) for step in range(cfg["length"])]
    value = vals.__getitem__
    calls = {}
    keys = [_make_key(k, lo, ca, i, dflt, calls) for i, (k, lo, ca) in enumerate(keyspecs)]
    rest = cfg["length"] - len(first)
    note = lambda k, n=1: ctx.notes.__setitem__(k, ctx.notes.get(k, 0) + n)
    group = max(1, rest - 2)  # one solver query per prefix of this many further operations
    desc = ", ".join(f"key{i}={k}{'/lock' if lo else ''}{'/cache' if ca else ''}" for i, (k, lo, ca) in enumerate(keyspecs))
    seen_lock = 0
    for mid in itertools.product(alphabet, repeat=min(group, rest)):
        goals = []
        for tail in itertools.product(alphabet, repeat=rest - len(mid)):
            sk = first + list(mid) + list(tail)
            obl = _history(keyspecs, sk, value, dflt, keys, calls)
            note("skeletons_enumerated_exhaustively")
            note("history_operations_executed", len(sk))
            for lab, g in obl:
                if "add raises only" in lab and z3.is_true(g):
                    seen_lock += 1
                goals.append((sk, lab, g))
        name = f"all results as documented for every history {[f'{o}{k}' for o, k in first + list(mid)]} + {rest - len(mid)} more operations ({desc})"
        trivially = [x for x in goals if not z3.is_true(z3.simplify(x[2]))]
        box = {}

        def detail(m, goals=goals):
            bad = [(sk, lab) for sk, lab, g in goals if z3.is_false(m.eval(g, model_completion=True))]
            box["bad"] = bad
            return [f"{[f'{o}{k}' for o, k in sk]}: {lab}" for sk, lab in bad[:4]]

        r = ctx.prove(name, [], z3.And(*[g for _, _, g in goals]), None, detail=detail)
        note("history_obligations_nontrivial_for_the_solver", len(trivially))
        if r is False:
            ctx.violations.pop()
            sk, lab = box["bad"][0]
            # concrete re-execution of the real code on plain ints
            conc = _history(keyspecs, sk, lambda step: 1000 + step, 7)
            again = [lb for lb, g in conc if z3.is_false(z3.simplify(g))]
            if again:
                ctx.violation(f"history {[f'{o}{k}' for o, k in sk]} ({desc})", "; ".join(again[:3]), confirmed="re-executed concretely")
            else:
                ctx.errors.append(f"C42: symbolic failure '{lab}' of {sk} does not reproduce on concrete values")
            return
    # vacuity: the enumerated skeletons of this configuration do contain the interesting situations
    if any(lo for _, lo, _ in keyspecs):
        ctx.witness(f"some history adds to a key after reading it ({desc})", [z3.BoolVal(seen_lock > 0)])


# ---------------------------------------------------------------------------------------------------------------------
# (a) inductive step
# ---------------------------------------------------------------------------------------------------------------------
def _combine_defined(kind, n):
    """combine(deps) is a value (not missing / error) for n dependencies; n may be a proxy or an int."""
    if kind == "list":
        return True
    if kind == "simple":
        return n == 1
    if kind == "simple_default":
        return n <= 1
    return n >= 1


def _valid(kind, lock, cache, n, entry, cached, locked):
    """state invariant of one key (works on proxies and on plain values)."""
    return all_of(implies(n > 0, entry),
                  True if EMPTY_VALID[kind] else implies(entry, n >= 1),
                  implies(locked, lock),
                  implies(cached, all_of(cache, entry, _combine_defined(kind, n), implies(lock, locked))))


class _Conc:
    """concrete stand-in for the Engine: replays a solver model on plain Python values."""

    def __init__(self, env):
        self.env = env

    def int(self, name, lo=None, hi=None):
        return self.env.get(name, 0)

    def bool(self, name):
        return bool(self.env.get(name, False))

    def assume(self, c):
        if not c:
            raise AssertionError("model outside the state invariant")


def _sym_key_state(e, pfx, kind, lock, cache, maxn=2):
    n = e.int(pfx + "n", 0, maxn)
    entry, cached, locked, alias = e.bool(pfx + "entry"), e.bool(pfx + "cached"), e.bool(pfx + "locked"), e.bool(pfx + "alias")
    e.assume(_valid(kind, lock, cache, n, entry, cached, locked))
    e.assume(implies(alias, all_of(cached, kind == "list")))  # only a cached list can be the dependency list itself
    # concretise the shape (forks)
    nn = 0 if n == 0 else (1 if n == 1 else 2)
    return dict(n=nn, entry=bool(entry), cached=bool(cached), locked=bool(locked), alias=bool(alias),
                deps=[e.int(f"{pfx}d{i}") for i in range(nn)])


def _install(dm, key, kind, st, dflt, calls, tag):
    """writes the state of one key into the real manager; returns the cache value object (or None)."""
    if st["entry"]:
        dm.dependencies[key] = list(st["deps"])
    if st["locked"]:
        dm.locked_dependencies.add(key)
    cv = None
    if st["cached"]:
        deps = st["deps"]
        if kind == "list":
            cv = dm.dependencies[key] if st["alias"] else list(deps)
        elif kind in ("simple", "simple_default"):
            cv = deps[0] if deps else dflt
        elif kind == "unifier":
            if len(deps) == 1:
                cv = (deps[0], ())
            else:
                u = _StubUnifier(deps)
                cv = (u.method, (u,))
        else:
            calls[tag] = 3  # three combine calls so far, the last one produced the cached value
            cv = (3, tuple(deps))
        dm.cache[key] = cv
    return cv


def _snapshot(dm, key):
    d = dm.dependencies.get(key) if key in dm.dependencies else None  # .get never creates an entry
    return dict(entry=key in dm.dependencies, deps_obj=d, deps=list(d) if d is not None else [], cached=key in dm.cache,
                cache_obj=dm.cache.get(key), locked=key in dm.locked_dependencies)


def _cache_desc(kind, deps, dflt, calls_before, calls_after):
    """documented value of a cache entry for the current dependencies."""
    r = _combine_doc(kind, deps, dflt, 0)
    if r[0] != "ok":
        return None
    if kind == "counting":
        return ("countle", calls_after, list(deps))
    return r[1]


def _ind_body(cfg):
    kind, lock, cache, op = cfg["kind"], cfg["lock"], cfg["cache"], cfg["op"]
    bkind, block, bcache = cfg["bkind"], cfg["block"], cfg["bcache"]

    def body(e):
        from transactron.utils.dependencies import DependencyManager

        calls = {}
        dflt = e.int("dflt")
        newv = e.int("newv")
        K = _make_key(kind, lock, cache, 0, dflt, calls)
        B = _make_key(bkind, block, bcache, 1, dflt, calls)
        sk = _sym_key_state(e, "k_", kind, lock, cache)
        sb = _sym_key_state(e, "b_", bkind, block, bcache, cfg.get("bmax", 2))
        dm = DependencyManager()
        cvK = _install(dm, K, kind, sk, dflt, calls, 0)
        _install(dm, B, bkind, sb, dflt, calls, 1)
        preB = _snapshot(dm, B)
        callsK = calls.get(0, 0)
        callsB = calls.get(1, 0)
        deps0 = list(sk["deps"])
        if op == "add":
            r = _call(dm.add_dependency, K, newv)
        else:
            r = _call(dm.get_dependency if op == "get" else dm.get_optional_dependency, K)
        post, postB = _snapshot(dm, K), _snapshot(dm, B)
        ob = []
        T, F = z3.BoolVal(True), z3.BoolVal(False)
        bv = lambda x: T if x else F
        # ---- result and effect on the key, per documentation
        if op == "add":
            if sk["locked"]:
                ob.append(("add to a locked key raises KeyError", bv(r[0] == "exc" and isinstance(r[1], KeyError))))
                exp_deps = deps0
            else:
                ob.append(("add to an unlocked key succeeds and returns None", bv(r[0] == "ret" and r[1] is None)))
                exp_deps = deps0 + [newv]
            ob.append(("dependencies afterwards: old ones in order, then the new one (unchanged if the add was refused)", _all_eq(post["deps"], exp_deps)))
            ob.append(("add does not change the lock", bv(post["locked"] == sk["locked"])))
            ncalls_exp = callsK
        else:
            exp_deps = deps0
            if sk["cached"]:  # "subsequent calls to get_dependency will return the value in the cache"
                ob.append(("get returns the value in the cache", bv(r[0] == "ret" and r[1] is cvK)))
                ncalls_exp = callsK
                succeeded = True
            else:
                exp = _combine_doc(kind, deps0, dflt, callsK)
                succeeded = exp[0] == "ok"
                ncalls_exp = callsK + (1 if succeeded and kind == "counting" else 0)
                if exp[0] == "missing":
                    ob.append(("nothing provided and no default: KeyError from get_dependency / None from get_optional_dependency",
                               bv((r[0] == "exc" and isinstance(r[1], KeyError)) if op == "get" else (r[0] == "ret" and r[1] is None))))
                elif exp[0] == "error":
                    ob.append(("simple key with two dependencies: an error is raised", bv(r[0] == "exc")))
                else:
                    ob.append(("get returns the documented value", _matches(r[1], exp[1]) if r[0] == "ret" else F))
            ob.append(("get does not change the dependencies", _all_eq(post["deps"], exp_deps)))
            if succeeded:
                ob.append(("a successful get locks the key iff lock_on_get", bv(post["locked"] == (lock or sk["locked"]))))
            else:
                ob.append(("a failed get never locks a key without lock_on_get", bv(lock or not post["locked"])))
                if op != "get" and not sk["cached"] and exp[0] == "missing":
                    # get_optional_dependency answered "absent" (returned None, no error): that IS a read of the key, so a
                    # locking key must be locked afterwards - otherwise a later add makes later readers see another answer.
                    # (For get_dependency, which RAISES in this situation, both outcomes stay accepted.)
                    ob.append(("get_optional_dependency that answers 'absent' locks the key iff lock_on_get", bv(post["locked"] == (lock or sk["locked"]))))
        if kind == "counting":
            ob.append(("combine is called exactly when the result is not served from the cache", bv(calls.get(0, 0) == ncalls_exp)))
        # ---- the post-state satisfies the invariant again (cache never stale)
        ob.append(("post-state satisfies the structural invariant", bv(bool(_valid(kind, lock, cache, len(post["deps"]), post["entry"], post["cached"], post["locked"])))))
        if post["cached"]:
            d = _cache_desc(kind, post["deps"], dflt, callsK, calls.get(0, 0))
            if d is None:
                ob.append(("cache entry only where combine is defined", F))
            elif d[0] == "countle":
                cv = post["cache_obj"]
                ok = type(cv) is tuple and len(cv) == 2 and type(cv[0]) is int and cv[0] == d[1] and type(cv[1]) is tuple
                ob.append(("cache entry == result of the latest combine over the CURRENT dependencies", _all_eq(list(cv[1]), d[2]) if ok else F))
            else:
                ob.append(("cache entry == combine(current dependencies)", _matches(post["cache_obj"], d)))
        # ---- frame
        same = (postB["entry"] == preB["entry"] and postB["deps_obj"] is preB["deps_obj"] and postB["cached"] == preB["cached"]
                and postB["cache_obj"] is preB["cache_obj"] and postB["locked"] == preB["locked"] and calls.get(1, 0) == callsB)
        ob.append(("frame: the other key's entry, cache entry and lock are untouched", bv(same)))
        ob.append(("frame: the other key's dependencies are untouched", _all_eq(postB["deps"], list(sb["deps"]))))
        shape = (sk["n"], sk["entry"], sk["cached"], sk["locked"])
        return shape, ob, r

    return body


def _run_ind(cfg, ctx):
    kind, lock, cache, op = cfg["kind"], cfg["lock"], cfg["cache"], cfg["op"]
    body = _ind_body(cfg)
    eng = Engine(width=W, max_paths=20000)
    paths = eng.run(body)
    ctx.solver_time += eng.solver_time
    note = lambda k, n=1: ctx.notes.__setitem__(k, ctx.notes.get(k, 0) + n)
    note("state_shapes_enumerated", len(paths))
    note("pysym_feasibility_queries", eng.queries)
    ctx.frames += 2 * len(paths)
    ctx.steps += len(paths)
    desc = f"{op} on a {kind} key (lock_on_get={lock}, cache={cache}) next to a {cfg['bkind']} key"
    # domain of the induction hypothesis and coverage by the forks
    iv = lambda nm: z3.BitVec(nm, W)
    bl = z3.Bool
    dom = []
    for pfx, (k, lo, ca) in (("k_", (kind, lock, cache)), ("b_", (cfg["bkind"], cfg["block"], cfg["bcache"]))):
        maxn = 2 if pfx == "k_" else cfg.get("bmax", 2)
        e0 = Engine(width=W)
        n = SInt(e0, iv(pfx + "n"))
        ent, cad, lck, ali = (SBool(e0, bl(pfx + x)) for x in ("entry", "cached", "locked", "alias"))
        dom += [n.e >= 0, n.e <= maxn, _as_term(_valid(k, lo, ca, n, ent, cad, lck)), _as_term(implies(ali, all_of(cad, k == "list")))]
    ctx.prove(f"{desc}: the {len(paths)} explored state shapes cover every state satisfying the invariant", dom,
              z3.Or(*[z3.And(*p.pc) for p in paths]), None)
    ctx.witness(f"{desc}: invariant admits a state with a dependency present", dom + [iv("k_n") >= 1])
    if cache and _combine_defined(kind, 1):
        ctx.witness(f"{desc}: invariant admits a cached state", dom + [bl("k_cached")])
        if not any(p.result[0][2] for p in paths):
            ctx.errors.append(f"vacuity: no explored path starts from a cached state ({desc})")
    if lock:
        ctx.witness(f"{desc}: invariant admits a locked state", dom + [bl("k_locked")])
    groups = {}
    for p in paths:
        groups.setdefault(p.result[0], []).append(p)
    for shape, ps in sorted(groups.items()):
        goals = [(p, lab, g) for p in ps for lab, g in p.result[1]]
        box = {}

        def detail(m, goals=goals):
            bad = [(p, lab) for p, lab, g in goals
                   if all(z3.is_true(m.eval(c, model_completion=True)) for c in p.pc) and z3.is_false(m.eval(g, model_completion=True))]
            box["bad"], box["m"] = bad, m
            return [lab for _, lab in bad[:4]]

        name = f"{desc}, from {shape[0]} dependencies/entry={shape[1]}/cached={shape[2]}/locked={shape[3]}: result, invariant and frame ({len(ps)} bystander shapes)"
        r = ctx.prove(name, [], z3.And(*[z3.Implies(z3.And(*p.pc), g) for p, _, g in goals]), None, detail=detail)
        if r is False:
            ctx.violations.pop()
            m = box["m"]
            env = {}
            for pfx in ("k_", "b_"):
                env[pfx + "n"] = model_int(m, iv(pfx + "n"))
                for x in ("entry", "cached", "locked", "alias"):
                    env[pfx + x] = model_int(m, bl(pfx + x))
                for i in range(2):
                    env[f"{pfx}d{i}"] = 100 + i + (10 if pfx == "b_" else 0)  # distinct concrete dependencies
            env["dflt"], env["newv"] = 7, 55
            _, obc, rc = body(_Conc(env))
            again = [lab for lab, g in obc if z3.is_false(z3.simplify(g))]
            if again:
                ctx.violation(name, dict(state={k: v for k, v in env.items()}, failed=again[:4], outcome=repr(rc)[:200]), confirmed="re-executed concretely")
            else:
                ctx.errors.append(f"C42: symbolic failure {[lab for _, lab in box['bad'][:3]]} does not reproduce concretely ({desc}, {env})")


def _as_term(x):
    if isinstance(x, SBool):
        return x.e
    return z3.BoolVal(bool(x))


def run(cfg, ctx):
    if cfg["mode"] == "hist":
        _run_hist(cfg, ctx)
        ctx.notes["exhaustive_skeleton_enumeration_within_bound"] = True
    else:
        _run_ind(cfg, ctx)


# ---------------------------------------------------------------------------------------------------------------------
# canaries
# ---------------------------------------------------------------------------------------------------------------------
def _patch_method(modname, clsname, fname, old, new):
    import importlib
    import inspect
    import textwrap

    mod = importlib.import_module(modname)
    cls = getattr(mod, clsname)
    if getattr(getattr(cls, fname), "_verif_canary", False):
        return
    src = textwrap.dedent(inspect.getsource(getattr(cls, fname)))
    assert old in src, (fname, old)
    ns = {}
    exec(src.replace(old, new), mod.__dict__, ns)
    ns[fname]._verif_canary = True
    setattr(cls, fname, ns[fname])


def _canary_stale_cache():
    # add_dependency forgets to drop the cached result
    _patch_method("transactron.utils.dependencies", "DependencyManager", "add_dependency", "del self.cache[key]", "pass")


def _canary_no_lock():
    # reading a key no longer locks it
    _patch_method("transactron.utils.dependencies", "DependencyManager", "get_optional_dependency", "self.locked_dependencies.add(key)", "pass")


def _canary_prepend():
    # new dependencies are put in front: list keys lose insertion order
    _patch_method("transactron.utils.dependencies", "DependencyManager", "add_dependency", "self.dependencies[key].append(dependency)",
                  "self.dependencies[key].insert(0, dependency)")


CANARIES = [("add_dependency does not invalidate the cache", _canary_stale_cache),
            ("get does not lock the key", _canary_no_lock),
            ("add_dependency prepends instead of appending", _canary_prepend)]


def classify(v):
    n = v.get("name", "")
    return "history" if n.startswith("history") else "induction"
