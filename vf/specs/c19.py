"""C19: Serializer and ArgumentsToResultsZipper keep requests and responses matched.

Serializer: the real component with one AdapterTrans per `serialize_in[i]` / `serialize_out[i]` (and `clear`), the
server is mocked by two `Adapter`s (`serialized_req_method` with free readiness, `serialized_resp_method` with free
readiness and a free response value per call = in-order server with arbitrary latency and contents).  Reference
model: FIFO of the port ids of the accepted requests.  A response call can only be made by the port at the head of
that FIFO and receives exactly the value the server returns in that cycle; every accepted request is forwarded to the
server with the client's argument; so the k-th server response goes to the issuer of the k-th request.

ArgumentsToResultsZipper: AdapterTrans per method; reference model = queue of written arguments (capacity 2) and a
queue of written results (capacity 1, forwarding); `read` returns the heads of both, i.e. the k-th written argument
with the k-th written result.  BMC from reset over all call histories up to the bound.
"""
import z3
from ..harness import Harness, Built
from ..seq import bmc
from ..util import atmost1, b2i

PROP = "C19"
LEVEL = "model_checking"
TECHNIQUE = "BMC from reset (z3 QF_BV) of the netlist of the real component + adapters against a queue reference model; all obligations of a bound in one query; counterexamples replayed on amaranth.sim"
BOUNDS = {
    "quick": "Serializer ports 1..2 x depth 1..2 (2-bit request/response data, with and without calls of clear), BMC 8 cycles; ports 3 depth 2 BMC 8; "
             "ArgumentsToResultsZipper 2-bit args / 2-bit results and a 2-field args layout, BMC 8; every subset of simultaneous calls, every readiness pattern and data value",
    "thorough": "Serializer ports 1..3 x depth 1..4, BMC 12, with and without clear; ArgumentsToResultsZipper widths 1..3 and struct layouts, BMC 12",
}
OUTSIDE = ["histories longer than the BMC bound", "port counts / depths above the enumerated ones", "a server that answers out of order or answers without a request (documented assumption of Serializer)",
           "which of several simultaneously requesting clients is served first (fairness)", "eventual delivery (liveness)"]
ASSUMES = ["default (eager) scheduler, single clock domain, reset held low; callers are AdapterTrans transactions (one per method)",
           "the server is mocked: request method = Adapter with free readiness, response method = Adapter with free readiness and free value; the k-th response call is by definition "
           "the response to the k-th request call (in-order server)",
           "the serialize_in callers share the request method (they conflict), the serialize_out callers share the response method: 'ready iff' is stated as implications "
           "plus 'a lone enabled client gets through when the server method is ready and the queue has room'",
           "clear (configurations with clear=True) empties the pending queue; the server is assumed to drop its outstanding requests at the same time",
           "ArgumentsToResultsZipper capacities as documented in its docstring: arguments in a 2-FIFO, results in a Forwarder (one slot, same-cycle forwarding)"]
W = 8


def _lay(kind):
    if kind == "s":
        return [("a", 1), ("b", 2)], 3
    return [("d", int(kind))], int(kind)


def make(cfg):
    from transactron.lib import Adapter
    from transactron.lib.reqres import Serializer, ArgumentsToResultsZipper

    if cfg["cls"] == "Serializer":
        lay, _ = _lay(cfg["layout"])
        req = Adapter(i=lay)
        resp = Adapter(o=lay)
        d = Serializer(port_count=cfg["ports"], serialized_req_method=req.iface, serialized_resp_method=resp.iface, depth=cfg["depth"])
        prov = {}
        for i in range(cfg["ports"]):
            prov[f"in{i}"] = d.serialize_in[i]
            prov[f"out{i}"] = d.serialize_out[i]
        if cfg["clear"]:
            prov["clear"] = d.clear
        return Harness(d, prov, mocks={"req": req, "resp": resp})
    al, _ = _lay(cfg["args"])
    rl, _ = _lay(cfg["results"])
    d = ArgumentsToResultsZipper(al, rl)
    return Harness(d, dict(peek_arg=d.peek_arg, write_args=d.write_args, write_results=d.write_results, read=d.read))


def configs(tier, seed):
    out = []
    if tier == "quick":
        out.append(dict(cls="Serializer", ports=2, depth=2, layout="2", clear=False, K=8))
        out.append(dict(cls="Zipper", args="2", results="2", K=8))
        out.append(dict(cls="Serializer", ports=2, depth=2, layout="2", clear=True, K=8))
        out.append(dict(cls="Serializer", ports=1, depth=1, layout="2", clear=True, K=8))
        out.append(dict(cls="Serializer", ports=2, depth=1, layout="s", clear=False, K=8))
        out.append(dict(cls="Serializer", ports=1, depth=2, layout="1", clear=False, K=8))
        out.append(dict(cls="Serializer", ports=3, depth=2, layout="2", clear=False, K=8))
        out.append(dict(cls="Zipper", args="s", results="1", K=8))
    else:
        for ports in (1, 2, 3):
            for depth in (1, 2, 3, 4):
                for clear in (False, True):
                    out.append(dict(cls="Serializer", ports=ports, depth=depth, layout="2", clear=clear, K=12))
        out.append(dict(cls="Serializer", ports=2, depth=3, layout="s", clear=False, K=12))
        out.append(dict(cls="Serializer", ports=3, depth=2, layout="1", clear=True, K=12))
        for a, r in (("2", "2"), ("1", "3"), ("s", "1"), ("3", "s")):
            out.append(dict(cls="Zipper", args=a, results=r, K=12))
        out.sort(key=lambda c: -(c.get("ports", 1) * c["K"] * c.get("depth", 1)))   # long ones first
        out.insert(0, out.pop(next(i for i, c in enumerate(out) if c["cls"] == "Zipper")))
    return out


# ------------------------------------------------------------------------------------------------ Serializer
def serializer_step(cfg):
    ports, depth = cfg["ports"], cfg["depth"]
    has_clear = cfg["clear"]

    def step(model, o, t):
        q, cnt = model            # q[i]: port id of the i-th oldest pending request
        ins = [o.done(f"in{i}") for i in range(ports)]
        outs = [o.done(f"out{i}") for i in range(ports)]
        req_rdy, resp_rdy = o.en("req"), o.en("resp")
        room, pending = cnt != depth, cnt != 0
        ob = [("at most one request is accepted per cycle", atmost1(ins)),
              ("at most one response is delivered per cycle", atmost1(outs)),
              ("the server's request method is called iff a client request is accepted", o.done("req") == z3.Or(*ins)),
              ("the server's response method is called iff a client receives a response", o.done("resp") == z3.Or(*outs))]
        for i in range(ports):
            head_i = z3.And(pending, q[0] == i)
            ob += [(f"request of client {i} accepted only if called, server ready and fewer than depth requests pending",
                    z3.Implies(ins[i], z3.And(o.en(f"in{i}"), req_rdy, room))),
                   (f"accepted request of client {i} is forwarded to the server unchanged", z3.Implies(ins[i], o.out("req") == o.arg(f"in{i}"))),
                   (f"client {i} receives a response iff it asks, the server answers and the oldest pending request is its own",
                    outs[i] == z3.And(o.en(f"out{i}"), resp_rdy, head_i)),
                   (f"client {i} receives exactly the server's response", z3.Implies(outs[i], o.out(f"out{i}") == o.arg("resp")))]
            lone = z3.And(o.en(f"in{i}"), *[z3.Not(o.en(f"in{j}")) for j in range(ports) if j != i])
            ob.append((f"a lone requesting client {i} gets through when the server is ready and there is room", z3.Implies(z3.And(lone, req_rdy, room), ins[i])))
        anyin, anyout = z3.Or(*ins), z3.Or(*outs)
        pid = z3.BitVecVal(0, W)
        for i in range(ports):
            pid = z3.If(ins[i], z3.BitVecVal(i, W), pid)
        q1 = [z3.If(anyout, q[i + 1] if i + 1 < depth else q[i], q[i]) for i in range(depth)]
        c1 = cnt - b2i(anyout, W)
        q2 = [z3.If(z3.And(anyin, c1 == i), pid, q1[i]) for i in range(depth)]
        c2 = c1 + b2i(anyin, W)
        if has_clear:
            c2 = z3.If(o.done("clear"), z3.BitVecVal(0, W), c2)   # nothing is demanded of clear's readiness (statement is silent)
        wit = {"depth requests pending": cnt == depth}
        if depth > 1:
            wit["request accepted and response delivered in one cycle"] = z3.And(anyin, anyout)
        if ports > 1:
            wit["two clients request, one is accepted"] = z3.And(o.en("in0"), o.en("in1"), anyin)
            wit["response for the last client"] = outs[-1]
            wit["a client asks for a response that belongs to another client"] = z3.And(o.en("out0"), resp_rdy, pending, q[0] != 0)
            if depth > 1:
                wit["pending requests of two different clients"] = z3.And(z3.UGE(cnt, 2), q[0] != q[1])
        if has_clear:
            wit["clear with pending requests"] = z3.And(o.done("clear"), pending)
        return ob, [], (q2, c2), wit

    return step


# ------------------------------------------------------------------------------------------------ Zipper
def zipper_step(cfg):
    def step(model, o, t):
        aq, acnt, rfull, rval = model     # argument queue (2 slots), result slot
        wa, wr, rd, pk = o.done("write_args"), o.done("write_results"), o.done("read"), o.done("peek_arg")
        a_nonempty, a_room = acnt != 0, acnt != 2
        r_avail = z3.Or(rfull, wr)
        res_head = z3.If(rfull, rval, o.arg("write_results"))
        ob = [("write_args accepted iff fewer than 2 arguments are stored", wa == z3.And(o.en("write_args"), a_room)),
              ("write_results accepted iff no undelivered result is stored", wr == z3.And(o.en("write_results"), z3.Not(rfull))),
              ("read runs iff an argument is stored and a result is stored or being written", rd == z3.And(o.en("read"), a_nonempty, r_avail)),
              ("read returns the oldest unread argument", z3.Implies(rd, o.out("read", "args") == aq[0])),
              ("read returns the oldest unread result", z3.Implies(rd, o.out("read", "results") == res_head)),
              ("peek_arg runs iff an argument is stored", pk == z3.And(o.en("peek_arg"), a_nonempty)),
              ("peek_arg returns the oldest unread argument", z3.Implies(pk, o.out("peek_arg") == aq[0]))]
        a1 = [z3.If(rd, aq[1], aq[0]), aq[1]]
        c1 = acnt - b2i(rd, W)
        a2 = [z3.If(z3.And(wa, c1 == i), o.arg("write_args"), a1[i]) for i in range(2)]
        c2 = c1 + b2i(wa, W)
        rfull2 = z3.And(r_avail, z3.Not(rd))
        rval2 = z3.If(wr, o.arg("write_results"), rval)
        wit = {"two arguments stored": acnt == 2,
               "result forwarded to read in the cycle it is written": z3.And(rd, wr),
               "stored result read": z3.And(rd, rfull),
               "result waits for its argument": z3.And(rfull, z3.Not(a_nonempty)),
               "read, write_args and write_results in one cycle": z3.And(rd, wa, wr),
               "read blocked: argument stored but no result": z3.And(o.en("read"), a_nonempty, z3.Not(r_avail))}
        return ob, [], (a2, c2, rfull2, rval2), wit

    return step


def run(cfg, ctx):
    b = Built(lambda: make(cfg), trace_functions=(ctx.index < 2))
    ctx.functions = b.functions
    cos = 12 if ctx.index < 3 else 0
    if cfg["cls"] == "Serializer":
        init = lambda h: ([z3.BitVecVal(0, W)] * cfg["depth"], z3.BitVecVal(0, W))
        bmc(ctx, f"Serializer ports={cfg['ports']} depth={cfg['depth']} layout={cfg['layout']} clear={cfg['clear']} vs FIFO of pending port ids",
            b, cfg["K"], serializer_step(cfg), init, cosim_k=cos)
    else:
        _, aw = _lay(cfg["args"])
        _, rw = _lay(cfg["results"])
        init = lambda h: ([z3.BitVecVal(0, aw)] * 2, z3.BitVecVal(0, W), z3.BoolVal(False), z3.BitVecVal(0, rw))
        bmc(ctx, f"ArgumentsToResultsZipper args={cfg['args']} results={cfg['results']} vs two queues", b, cfg["K"], zipper_step(cfg), init, cosim_k=cos)


# ------------------------------------------------------------------------------------------------ canaries
def _patch(obj, attr, old, new, modname):
    import importlib
    import inspect
    import textwrap

    if getattr(obj, "_verif_patched_" + attr, False):
        return
    mod = importlib.import_module(modname)
    src = textwrap.dedent(inspect.getsource(getattr(obj, attr)))
    assert old in src, f"canary pattern not found: {old}"
    ns = {}
    exec(src.replace(old, new), mod.__dict__, ns)
    setattr(obj, attr, ns[attr])
    setattr(obj, "_verif_patched_" + attr, True)


def _canary_serializer_no_head_check():
    # serialize_out[i] no longer waits for its own id at the head of the pending queue
    import transactron.lib.reqres as R

    _patch(R.Serializer, "elaborate", "ready=(pending_requests.head.id == i)", "ready=1", "transactron.lib.reqres")


def _canary_serializer_wrong_id():
    # every request is recorded with port id 0
    import transactron.lib.reqres as R

    _patch(R.Serializer, "elaborate", 'pending_requests.write(m, {"id": i})', 'pending_requests.write(m, {"id": 0})', "transactron.lib.reqres")


def _canary_zipper_peek_instead_of_read():
    # Zipper.read does not consume the argument (pairs later results with an old argument)
    import transactron.lib.reqres as R

    _patch(R.ArgumentsToResultsZipper, "elaborate", "args = fifo.read(m)", "args = fifo.peek(m)", "transactron.lib.reqres")


CANARIES = [("Serializer.serialize_out ignores the head id", _canary_serializer_no_head_check),
            ("Serializer records port id 0 for every request", _canary_serializer_wrong_id),
            ("ArgumentsToResultsZipper.read peeks the argument FIFO instead of reading it", _canary_zipper_peek_instead_of_read)]
