"""C22: AsyncMemoryBank reads current contents.

The real `AsyncMemoryBank` is wrapped with one AdapterTrans per `read[i]` and `write[j]`.  The only state of the design
is the memory array, every content of which is reachable by writes, so one induction step from a fully symbolic
array covers call histories of any length: in the first cycle every read that runs must return the current row
(writes of the same cycle are not visible), in the second cycle every read must return the row as updated by the
writes that ran in the first cycle (per-granule masks respected, other rows unchanged).  A BMC from reset (all rows 0)
against an ideal array is run as well (base case / sanity).  Counterexamples are replayed on amaranth.sim with the
array forced to the solver's initial contents.
"""
import z3
from ..harness import Harness, Built
from ..seq import bmc, Unroll

PROP = "C22"
LEVEL = "model_checking"
TECHNIQUE = "one-step induction over a fully symbolic memory array (all array states are reachable) + BMC from reset against an ideal array; pysim replay"
BOUNDS = {
    "quick": "(read,write) ports in {(1,1),(2,2)}, depth 4 (also 3 with 1r2w), 2-bit rows, granularity {None,1}, and 4-bit rows with granularity 2, single-granule rows (2-bit rows with granularity 2, 4-bit rows with granularity 4); "
             "induction step over all array contents, all enables/addresses/data/masks; BMC 5 cycles from reset",
    "thorough": "ports up to (3,3), depths 2..8, widths 1..4, granularity {None,1,2} and one granule per row (2/2, 4/4, 1/1); induction step; BMC 8 cycles from reset",
}
OUTSIDE = ["depths/widths/port counts not enumerated", "structured (View) shapes", "memory_type other than lib.memory.Memory (the multiport memories have no comb read ports)",
           "two write calls to the same row in one cycle", "addresses >= depth"]
ASSUMES = ["single clock domain, reset held low", "callers are AdapterTrans transactions (one per method)",
           "no two write calls that run in the same cycle address the same row", "addresses passed to read/write are < depth"]


def make(cfg):
    from transactron.lib import AsyncMemoryBank

    d = AsyncMemoryBank(shape=cfg["width"], depth=cfg["depth"], granularity=cfg["gran"], read_ports=cfg["nr"], write_ports=cfg["nw"])
    prov = {}
    for i in range(cfg["nr"]):
        prov[f"rd{i}"] = d.read[i]
    for j in range(cfg["nw"]):
        prov[f"wr{j}"] = d.write[j]
    return Harness(d, prov)


def _mk(mode, nr, nw, depth, width, gran, K=0):
    return dict(mode=mode, nr=nr, nw=nw, depth=depth, width=width, gran=gran, K=K)


def configs(tier, seed):
    out = []
    if tier == "quick":
        shapes = [(1, 1, 4, 2, None), (1, 1, 4, 2, 1), (2, 2, 4, 2, None), (2, 2, 4, 2, 1), (1, 2, 3, 2, None), (2, 1, 4, 4, 2), (1, 1, 4, 3, 1), (1, 1, 4, 4, 1),
                  (1, 1, 4, 2, 2), (2, 2, 3, 4, 4)]  # one granule per row: the mask is a single bit that must still be honoured
        K = 5
    else:
        shapes = []
        for nr in (1, 2, 3):
            for nw in (1, 2, 3):
                for depth in (2, 3, 4, 5, 8):
                    if depth in (2, 5) and (nr + nw) % 2:
                        continue
                    for width, gran in ((2, None), (2, 1), (4, 2), (1, None), (3, 1), (2, 2), (4, 4), (1, 1)):
                        if (width, gran) in ((1, None), (3, 1), (4, 4), (1, 1)) and (nr, nw) not in ((1, 1), (2, 2)):
                            continue
                        shapes.append((nr, nw, depth, width, gran))
        K = 8
    for s in shapes:
        out.append(_mk("ind", *s))
    for s in shapes:
        if tier == "quick" or (s[2] <= 4 and s[0] <= 2):
            out.append(_mk("bmc", *s, K=K))
    return out


def _rd(rows, addr):
    r = rows[-1]
    for k in reversed(range(len(rows) - 1)):
        r = z3.If(addr == k, rows[k], r)
    return r


def _merge(cur, data, mask, width, gran):
    if mask is None:
        return data
    parts = []
    for gi in range(width // gran):
        hi, lo = (gi + 1) * gran - 1, gi * gran
        parts.append(z3.If(z3.Extract(gi, gi, mask) == 1, z3.Extract(hi, lo, data), z3.Extract(hi, lo, cur)))
    return z3.Concat(*reversed(parts)) if len(parts) > 1 else parts[0]


def _step(cfg):
    d, w, nr, nw, gran = cfg["depth"], cfg["width"], cfg["nr"], cfg["nw"], cfg["gran"]
    pow2 = not (d & (d - 1))

    def step(rows, o, t):
        asm, ob, wit = [], [], {}
        wdone = [o.done(f"wr{j}") for j in range(nw)]
        waddr = [o.arg(f"wr{j}", "addr") for j in range(nw)]
        wdata = [o.arg(f"wr{j}", "data") for j in range(nw)]
        wmask = [o.arg(f"wr{j}", "mask") if gran is not None else None for j in range(nw)]
        for j in range(nw):
            for k in range(j):
                asm.append(z3.Not(z3.And(wdone[j], wdone[k], waddr[j] == waddr[k])))
            if not pow2:
                asm.append(z3.ULT(waddr[j], d))
        for i in range(nr):
            raddr = o.arg(f"rd{i}", "addr")
            if not pow2:
                asm.append(z3.ULT(raddr, d))
            ob.append((f"read{i} returns the row as left by the latest completed write (same-cycle writes not visible)",
                       z3.Implies(o.done(f"rd{i}"), o.out(f"rd{i}", "data") == _rd(rows, raddr))))
            ob.append((f"read{i} is total: it runs whenever it is called", o.done(f"rd{i}") == o.en(f"rd{i}")))
        for j in range(nw):
            ob.append((f"write{j} is total: it runs whenever it is called (an ideal memory never refuses a write)", wdone[j] == o.en(f"wr{j}")))
        after = []
        for r in range(d):
            cur = rows[r]
            for j in range(nw):
                cur = z3.If(z3.And(wdone[j], waddr[j] == r), _merge(rows[r], wdata[j], wmask[j], w, gran), cur)
            after.append(cur)
        wit["read of a row that is being overwritten with different data"] = z3.And(o.done("rd0"), wdone[0], waddr[0] == o.arg("rd0", "addr"),
                                                                                 _rd(after, waddr[0]) != _rd(rows, waddr[0]))
        wit["read returns non-zero data"] = z3.And(o.done("rd0"), o.out("rd0", "data") != 0)
        if nw > 1:
            wit["two writes in the same cycle"] = z3.And(wdone[0], wdone[1])
        if nr > 1:
            wit["two reads of different rows in the same cycle"] = z3.And(o.done("rd0"), o.done("rd1"), o.arg("rd0", "addr") != o.arg("rd1", "addr"))
        if gran is not None and w // gran > 1:
            wit["partial write (mask neither empty nor full)"] = z3.And(wdone[0], wmask[0] != 0, ~wmask[0] != 0)
        return ob, asm, after, wit

    return step


def run(cfg, ctx):
    b = Built(lambda: make(cfg), trace_functions=(ctx.index == 0))
    ctx.functions = b.functions
    d, w = cfg["depth"], cfg["width"]
    tag = f"AsyncMemoryBank {cfg['nr']}r{cfg['nw']}w depth {d} width {w} gran {cfg['gran']}"
    if cfg["gran"] is not None:
        # interface: one write-enable bit per granule (otherwise some granule can never be written)
        mw = b.h.ad["wr0"].data_in.shape()["mask"].width
        if mw != w // cfg["gran"]:
            ctx.violation(f"{tag}: write mask has {mw} bit(s) for {w // cfg['gran']} granules", dict(mask_width=mw, granules=w // cfg["gran"]),
                          "read from the elaborated method layout")
            return
    if cfg["mode"] == "bmc":
        bmc(ctx, f"{tag} vs ideal array", b, cfg["K"], _step(cfg), lambda h: [z3.BitVecVal(0, w)] * d, cosim_k=10 if ctx.index < 3 else 0)
        return
    ts = b.ts
    # the only state besides the array is transactron's constant dummy register that keeps the sync domain alive
    ffmap = ts.ff_signal_map()
    other = [i for i in ts.ffs if not all(s.name == "_keep_sync" for s, _ in ffmap.get(i, [])) or not ffmap.get(i)]
    if len(ts.mems) != 1 or other:
        ctx.errors.append(f"unexpected state elements in AsyncMemoryBank harness: mems={len(ts.mems)} ffs={other} (cfg {cfg})")
        return
    (mi,) = list(ts.mems)
    u = Unroll(b, free_init=True)
    rows = [u.state0[("mem", mi, r)] for r in range(d)]
    step = _step(cfg)
    o0 = u.cycle()
    ob0, asm0, after, wit0 = step(rows, o0, 0)
    u.advance()
    o1 = u.cycle()
    ob1, asm1, _, _ = step(after, o1, 1)
    ctx.frames += 2
    ctx.steps += 1
    asm = asm0 + asm1
    for k, c in wit0.items():
        ctx.witness(f"{tag}: IND reach '{k}'", asm + [c])
    # second cycle: a read observes exactly the update done by the first cycle's writes
    changed = z3.Or(*[after[r] != rows[r] for r in range(d)])
    ctx.witness(f"{tag}: IND second-cycle read of a row changed in the first cycle",
                asm + [changed, o1.done("rd0"), _rd(after, o1.arg("rd0", "addr")) != _rd(rows, o1.arg("rd0", "addr"))])
    bad = [z3.Not(z3.And(*[c for _, c in ob0])), z3.Not(z3.And(*[c for _, c in ob1]))]

    def detail(m):
        out = []
        for t, ob in enumerate((ob0, ob1)):
            out += [f"cycle {t}: {lab}" for lab, c in ob if z3.is_false(m.eval(c, model_completion=True))]
        return out

    ctx.refute(f"{tag}: reads return current contents, from any array state", asm0 + [bad[0]], u, detail, bad_by_cycle=bad)
    ctx.refute(f"{tag}: writes become visible in the next cycle (masked rows updated, other rows kept), from any array state",
               asm + [bad[1]], u, detail, bad_by_cycle=bad)


# ---- canaries -------------------------------------------------------------------------------------------------

def _patch(old, new):
    import inspect
    import textwrap
    import transactron.lib.storage as S

    src = inspect.getsource(S.AsyncMemoryBank.elaborate)
    assert old in src, f"canary anchor not found: {old}"
    ns = {}
    exec(textwrap.dedent(src.replace(old, new)), S.__dict__, ns)
    S.AsyncMemoryBank.elaborate = ns["elaborate"]


def _canary_mask_any():
    # every granule is written as soon as one mask bit is set
    _patch("m.d.comb += write_port[i].en.eq(arg.mask)", "m.d.comb += write_port[i].en.eq(arg.mask.any().replicate(len(arg.mask)))")


def _canary_addr_port0():
    # every read port looks up the address given to port 0's neighbour (wrong index)
    _patch("m.d.comb += read_port[i].addr.eq(addr)", "m.d.comb += read_port[i].addr.eq(addr ^ (i & 1))")


def _canary_write_addr():
    # write address off by one row
    _patch("m.d.comb += write_port[i].addr.eq(arg.addr)", "m.d.comb += write_port[i].addr.eq(arg.addr + 1)")


CANARIES = [("write mask collapsed to all-or-nothing", _canary_mask_any),
            ("second read port reads a neighbouring row", _canary_addr_port0),
            ("write address off by one", _canary_write_addr)]


def _callers_items():
    from transactron.lib import AsyncMemoryBank

    return [("AsyncMemoryBank(2 bits, depth 4, 1 read / 1 write port)", lambda: AsyncMemoryBank(shape=2, depth=4), [("read", ["read", 0]), ("write", ["write", 0])], [])]


from ..excl import install as _install  # noqa: E402
_install(globals(), _callers_items())
