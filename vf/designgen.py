"""E2: generator of Transactron designs (public API only) with an oracle computed from the spec alone.

A spec is a JSON-able dict:
  methods:      [ {name, nonexcl, iw, ow, ready_free, validate: None|'nz'|'bit0', combiner: None|'or'|'sum'|'sumcnt', body: [stmt],
                   single_caller: bool, nested_in: None | [ti, under_if]} ]
  transactions: [ {name, body: [stmt], nested: [ {name, body: [stmt], under_if: bool} ]} ]
  groups:       [ ['plain', [ti...]] | ['if', [[ti..], [ti..], ...], has_else] | ['switch', [[ti..],...], has_default] | ['fsm', [[ti..], ...]] ]
  relations:    [ ['conflict', key, key, 'U'|'L'|'R'] | ['before', key, key, ready_dependent] ]   key = ['t', i] | ['n', i, k] | ['m', i]
  witness:      bool  (place comb/av_comb/top_comb/sync witness statements in every body / branch)
  stmt := ['call', mi, en_free, alias_hops] | ['if', [body...], has_else] | ['sif', body] (a second, sibling If)
        | ['switch', [body...], has_default] | ['fsm', [body...]]
Every condition, selector, readiness, enable, argument and method result is a distinct free input signal, so
"structurally in different alternatives of one control structure" coincides with "cannot hold together".
"""
import itertools
import random
from contextlib import contextmanager

from amaranth import Elaboratable, Signal, C, Cat, Mux, Value
from transactron import TModule, Transaction, Method, def_method, Priority


@contextmanager
def _null():
    yield


# ------------------------------------------------------------------ random specs
def _calls_in(body):
    for st in body:
        if st[0] == "call":
            yield st[1]
        elif st[0] == "sif":
            yield from _calls_in(st[1])
        else:
            for alt in st[1]:
                yield from _calls_in(alt)


def rand_body(rng, callees, depth, budget, opts, used=None, trees=None):
    out = []
    n = rng.randint(1, 3)
    used = set() if used is None else used
    trees = trees or {}
    for _ in range(n):
        if budget[0] <= 0:
            break
        k = rng.random()
        if k < 0.5 or depth == 0 or not callees:
            if callees:
                fresh = [c for c in callees if not (({c} | trees.get(c, set())) & used)]
                want_fresh = rng.random() < opts.get("p_fresh", 0.85)
                if want_fresh and not fresh:
                    continue
                mi = rng.choice(fresh) if want_fresh else rng.choice(callees)
                used |= {mi} | trees.get(mi, set())
                out.append(["call", mi, rng.random() < 0.3, rng.choice([0, 0, 0, 1, 2]) if opts.get("alias") else 0])
                budget[0] -= 1
        elif k < 0.75:
            nalt = rng.randint(1, 3)
            has_else = rng.random() < 0.5
            out.append(["if", [rand_body(rng, callees, depth - 1, budget, opts, set(used), trees) for _ in range(nalt + (1 if has_else else 0))], has_else])
        elif k < 0.82:
            out.append(["sif", rand_body(rng, callees, depth - 1, budget, opts, used, trees)])
        elif k < 0.93 or not opts.get("fsm"):
            nalt = rng.randint(2, 3)
            has_def = rng.random() < 0.5
            out.append(["switch", [rand_body(rng, callees, depth - 1, budget, opts, set(used), trees) for _ in range(nalt + (1 if has_def else 0))], has_def])
        else:
            out.append(["fsm", [rand_body(rng, callees, depth - 1, budget, opts, set(used), trees) for _ in range(rng.randint(2, 3))]])
    return out


def rand_spec(rng, opts=None):
    opts = dict(opts or {})
    nleaf = rng.randint(*opts.get("nleaf", (1, 4)))
    nmid = rng.randint(0, 2)
    ntr = rng.randint(opts.get("min_tr", 1), opts.get("max_tr", 3))
    methods = []
    for i in range(nleaf):
        nonex = rng.random() < 0.3
        iw = rng.choice([0, 2])
        comb = None
        if nonex and iw:
            comb = rng.choice(["or", "sum", "sumcnt"]) if opts.get("combiner") else None
            if comb is None:
                iw = 0
        methods.append(dict(name=f"L{i}", nonexcl=nonex, iw=iw, ow=rng.choice([0, 2]), ready_free=rng.random() < 0.8,
                            validate=(rng.choice(["nz", "bit0"]) if (iw and rng.random() < 0.3) else None), combiner=comb, body=[],
                            single_caller=False, nested_in=None))
    for i in range(nmid):
        callees = list(range(len(methods)))
        methods.append(dict(name=f"M{i}", nonexcl=rng.random() < 0.35, iw=0, ow=0, ready_free=rng.random() < 0.6, validate=None, combiner=None,
                            body=rand_body(rng, callees, 2, [rng.randint(1, 3)], opts), single_caller=False, nested_in=None))
    if opts.get("fwd"):
        for mi in range(1, len(methods)):
            if rng.random() < 0.35:
                methods[mi]["ready_on_run"] = rng.randrange(mi)
    trees = {}
    for mi, ms in enumerate(methods):
        t = set()
        for c in _calls_in(ms["body"]):
            t |= {c} | trees.get(c, set())
        trees[mi] = t
    trs = []
    for i in range(ntr):
        used = set()
        body = rand_body(rng, list(range(len(methods))), 2, [rng.randint(1, 4)], opts, used, trees)
        trs.append(dict(name=f"T{i}", body=body, nested=[], _used=used))
    if opts.get("nested", True):
        for i in range(ntr):
            if rng.random() < 0.25:
                trs[i]["nested"].append(dict(name=f"T{i}n", body=rand_body(rng, list(range(len(methods))), 1, [rng.randint(1, 2)], opts, None, trees), under_if=rng.random() < 0.5))
    for t in trs:
        t.pop("_used", None)
    if opts.get("nested_methods"):
        fwd_involved = {ms["ready_on_run"] for ms in methods if ms.get("ready_on_run") is not None}
        for mi, ms in enumerate(methods):
            if rng.random() < 0.2 and ms.get("ready_on_run") is None and mi not in fwd_involved:
                ms["nested_in"] = [rng.randrange(ntr), rng.random() < 0.4]
    if opts.get("single_caller"):
        for ms in methods:
            if rng.random() < 0.2:
                ms["single_caller"] = True
    order = list(range(ntr))
    groups = []
    if ntr >= 2 and rng.random() < opts.get("p_group", 0.4):
        a, b = order[0], order[1]
        kind = rng.choice(["if", "if", "switch", "fsm"] if opts.get("fsm") else ["if", "if", "switch"])
        if kind == "if":
            groups.append(["if", [[a], [b]], rng.random() < 0.5])
        elif kind == "switch":
            groups.append(["switch", [[a], [b]], rng.random() < 0.5])
        else:
            groups.append(["fsm", [[a], [b]]])
        rest = order[2:]
    else:
        rest = order
    for t in rest:
        if rng.random() < opts.get("p_single_group", 0.0):
            # a single transaction placed in one alternative of a module-level control structure
            kind = rng.choice(["if", "switch", "fsm"] if opts.get("fsm") else ["if", "switch"])
            nalt = rng.randint(2, 3)
            alts = [[] for _ in range(nalt)]
            alts[rng.randrange(nalt)] = [t]
            groups.append([kind, alts, True] if kind != "fsm" else [kind, alts])
        else:
            groups.append(["plain", [t]])
    mgroups = []
    if opts.get("mgroup") and rng.random() < opts.get("p_mgroup", 0.35):
        cand = [mi for mi, ms in enumerate(methods) if ms.get("nested_in") is None and ms.get("ready_on_run") is None
                and not any(m2.get("ready_on_run") == mi for m2 in methods)]
        if len(cand) >= 2:
            a, b = rng.sample(cand, 2)
            mgroups.append(["if", [[a], [b]], rng.random() < 0.5])
    group_module = [0] * len(groups)
    if opts.get("multi"):
        nmod = rng.randint(1, 3)
        group_module = [rng.randrange(nmod) for _ in groups]
    rels = []
    pc = opts.get("p_conflict", 0.4)
    for _ in range(opts.get("n_tconflict", 1)):
        if rng.random() < pc and ntr >= 2:
            a, b = rng.sample(range(ntr), 2)
            rels.append(["conflict", ["t", a], ["t", b], rng.choice(["U", "L", "R"])])
    for _ in range(opts.get("n_mconflict", 1)):
        if rng.random() < opts.get("p_mconflict", 0.3) and len(methods) >= 2:
            a, b = rng.sample(range(len(methods)), 2)
            rel = ["conflict", ["m", a], ["m", b], rng.choice(["U", "L", "R"]) if opts.get("mprio") else "U"]
            if opts.get("alias") and rng.random() < 0.3:
                rel.append([rng.choice([0, 1, 2]), rng.choice([0, 1])])  # declared on provide() aliases of the two methods
            rels.append(rel)
    if rng.random() < opts.get("p_tm_conflict", 0.0) and methods:
        rels.append(["conflict", ["t", rng.randrange(ntr)], ["m", rng.randrange(len(methods))], rng.choice(["U", "L", "R"])])
    if rng.random() < opts.get("p_before", 0.3) and ntr >= 2:
        a, b = sorted(rng.sample(range(ntr), 2))
        # generated only in definition order: schedule_before(x, y) with x defined after y is rejected as a sanity check
        ga = _def_position(groups, a)
        gb = _def_position(groups, b)
        if ga > gb:
            a, b = b, a
        rels.append(["before", ["t", a], ["t", b], bool(opts.get("ready_dep") and rng.random() < 0.5)])
    for mi, ms in enumerate(methods):
        if ms.get("ready_on_run") is not None:
            rels.append(["before", ["m", ms["ready_on_run"]], ["m", mi], False])
    if rng.random() < opts.get("p_mbefore", 0.0):
        # a plain ordering between two methods (as Forwarder/Pipe declare between write and read), no readiness coupling
        grouped = {mi for g in mgroups for alt in g[1] for mi in alt}
        cand = [mi for mi, ms in enumerate(methods) if ms.get("nested_in") is None and mi not in grouped]
        if len(cand) >= 2:
            a, b = sorted(rng.sample(cand, 2))
            rels.insert(0, ["before", ["m", a], ["m", b], False])
    return dict(methods=methods, transactions=trs, relations=rels, groups=groups, group_module=group_module, mgroups=mgroups,
                witness=bool(opts.get("witness")))


def systematic_specs():
    """Exhaustive small family: two transactions reaching one exclusive leaf E directly, through a nonexclusive
    method N, through an exclusive method X or through an alias, with T1's two call sites in If/Else alternatives;
    plus one transaction with two NON-exclusive call sites of E through the same / different Method objects."""
    def meth(name, nonex, body, iw=0, ow=0):
        return dict(name=name, nonexcl=nonex, iw=iw, ow=ow, ready_free=True, validate=None, combiner=None, body=body,
                    single_caller=False, nested_in=None)

    kinds = {"direct": ["call", 0, False, 0], "alias": ["call", 0, False, 1], "via_nonex": ["call", 1, False, 0], "via_ex": ["call", 2, False, 0],
             "direct_en": ["call", 0, True, 0]}
    out = []
    names = list(kinds)
    for ka in names:
        for kb in names:
            for kc in ("direct", "via_nonex", "via_ex"):
                for t2_cond in (False, True):
                    if t2_cond and (ka, kb) != ("via_nonex", "direct"):
                        continue
                    methods = [meth("E", False, [], 2, 2), meth("N", True, [["call", 0, False, 0]]), meth("X", False, [["call", 0, False, 0]])]
                    t1 = dict(name="T0", body=[["if", [[list(kinds[ka])], [list(kinds[kb])]], True]], nested=[])
                    t2b = [list(kinds[kc])]
                    t2 = dict(name="T1", body=[["if", [t2b, []], False]] if t2_cond else t2b, nested=[])
                    out.append(dict(methods=methods, transactions=[t1, t2], relations=[], groups=[["plain", [0]], ["plain", [1]]],
                                    group_module=[0, 0], mgroups=[], witness=False))
    for ka in names:
        for kc in ("direct", "via_nonex", "via_ex"):
            methods = [meth("E", False, [], 2, 2), meth("N", True, [["call", 0, False, 0]]), meth("X", False, [["call", 0, False, 0]])]
            out.append(dict(methods=methods, transactions=[dict(name="T0", body=[list(kinds[ka])], nested=[]), dict(name="T1", body=[list(kinds[kc])], nested=[])],
                            relations=[], groups=[["plain", [0]], ["plain", [1]]], group_module=[0, 0], mgroups=[], witness=False))
    # one transaction reaching E at two call sites that are NOT mutually exclusive (in sequence / in two sibling Ifs), through the
    # same or through different Method objects (direct, one or two provide() aliases, via N / X): rejected unless both go through N
    kinds2 = dict(kinds, alias2=["call", 0, False, 2])
    names2 = list(kinds2)
    for ia, ka in enumerate(names2):
        for kb in names2[ia:]:
            for shape in ("seq", "ifs"):
                methods = [meth("E", False, [], 2, 2), meth("N", True, [["call", 0, False, 0]]), meth("X", False, [["call", 0, False, 0]])]
                a, b = list(kinds2[ka]), list(kinds2[kb])
                body = [a, b] if shape == "seq" else [["if", [[a]], False], ["sif", [b]]]
                out.append(dict(methods=methods, transactions=[dict(name="T0", body=body, nested=[]), dict(name="T1", body=[["call", 0, False, 0]], nested=[])],
                                relations=[], groups=[["plain", [0]], ["plain", [1]]], group_module=[0, 0], mgroups=[], witness=False))
    return out


def systematic_relation_specs():
    """Small fixed family around explicit relations:
    (1) add_conflict (t-t / m-m, all priorities) between two transactions that sit in DIFFERENT alternatives at the same position of
        two separate module-level If / Switch / FSM structures, in two TModules or in one (not mutually exclusive: both may run);
    (2) a prioritised method-method conflict lifted to several caller pairs one of which is mutually exclusive by control path
        and is visited first, with extra conflicts that turn the default tie-break against the high-priority transaction;
    (3) bodies with two ready-dependency sources (nesting + explicit schedule_before(ready_dependent=True), two explicit ones);
    (4) conflicts declared on provide() aliases of the conflicting methods."""
    def meth(name, body=(), nonex=False):
        return dict(name=name, nonexcl=nonex, iw=0, ow=0, ready_free=True, validate=None, combiner=None, body=list(body),
                    single_caller=False, nested_in=None)

    def tr(name, body, nested=()):
        return dict(name=name, body=list(body), nested=list(nested))

    out = []
    for kind in ("if", "switch", "fsm"):
        for rel in ("tt", "mm"):
            for prio in ("U", "L", "R"):
                for mods in ([1, 2], [0, 1], [0, 0]):
                    methods = [meth("M0"), meth("M1")]
                    trs = [tr("T0", [["call", 0, False, 0]]), tr("T1", [["call", 1, False, 0]])]
                    g0 = [kind, [[0], []], True] if kind != "fsm" else [kind, [[0], []]]
                    g1 = [kind, [[], [1]], True] if kind != "fsm" else [kind, [[], [1]]]
                    r = ["conflict", ["t", 0], ["t", 1], prio] if rel == "tt" else ["conflict", ["m", 0], ["m", 1], prio]
                    out.append(dict(methods=methods, transactions=trs, relations=[r], groups=[g0, g1], group_module=list(mods), mgroups=[], witness=False))
    for form in ("L", "R"):
        for excl_first in (True, False):
            # hp (0) called by tH, lp (1) called by tL1 and tL2, S (2) shared by tH, tS1, tS2; tH and tL1 in alternatives of one If
            methods = [meth("hp"), meth("lp"), meth("S")]
            tL1, tH = tr("tL1", [["call", 1, False, 0]]), tr("tH", [["call", 0, False, 0], ["call", 2, False, 0]])
            tL2, tS1, tS2 = tr("tL2", [["call", 1, False, 0]]), tr("tS1", [["call", 2, False, 0]]), tr("tS2", [["call", 2, False, 0]])
            if excl_first:   # creation order: tL1, tH, tL2, ... (the exclusive pair (tH, tL1) is visited before (tH, tL2))
                trs, groups = [tL1, tH, tL2, tS1, tS2], [["if", [[0], [1]], True], ["plain", [2]], ["plain", [3]], ["plain", [4]]]
            else:            # tL2 created first
                trs, groups = [tL2, tL1, tH, tS1, tS2], [["plain", [0]], ["if", [[1], [2]], True], ["plain", [3]], ["plain", [4]]]
            r = ["conflict", ["m", 0], ["m", 1], "L"] if form == "L" else ["conflict", ["m", 1], ["m", 0], "R"]
            out.append(dict(methods=methods, transactions=trs, relations=[r], groups=groups, group_module=[0] * len(groups), mgroups=[], witness=False))
    # (4) an add_conflict declared on provide() aliases of the methods (the callers use the method itself or an alias)
    for ha, hb in ((1, 0), (0, 1), (2, 1)):
        for prio in ("U", "L", "R"):
            for call_hops in (0, 1):
                methods = [meth("M0"), meth("M1")]
                trs = [tr("T0", [["call", 0, False, call_hops]]), tr("T1", [["call", 1, False, 0]])]
                out.append(dict(methods=methods, transactions=trs, relations=[["conflict", ["m", 0], ["m", 1], prio, [ha, hb]]],
                                groups=[["plain", [0]], ["plain", [1]]], group_module=[0, 0], mgroups=[], witness=False))
    # (5) W.add_conflict(R) / R.add_conflict(W), R nonexclusive: T0 calls W in one branch and R in the other, T1 calls R only
    for order in ("WR", "RW"):
        for prio in ("U", "L", "R"):
            for first in (0, 1):
                methods = [meth("W"), meth("R", nonex=True)]
                t_both = tr("Tboth", [["if", [[["call", 0, False, 0]], [["call", 1, False, 0]]], True]])
                t_r = tr("Tr", [["call", 1, False, 0]])
                trs = [t_both, t_r] if first == 0 else [t_r, t_both]
                r = ["conflict", ["m", 0], ["m", 1], prio] if order == "WR" else ["conflict", ["m", 1], ["m", 0], prio]
                out.append(dict(methods=methods, transactions=trs, relations=[r], groups=[["plain", [0]], ["plain", [1]]],
                                group_module=[0, 0], mgroups=[], witness=False))
    # (3) two ready-dependency sources
    for variant in ("nest+explicit", "two explicit", "nest+explicit, source later"):
        methods = [meth("M0")]
        if variant == "two explicit":
            trs = [tr("T0", []), tr("T1", []), tr("T2", [["call", 0, False, 0]])]
            rels = [["before", ["t", 0], ["t", 2], True], ["before", ["t", 1], ["t", 2], True]]
        elif variant == "nest+explicit":
            trs = [tr("T0", []), tr("T1", [], nested=[dict(name="T1n", body=[["call", 0, False, 0]], under_if=False)])]
            rels = [["before", ["t", 0], ["n", 1, 0], True]]
        else:
            trs = [tr("T0", [], nested=[dict(name="T0n", body=[["call", 0, False, 0]], under_if=False)]), tr("T1", [])]
            rels = [["before", ["n", 0, 0], ["t", 1], True], ["before", ["t", 0], ["t", 1], True]]
        out.append(dict(methods=methods, transactions=trs, relations=rels, groups=[["plain", [i]] for i in range(len(trs))],
                        group_module=[0] * len(trs), mgroups=[], witness=False))
    return out


def _def_position(groups, ti):
    pos = 0
    for g in groups:
        alts = [g[1]] if g[0] == "plain" else g[1]
        for alt in alts:
            for t in alt:
                if t == ti:
                    return pos
                pos += 1
    return pos


# ------------------------------------------------------------------ builder
class Site:
    def __init__(self, body, callee, tpath, lits, en, arg, res, idx):
        self.body, self.callee, self.tpath, self.lits, self.en, self.arg, self.res, self.idx = body, callee, tpath, lits, en, arg, res, idx


class Wit:
    """witness statements placed at one program point: signals + (enclosing bodies, condition literals)."""

    def __init__(self, bodies, lits, comb, av, top, sync):
        self.bodies, self.lits, self.comb, self.av, self.top, self.sync = bodies, lits, comb, av, top, sync


class Design(Elaboratable):
    def __init__(self, spec):
        self.spec = spec
        self.inputs = {}
        self.sites = []
        self.wits = []
        self.fsm_states = []  # (state signal, number of states)
        self.nid = itertools.count()
        self.M = []
        self.alias = {}
        for mi, m in enumerate(spec["methods"]):
            kw = dict(name=m["name"], i=[("x", m["iw"])] if m["iw"] else [], o=[("y", m["ow"])] if m["ow"] else [])
            self.M.append(Method(**kw))
        self.T = []
        self.NT = {}
        self.mready = {}
        self.mout = {}
        self.treq = {}
        self.body_lits = {}
        self.body_tpath = {}
        # harness protocol
        self.dut = None
        self.ad = {}

    # -- harness protocol (vf.harness.Built / simulate)
    def named_signals(self):
        return dict(self.inputs)

    def input_signals(self):
        return {n: s for n, s in self.inputs.items() if len(s)}

    def inp(self, name, w=1):
        s = Signal(w, name=name)
        self.inputs[name] = s
        return s

    def _alias_of(self, mi, hops):
        """a chain of `hops` provide() aliases in front of method mi (created once per (mi, hops))."""
        if hops == 0:
            return self.M[mi]
        key = (mi, hops)
        if key not in self.alias:
            base = self._alias_of(mi, hops - 1)
            ms = self.spec["methods"][mi]
            a = Method(name=f"{ms['name']}_alias{hops}", i=[("x", ms["iw"])] if ms["iw"] else [], o=[("y", ms["ow"])] if ms["ow"] else [])
            a.provide(base)
            self.alias[key] = a
        return self.alias[key]

    def _witness(self, m, bodies, lits):
        if not self.spec.get("witness"):
            return
        k = len(self.wits)
        w = Wit(list(bodies), list(lits), Signal(name=f"wc{k}"), Signal(name=f"wa{k}"), Signal(name=f"wt{k}"), Signal(name=f"ws{k}"))
        m.d.comb += w.comb.eq(1)
        m.d.av_comb += w.av.eq(1)
        m.d.top_comb += w.top.eq(1)
        m.d.sync += w.sync.eq(~w.sync)
        self.wits.append(w)

    def emit_body(self, m, bkey, stmts, tpath, lits, bodies):
        self._witness(m, bodies, lits)
        for st in stmts:
            kind = st[0]
            if kind == "call":
                _, mi, enf, hops = st
                ms = self.spec["methods"][mi]
                meth = self._alias_of(mi, hops)
                k = len(self.sites)
                en = self.inp(f"en{k}") if enf else None
                arg = self.inp(f"arg{k}", ms["iw"]) if ms["iw"] else None
                kw = {}
                if arg is not None:
                    kw["x"] = arg
                r = meth(m, enable_call=en, **kw) if en is not None else meth(m, **kw)
                res = None
                if ms["ow"]:
                    res = Signal(ms["ow"], name=f"res{k}")
                    with (m.If(en) if en is not None else _null()):
                        m.d.comb += res.eq(r.y)
                self.sites.append(Site(bkey, mi, tpath + [(next(self.nid), 0)], list(lits), en, arg, res, k))
            elif kind == "sif":
                node = next(self.nid)
                c = self.inp(f"c{node}_s", 2 if node % 3 == 1 else 1)  # some conditions are 2 bits wide (true iff non-zero)
                with m.If(c):
                    self.emit_body(m, bkey, st[1], tpath + [(node, 0)], lits + [("p", c)], bodies)
            elif kind == "if":
                _, alts, has_else = st
                node = next(self.nid)
                conds = []
                for j, b in enumerate(alts):
                    is_else = has_else and j == len(alts) - 1
                    if not is_else:
                        c = self.inp(f"c{node}_{j}", 2 if (node + j) % 3 == 1 else 1)  # some conditions are 2 bits wide
                    ctx = m.If(c) if j == 0 else (m.Else() if is_else else m.Elif(c))
                    lit = [("n", x) for x in conds] + ([] if is_else else [("p", c)])
                    with ctx:
                        self.emit_body(m, bkey, b, tpath + [(node, j)], lits + lit, bodies)
                    if not is_else:
                        conds.append(c)
            elif kind == "switch":
                _, alts, has_def = st
                node = next(self.nid)
                ncase = len(alts) - (1 if has_def else 0)
                sel = self.inp(f"sel{node}", 2)
                with m.Switch(sel):
                    for j, b in enumerate(alts):
                        is_def = has_def and j == len(alts) - 1
                        lit = [("ne", sel, k) for k in range(ncase)] if is_def else [("eq", sel, j)]
                        with (m.Default() if is_def else m.Case(j)):
                            self.emit_body(m, bkey, b, tpath + [(node, j)], lits + lit, bodies)
            elif kind == "fsm":
                _, alts = st
                node = next(self.nid)
                self._emit_fsm(m, node, len(alts), lambda j, lit: self.emit_body(m, bkey, alts[j], tpath + [(node, j)], lits + lit, bodies))

    def _emit_fsm(self, m, node, nstates, emit_alt):
        adv = self.inp(f"adv{node}")
        with m.FSM(name=f"fsm{node}") as fsm:
            names = [f"S{node}_{j}" for j in range(nstates)]
            for j in range(nstates):
                with m.State(names[j]):
                    # literal resolved after the FSM block is closed (the state register is created then)
                    emit_alt(j, [("fsm", fsm._data, names[j])])
                    with m.If(adv):
                        m.next = names[(j + 1) % nstates]
        self.fsm_states.append((fsm._data, nstates))

    def _combiner(self, kind, iw):
        if kind == "or":
            def comb(m, args, runs):
                acc = C(0, iw)
                for i, a in enumerate(args):
                    acc = acc | Mux(runs[i], a.x, 0)
                return {"x": acc}
            return comb
        if kind == "sum":
            def comb(m, args, runs):
                acc = C(0, iw)
                for i, a in enumerate(args):
                    acc = (acc + Mux(runs[i], a.x, 0))[:iw]
                return {"x": acc}
            return comb
        if kind == "sumcnt":
            # sum of the active arguments plus the NUMBER of active calls: differs from the bare argument also for a single call
            def comb(m, args, runs):
                acc = C(0, iw)
                for i, a in enumerate(args):
                    acc = (acc + Mux(runs[i], a.x + 1, 0))[:iw]
                return {"x": acc}
            return comb
        return None

    def _def_method(self, m, mi, tpath, lits, bodies):
        ms = self.spec["methods"][mi]
        rdy = self.inp(f"rdy_{ms['name']}") if ms["ready_free"] else C(1)
        self.mready[mi] = rdy
        if ms.get("ready_on_run") is not None:
            # Forwarder-style readiness: ready also when an earlier body (declared with schedule_before) runs
            rdy = rdy | self.M[ms["ready_on_run"]].run
        out = self.inp(f"out_{ms['name']}", ms["ow"]) if ms["ow"] else None
        self.mout[mi] = out
        kw = {}
        if ms["nonexcl"]:
            kw["nonexclusive"] = True
        if ms.get("single_caller"):
            kw["single_caller"] = True
        if ms["validate"] == "nz":
            kw["validate_arguments"] = lambda x: x != 0
        elif ms["validate"] == "bit0":
            kw["validate_arguments"] = lambda x: x[0]
        cb = self._combiner(ms.get("combiner"), ms["iw"])
        if cb is not None:
            kw["combiner"] = cb
        node = next(self.nid)
        self.body_lits[("m", mi)] = list(lits)
        self.body_tpath[("m", mi)] = tpath + [(node, 0)]

        @def_method(m, self.M[mi], ready=rdy, **kw)
        def _(**args):
            self.emit_body(m, ("m", mi), ms["body"], tpath + [(node, 0)], lits, bodies + [("m", mi)])
            if out is not None:
                return {"y": out}

    def elaborate(self, platform):
        m = TModule()
        sp = self.spec
        keep = Signal(name="_keep_sync")  # keeps the sync domain present for amaranth.sim replays
        m.d.sync += keep.eq(1)
        gmods = sp.get("group_module") or [0] * len(sp["groups"])
        self.tms = {0: m}
        for k in sorted(set(gmods)):
            if k != 0:
                self.tms[k] = TModule()  # a second/third module: own control-path namespace
                m.submodules[f"mod{k}"] = self.tms[k]
        top = m
        grouped = set()
        for g in sp.get("mgroups") or []:
            # methods DEFINED in different alternatives of a module-level If/Elif/Else (exclusive definitions)
            _, alts, has_else = g
            gnode = next(self.nid)
            conds = []
            for j, mis in enumerate(alts):
                is_else = has_else and j == len(alts) - 1
                if not is_else:
                    c = self.inp(f"mg{gnode}_{j}")
                ctx = m.If(c) if j == 0 else (m.Else() if is_else else m.Elif(c))
                lit = [("n", x) for x in conds] + ([] if is_else else [("p", c)])
                with ctx:
                    for mi in mis:
                        self._def_method(m, mi, [(("mod", 0), 0), (gnode, j)], lit, [])
                        grouped.add(mi)
                if not is_else:
                    conds.append(c)
        for mi, ms in enumerate(sp["methods"]):
            if ms.get("nested_in") is None and mi not in grouped:
                self._def_method(m, mi, [(("mod", 0), 0)], [], [])
        self.T = [None] * len(sp["transactions"])

        def emit_t(m, ti, tpath, lits):
            tsp = sp["transactions"][ti]
            req = self.inp(f"req_{tsp['name']}")
            self.treq[ti] = req
            node = next(self.nid)
            self.body_lits[("t", ti)] = list(lits)
            self.body_tpath[("t", ti)] = tpath + [(node, 0)]
            with (t := Transaction(name=tsp["name"])).body(m, ready=req):
                for k, nsp in enumerate(tsp["nested"]):
                    nreq = self.inp(f"req_{nsp['name']}")
                    key = ("n", ti, k)
                    nnode = next(self.nid)
                    if nsp["under_if"]:
                        cnode = next(self.nid)
                        c = self.inp(f"c{cnode}_n")
                        with m.If(c):
                            with (nt := Transaction(name=nsp["name"])).body(m, ready=nreq):
                                self.emit_body(m, key, nsp["body"], tpath + [(node, 0), (cnode, 0), (nnode, 0)], lits + [("p", c)], [("t", ti), key])
                        self.body_lits[key] = lits + [("p", c)]
                        self.body_tpath[key] = tpath + [(node, 0), (cnode, 0), (nnode, 0)]
                    else:
                        with (nt := Transaction(name=nsp["name"])).body(m, ready=nreq):
                            self.emit_body(m, key, nsp["body"], tpath + [(node, 0), (nnode, 0)], lits, [("t", ti), key])
                        self.body_lits[key] = list(lits)
                        self.body_tpath[key] = tpath + [(node, 0), (nnode, 0)]
                    self.NT[key] = (nt, nreq)
                for mi, ms in enumerate(sp["methods"]):
                    if ms.get("nested_in") is not None and ms["nested_in"][0] == ti:
                        if ms["nested_in"][1]:
                            cnode = next(self.nid)
                            c = self.inp(f"c{cnode}_nm")
                            with m.If(c):
                                self._def_method(m, mi, tpath + [(node, 0), (cnode, 0)], lits + [("p", c)], [("t", ti)])
                        else:
                            self._def_method(m, mi, tpath + [(node, 0)], lits, [("t", ti)])
                self.emit_body(m, ("t", ti), tsp["body"], tpath + [(node, 0)], lits, [("t", ti)])
            self.T[ti] = t

        for gi, g in enumerate(sp["groups"]):
            m = self.tms[gmods[gi]]
            mp = [(("mod", gmods[gi]), 0)]
            if g[0] == "plain":
                for ti in g[1]:
                    emit_t(m, ti, mp, [])
            elif g[0] == "if":
                _, alts, has_else = g
                gnode = next(self.nid)
                conds = []
                for j, tis in enumerate(alts):
                    is_else = has_else and j == len(alts) - 1
                    if not is_else:
                        c = self.inp(f"g{gnode}_{j}")
                    ctx = m.If(c) if j == 0 else (m.Else() if is_else else m.Elif(c))
                    lit = [("n", x) for x in conds] + ([] if is_else else [("p", c)])
                    with ctx:
                        for ti in tis:
                            emit_t(m, ti, mp + [(gnode, j)], lit)
                    if not is_else:
                        conds.append(c)
            elif g[0] == "switch":
                _, alts, has_def = g
                gnode = next(self.nid)
                ncase = len(alts) - (1 if has_def else 0)
                sel = self.inp(f"gsel{gnode}", 2)
                with m.Switch(sel):
                    for j, tis in enumerate(alts):
                        is_def = has_def and j == len(alts) - 1
                        lit = [("ne", sel, k) for k in range(ncase)] if is_def else [("eq", sel, j)]
                        with (m.Default() if is_def else m.Case(j)):
                            for ti in tis:
                                emit_t(m, ti, mp + [(gnode, j)], lit)
            elif g[0] == "fsm":
                _, alts = g
                gnode = next(self.nid)

                def emit_alt(j, lit, alts=alts, gnode=gnode, m=m, mp=mp):
                    for ti in alts[j]:
                        emit_t(m, ti, mp + [(gnode, j)], lit)

                self._emit_fsm(m, gnode, len(alts), emit_alt)

        def obj(k, hops=0):
            k = tuple(k)
            if k[0] == "t":
                return self.T[k[1]]
            if k[0] == "n":
                return self.NT[k][0]
            # a relation may be declared on a provide() alias of the method (optional 5th element [hops, hops]): same body
            return self._alias_of(k[1], hops) if hops else self.M[k[1]]

        for r in sp["relations"]:
            ha, hb = r[4] if len(r) > 4 else (0, 0)
            if r[0] == "conflict":
                pr = {"U": Priority.UNDEFINED, "L": Priority.LEFT, "R": Priority.RIGHT}[r[3]]
                obj(r[1], ha).add_conflict(obj(r[2], hb), pr)
            else:
                obj(r[1], ha).schedule_before(obj(r[2], hb), ready_dependent=bool(r[3]))
        return top


# ------------------------------------------------------------------ oracle (computed from the spec + site table only)
def struct_excl(p1, p2):
    """two program points are in different alternatives of one control structure."""
    for (n1, a1), (n2, a2) in zip(p1, p2):
        if n1 != n2:
            return False
        if a1 != a2:
            return True
    return False


class Oracle:
    def __init__(self, d):
        self.d = d
        self.sp = d.spec
        self.by_body = {}
        for s in d.sites:
            self.by_body.setdefault(s.body, []).append(s)
        self.sites_of = {}
        for s in d.sites:
            self.sites_of.setdefault(s.callee, []).append(s)
        self._chains = {}

    def chains(self, root, limit=300):
        """all call chains (lists of sites) starting in body `root`; sets self.recursive."""
        root = tuple(root)
        if root in self._chains:
            self.recursive = self._chains[root][1]
            return self._chains[root][0]
        out = []
        rec_flag = [False]

        def rec(body, prefix, seen):
            for s in self.by_body.get(body, []):
                ch = prefix + [s]
                out.append(ch)
                if len(out) > limit:
                    raise OverflowError
                if s.callee in seen:
                    rec_flag[0] = True
                    continue
                rec(("m", s.callee), ch, seen | {s.callee})

        rec(root, [], {root[1]} if root[0] == "m" else set())
        self._chains[root] = (out, rec_flag[0])
        self.recursive = rec_flag[0]
        return out

    def chain_excl(self, c1, c2):
        for a, b in zip(c1, c2):
            if a is not b:
                return struct_excl(a.tpath, b.tpath)
        return False  # one is a prefix of the other

    def tkeys(self):
        out = []
        for i, t in enumerate(self.sp["transactions"]):
            out.append(("t", i))
            for k in range(len(t["nested"])):
                out.append(("n", i, k))
        return out

    def static_tree(self, key):
        return sorted({c[-1].callee for c in self.chains(key)})

    def callers(self, k):
        k = tuple(k)
        if k[0] in ("t", "n"):
            return {k}
        return {tk for tk in self.tkeys() if k[1] in self.static_tree(tk)}

    def bodies_of(self, tk):
        return [tk] + [("m", mi) for mi in self.static_tree(tk)]

    def bodies_exclusive(self, t1, t2):
        """some body on one side is defined in a different alternative of a control structure than one on the other side."""
        for b1 in self.bodies_of(t1):
            for b2 in self.bodies_of(t2):
                if struct_excl(self.d.body_tpath[b1], self.d.body_tpath[b2]):
                    return True
        return False

    def explicit_conflict(self, t1, t2):
        for r in self.sp["relations"]:
            if r[0] != "conflict":
                continue
            ca, cb = self.callers(r[1]), self.callers(r[2])
            if ((t1 in ca and t2 in cb) or (t2 in ca and t1 in cb)) and not self.bodies_exclusive(t1, t2):
                return True
        return False

    def implicit_conflict(self, t1, t2):
        for c1 in self.chains(t1):
            for c2 in self.chains(t2):
                if c1[-1].callee != c2[-1].callee:
                    continue
                k = 0
                while k < min(len(c1), len(c2)) and c1[-1 - k].callee == c2[-1 - k].callee:
                    k += 1
                top = c1[-k].callee
                if not self.sp["methods"][top]["nonexcl"] and not struct_excl(c1[0].tpath, c2[0].tpath):
                    return True
        return False

    def conflict(self, t1, t2):
        return self.implicit_conflict(t1, t2) or self.explicit_conflict(t1, t2)

    def ready_deps(self, body):
        """bodies whose run is required for `body` to be runnable (nesting, schedule_before(ready_dependent))."""
        body = tuple(body)
        out = []
        if body[0] == "n":
            out.append(("t", body[1]))
        if body[0] == "m":
            ni = self.sp["methods"][body[1]].get("nested_in")
            if ni is not None:
                out.append(("t", ni[0]))
        for r in self.sp["relations"]:
            if r[0] == "before" and r[3] and tuple(r[2]) == body:
                out.append(tuple(r[1]))
        return out

    def ill_formed(self):
        """reason string if the spec is ill-formed in one of the ways listed in C11, else None."""
        sp = self.sp
        roots = self.tkeys() + [("m", i) for i in range(len(sp["methods"]))]
        for r in roots:
            chs = self.chains(r)
            if self.recursive:
                return "recursion"
            for c1, c2 in itertools.combinations(chs, 2):
                if c1[-1].callee == c2[-1].callee and not sp["methods"][c1[-1].callee]["nonexcl"]:
                    if not self.chain_excl(c1, c2):
                        return "double call"
        self.ambiguous = None
        for mi, ms in enumerate(sp["methods"]):
            if ms.get("single_caller"):
                sites = self.sites_of.get(mi, [])
                direct = {s.body for s in sites if s.body[0] in ("t", "n")}
                if len(direct) > 1:
                    return "single_caller method called from two transactions"
                if len(sites) > 1 or len(self.callers(("m", mi))) > 1:
                    # several call sites in one body / reached from several transactions only through other methods:
                    # the statement is silent, either outcome is accepted
                    self.ambiguous = "single_caller method with several call sites or indirect callers"
        for tk in self.tkeys():
            for dep in self.ready_deps(tk):
                if dep[0] in ("t", "n") and dep != tk and self.conflict(tk, dep):
                    return "ready-dependent on a conflicting transaction"
        if self.priority_cycle():
            return "cyclic priorities"
        return None

    def priority_edges(self):
        """(hi, lo) pairs of transactions: hi must be ordered before lo."""
        edges = set()
        for r in self.sp["relations"]:
            if r[0] == "conflict":
                if r[3] == "U":
                    continue
                a, b = (r[1], r[2]) if r[3] == "L" else (r[2], r[1])
            else:
                a, b = r[1], r[2]
            for x in self.callers(a):
                for y in self.callers(b):
                    edges.add((x, y))
        for tk in self.tkeys():
            if tk[0] == "n":
                edges.add((("t", tk[1]), tk))
        for mi, ms in enumerate(self.sp["methods"]):
            if ms.get("nested_in") is not None:
                for y in self.callers(("m", mi)):
                    edges.add((("t", ms["nested_in"][0]), y))
        return edges

    def priority_cycle(self):
        import z3

        edges = self.priority_edges()
        if any(a == b for a, b in edges):
            return True
        s = z3.Solver()
        pos = {tk: z3.Int("p_" + "_".join(map(str, tk))) for tk in self.tkeys()}
        for a, b in edges:
            s.add(pos[a] < pos[b])
        return s.check() != z3.sat
