#!/bin/bash
# tools/ingest_seeded.sh <PROP> <round>  — takes a sub-agent's deliverables from /tmp/mutwork_<PROP><round>/ into
# /verif/seeded/<PROP>-<round>/, confirms them in a scratch worktree (tools/confirm_seeded_fast.sh), evaluates the change against
# the property's quick check (thorough if quick misses) and appends the row to seeded/RESULTS.md.  Removes the agent's worktree.
set -u
P="$1"; R="$2"; ID="$P-$R"; SRC="/tmp/mutwork_$P$R"; DIR="/verif/seeded/$ID"
cd /verif
[ -f "$SRC/patch.diff" ] && [ -f "$SRC/meta.json" ] || { echo "$ID: deliverables missing in $SRC"; exit 9; }
mkdir -p "$DIR"
cp "$SRC/patch.diff" "$SRC/meta.json" "$DIR/"
for f in demo.py test_demo.py; do [ -f "$SRC/$f" ] && cp "$SRC/$f" "$DIR/"; done
git -C /repo worktree remove --force "/tmp/mut_$P$R" >/dev/null 2>&1
tools/confirm_seeded_fast.sh "$ID"
cat "$DIR/confirm.txt"
q=$(tools/seeded_eval.sh "$ID" quick 2>&1 | tail -1); qrc=$(echo "$q" | sed 's/.*exit=\([0-9]*\).*/\1/'); qv=$(echo "$q" | sed 's/.*violations=\([0-9]*\) .*/\1/')
t="-"
if [ "$qrc" != "1" ]; then tt=$(tools/seeded_eval.sh "$ID" thorough 2>&1 | tail -1); t="exit $(echo "$tt" | sed 's/.*exit=\([0-9]*\).*/\1/')"; fi
s=$(python3 -c "import json;print(json.load(open('$DIR/meta.json'))['summary'][:160].replace('|','/').replace('\n',' '))")
echo "| $ID | $P | exit $qrc ($qv VIOLATION lines) | $t | $s |" >> seeded/RESULTS.md
echo "RESULT $ID quick=$qrc violations=$qv thorough=$t"
