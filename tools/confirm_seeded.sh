#!/bin/bash
# tools/confirm_seeded.sh <seeded-id>...   — lead's own confirmation of a seeded change in a scratch worktree:
#  (1) demo passes on the unmodified tree, (2) patch applies, (3) demo fails with the patch, (4) the repository's test suite passes
#  with the patch (failures that are hypothesis DeadlineExceeded/Flaky/FailedHealthCheck timing errors are load artefacts and listed).
# Result is appended to /verif/seeded/<id>/confirm.txt
for ID in "$@"; do
  DIR=/verif/seeded/$ID; WT=/tmp/confwt_$ID; OUT=$DIR/confirm.txt
  git -C /repo worktree add -q "$WT" HEAD || continue
  DEMO=$(ls $DIR/demo.py $DIR/test_demo.py 2>/dev/null | head -1)
  rundemo() { if [[ "$DEMO" == *test_demo.py ]]; then (cd $WT && PYTHONPATH=$WT timeout 1200 /venv/bin/python -m pytest -q -p no:cacheprovider "$DEMO" >/tmp/conf_demo_$ID.log 2>&1); else (cd $WT && PYTHONPATH=$WT timeout 1200 /venv/bin/python "$DEMO" >/tmp/conf_demo_$ID.log 2>&1); fi; echo $?; }
  { echo "== $ID $(date -u +%FT%TZ) repo HEAD $(git -C /repo rev-parse --short HEAD)"
    echo "demo on unmodified tree: exit $(rundemo)"
    if git -C $WT apply $DIR/patch.diff; then echo "patch applies: yes"; else echo "patch applies: NO"; fi
    echo "demo with patch: exit $(rundemo)"
    (cd $WT && PYTHONPATH=$WT timeout 5400 /venv/bin/python -m pytest -q -p no:cacheprovider --timeout=900 -n 5 > /tmp/conf_suite_$ID.log 2>&1)
    echo "test suite with patch: $(tail -1 /tmp/conf_suite_$ID.log)"
    grep -E "^FAILED|^ERROR" /tmp/conf_suite_$ID.log | sed 's/ - .*//' | sort | sed 's/^/   /'
    echo "   timing-related failures (DeadlineExceeded/Flaky/FailedHealthCheck mentions): $(grep -c -E 'DeadlineExceeded|Flaky|FailedHealthCheck' /tmp/conf_suite_$ID.log)"
  } >> $OUT 2>&1
  git -C /repo worktree remove --force "$WT"
done
