#!/venv/bin/python
"""prints the prompt for a seeded-change sub-agent for property <ID> (only the property text + its scratch worktree)."""
import json, sys
pid = sys.argv[1]
rnd = sys.argv[2] if len(sys.argv) > 2 else ""
p = next(json.loads(l) for l in open('/verif/properties.jsonl') if json.loads(l)['id'] == pid)
wt = f"/tmp/mut_{pid}{rnd}"
prev = ""
if rnd:
    import os
    import glob
    sums = [json.load(open(pm))["summary"] for pm in sorted(glob.glob(f"/verif/seeded/{pid}-*/meta.json"))]
    if sums:
        prev = ("\n\nIMPORTANT: other engineers already produced the following change(s) for this property; yours must be a DIFFERENT one "
                "(a different code site or a different mechanism, and a different situation in which it manifests): "
                + " /// ".join(sums) + "\nFor this round you only need to run the test files relevant to the code you touch "
                "(not the full suite, which takes over half an hour on this shared machine); the full suite will be run by the lead afterwards, "
                "so be conservative: if in doubt whether some existing test exercises your change, check by grepping the tests.")
print(f"""You are a careful software engineer helping to evaluate a verification effort for the open-source Python library kuznia-rdzeni/transactron (a library for Amaranth HDL that elaborates Bluespec-style transactions and methods into hardware, plus FIFOs, memories, allocators...). You work ONLY in your own scratch git worktree of the repository at {wt} (already created for you, at the pinned commit). Do not look at or touch /repo or /verif or any other directory outside {wt} and /tmp/mutwork_{pid}{rnd} (your private scratch dir for demonstrations; create it). The Python interpreter with all dependencies is /venv/bin/python; to make it import the library from your worktree run everything with `cd {wt}` and `PYTHONPATH={wt}` (check once with `PYTHONPATH={wt} /venv/bin/python -c "import transactron; print(transactron.__file__)"`).

Here is a semantic property of the library that is supposed to hold:

  id: {p['id']}
  title: {p['title']}
  statement: {p['statement']}
  quantifier: {p['quantifier']['text']}
  why the existing tests cannot settle it: {p['why_tests_cant']}
  anchored in: {', '.join(p['anchors']['files'])}

Your task: produce ONE realistic change to the library source under {wt}/transactron (a bug a maintainer could plausibly introduce in a refactoring or optimisation: a wrong index, a dropped condition, a swapped operand, an off-by-one, a missed corner case, two sites that each look fine alone...) that BREAKS this property while the code still imports/elaborates and the repository's existing test suite still passes. Prefer a change that needs something specific to manifest — a particular interleaving or call history, a multi-step sequence of operations, an unusual configuration or input value, or two cooperating sites — NOT one that ordinary use would expose at once (if every test of the component fails, the change is too blunt).

Deliverables (put them in /tmp/mutwork_{pid}{rnd}/):
 1. `patch.diff` — `git -C {wt} diff` of your change (source files under transactron/ only; do not edit tests).
 2. `demo.py` (or `test_demo.py`) — a small self-contained demonstration (a pytest test or a script using amaranth.sim / the library's own testing helpers, or plain Python for pure-Python code) that FAILS (non-zero exit / failing assertion) with your change applied and PASSES on the unmodified code. Run it both ways and record the outputs (to switch use `git -C {wt} diff > /tmp/mutwork_{pid}{rnd}/patch.diff; git -C {wt} apply -R /tmp/mutwork_{pid}{rnd}/patch.diff` and `git -C {wt} apply /tmp/mutwork_{pid}{rnd}/patch.diff`; do NOT use `git stash`: the stash is shared between all worktrees of the repository and other people work in sibling worktrees).
 3. `meta.json` — {{"property": "{p['id']}", "summary": one sentence describing the change, "needs_to_manifest": what specific input/sequence/configuration exposes it, "tests_run": the pytest commands you ran and their results}}.

Test suite: the full suite is `cd {wt} && PYTHONPATH={wt} /venv/bin/python -m pytest -q -p no:cacheprovider --timeout=900 -n 4` (1735 tests, takes several minutes; the machine is shared and loaded, so be patient and use a long timeout). First run only the test files relevant to the code you touch to iterate quickly, then run the full suite ONCE with your final change and report the exact summary line. All tests must pass with your change (if a few tests fail identically on the unmodified code because of machine load/timeouts, say so explicitly and show it).

{prev}

Keep it to a single small change (1–10 lines). Do not weaken or edit tests. When you are done, reply with the contents of meta.json, the patch, and the two outputs of the demonstration.""")
