#!/bin/bash
# tools/seeded_eval.sh <seeded-id> [tier] [check-id]
# Evaluates one kept seeded change (/verif/seeded/<id>/patch.diff) against a check without touching /repo:
# a scratch worktree of /repo's HEAD gets the patch and is put in front of the editable install via PYTHONPATH.
# (The official procedure `git -C /repo apply ...; ./check ...; git -C /repo checkout -- .` gives the same result.)
set -u
ID="$1"; TIER="${2:-quick}"
DIR="/verif/seeded/$ID"
PROP="${3:-$(python3 -c "import json;print(json.load(open('$DIR/meta.json'))['property'])")}"
WT="/tmp/seedwt_${ID}_$$"
git -C /repo worktree add -q "$WT" HEAD || exit 9
trap 'git -C /repo worktree remove --force "$WT" >/dev/null 2>&1; rm -rf "/tmp/seedrep_${ID}_$$"' EXIT
git -C "$WT" apply "$DIR/patch.diff" || { echo "patch does not apply"; exit 9; }
cd /verif
PYTHONPATH="$WT" VERIF_NO_EVIDENCE=1 VERIF_REPLAY_DIR="/tmp/seedrep_${ID}_$$" ./check "$PROP" "$TIER" > "/tmp/seedout_${ID}_${PROP}_${TIER}.txt" 2>&1
RC=$?
NV=$(grep -c '^VIOLATION' "/tmp/seedout_${ID}_${PROP}_${TIER}.txt")
echo "seeded=$ID check=$PROP tier=$TIER exit=$RC violations=$NV $(tail -1 /tmp/seedout_${ID}_${PROP}_${TIER}.txt | cut -c1-160)"
exit $RC
