#!/bin/bash
# tools/confirm_seeded_fast.sh <seeded-id>...  — lead's own confirmation of a seeded change in a scratch worktree (rounds b/c):
#  (1) the demonstration passes on the unmodified tree, (2) the patch applies, (3) the demonstration fails with the patch,
#  (4) the test files of the repository that exercise the touched source files pass with the patch (the always-fast directories
#      test/core test/testing test/evlog plus, per touched file, the matching test files; test/utils for utils changes).
# The full suite (8-12 minutes per change on this machine) was run for round a by tools/confirm_seeded.sh; for rounds b and c the
# targeted subset is used.  Hypothesis DeadlineExceeded / Flaky / FailedHealthCheck failures are load artefacts and are listed.
# Result is appended to /verif/seeded/<id>/confirm.txt
for ID in "$@"; do
  DIR=/verif/seeded/$ID; WT=/tmp/confwt_$ID; OUT=$DIR/confirm.txt
  [ -f "$OUT" ] && grep -q "^tests with patch" "$OUT" && continue
  git -C /repo worktree add -q "$WT" HEAD || continue
  DEMO=$(ls $DIR/demo.py $DIR/test_demo.py 2>/dev/null | head -1)
  rundemo() { if [[ "$DEMO" == *test_demo.py ]]; then (cd $WT && PYTHONPATH=$WT timeout 1200 /venv/bin/python -m pytest -q -p no:cacheprovider "$DEMO" >/tmp/conf_demo_$ID.log 2>&1); else (cd $WT && PYTHONPATH=$WT timeout 1200 /venv/bin/python "$DEMO" >/tmp/conf_demo_$ID.log 2>&1); fi; echo $?; }
  TESTS="test/core test/testing test/evlog"
  for f in $(grep '^+++ b/' $DIR/patch.diff | sed 's#^+++ b/##'); do
    case "$f" in
      transactron/lib/storage.py) TESTS="$TESTS test/lib/test_storage.py test/lib/test_metrics.py" ;;
      transactron/lib/fifo.py|transactron/lib/allocators.py) TESTS="$TESTS test/lib/test_fifo.py test/lib/test_allocators.py test/lib/test_metrics.py test/lib/test_pipeline.py test/lib/test_reqres.py" ;;
      transactron/lib/metrics.py) TESTS="$TESTS test/lib/test_metrics.py" ;;
      transactron/lib/connectors.py|transactron/lib/simultaneous.py|transactron/lib/transformers.py|transactron/lib/reqres.py|transactron/lib/pipeline.py)
        TESTS="$TESTS test/lib/test_connectors.py test/lib/test_simultaneous.py test/lib/test_transformers.py test/lib/test_reqres.py test/lib/test_pipeline.py" ;;
      transactron/lib/stack.py) TESTS="$TESTS test/lib/test_stack.py" ;;
      transactron/lib/stream.py) TESTS="$TESTS test/lib/test_stream.py" ;;
      transactron/lib/basicio.py) TESTS="$TESTS test/lib/test_basicio.py" ;;
      transactron/lib/dependencies.py|transactron/utils/dependencies.py) TESTS="$TESTS test/lib/test_dependency_key.py test/lib/test_metrics.py" ;;
      transactron/utils/amaranth_ext/memory.py) TESTS="$TESTS test/lib/test_storage.py test/utils" ;;
      transactron/utils/*) TESTS="$TESTS test/utils test/lib/test_fifo.py test/lib/test_allocators.py" ;;
      transactron/core/*) TESTS="$TESTS test/lib/test_connectors.py test/lib/test_simultaneous.py test/lib/test_transformers.py test/lib/test_reqres.py test/lib/test_pipeline.py test/lib/test_fifo.py" ;;
      transactron/testing/*) TESTS="$TESTS test/lib/test_transformers.py test/lib/test_reqres.py test/lib/test_simultaneous.py test/lib/test_fifo.py" ;;
    esac
  done
  TESTS=$(echo $TESTS | tr ' ' '\n' | sort -u | tr '\n' ' ')
  { echo "== $ID $(date -u +%FT%TZ) repo HEAD $(git -C /repo rev-parse --short HEAD) (targeted confirmation)"
    echo "demo on unmodified tree: exit $(rundemo)"
    if git -C $WT apply $DIR/patch.diff; then echo "patch applies: yes"; else echo "patch applies: NO"; fi
    echo "demo with patch: exit $(rundemo)"
    (cd $WT && PYTHONPATH=$WT timeout 5400 /venv/bin/python -m pytest -q -p no:cacheprovider --timeout=900 -n 4 $TESTS > /tmp/conf_suite_$ID.log 2>&1)
    echo "tests with patch ($TESTS): $(tail -1 /tmp/conf_suite_$ID.log)"
    grep -E "^FAILED|^ERROR" /tmp/conf_suite_$ID.log | sed 's/ - .*//' | sort | sed 's/^/   /'
    echo "   timing-related failures (DeadlineExceeded/Flaky/FailedHealthCheck mentions): $(grep -c -E 'DeadlineExceeded|Flaky|FailedHealthCheck' /tmp/conf_suite_$ID.log)"
  } >> $OUT 2>&1
  git -C /repo worktree remove --force "$WT"
done
