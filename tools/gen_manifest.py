#!/venv/bin/python
"""Regenerates /verif/MANIFEST.json from the spec modules present in vf/specs (run via: ./check --manifest)."""
import importlib, json, os, sys, glob
HERE = os.path.dirname(os.path.dirname(os.path.abspath(__file__)))
sys.path.insert(0, os.path.join(HERE, ".deps")); sys.path.insert(0, HERE)
props = [json.loads(l) for l in open(os.path.join(HERE, "properties.jsonl"))]
NA = json.load(open(os.path.join(HERE, "tools", "not_applicable.json")))
checks = []; na = []; engines = {}
for p in props:
    pid = p["id"]
    path = os.path.join(HERE, "vf", "specs", pid.lower() + ".py")
    if not os.path.exists(path) or pid in NA.get("forced", {}):
        na.append(dict(property_id=pid, reason=NA.get("forced", {}).get(pid) or NA.get("pending", "check not built yet (work in progress)")))
        continue
    spec = importlib.import_module(f"vf.specs.{pid.lower()}")
    doc = " ".join((spec.__doc__ or "").split())
    b = spec.BOUNDS
    checks.append(dict(
        property_id=pid,
        quick_cmd=f"./check {pid} quick",
        thorough_cmd=f"./check {pid} thorough",
        evidence_file=f"/verif/evidence/{pid}.json",
        replay_cmd_template=f"./check {pid} --replay {{path}}",
        engine=getattr(spec, "ENGINE", "nir2smt+bmc"),
        level_claimed=dict(category=spec.LEVEL, text=getattr(spec, "LEVEL_TEXT", doc) + " Bounds: quick = " + str(b.get("quick")) + "; thorough = " + str(b.get("thorough")),
                           design_ref="DESIGN.md §3 " + pid),
        level_note="Trusted: Amaranth elaboration + NIR netlist construction, the NIR->z3 translator (co-simulated against amaranth.sim on every run, counterexamples replayed on amaranth.sim), z3. "
                   "Assumed: " + "; ".join(getattr(spec, "ASSUMES", [])) + ". Outside the claim: " + "; ".join(getattr(spec, "OUTSIDE", [])),
        technique=getattr(spec, "TECHNIQUE", "SMT (z3 QF_BV) over the Amaranth netlist IR of the really elaborated design: bounded model checking against a z3 reference model; counterexamples replayed on amaranth.sim"),
    ))
    for e in getattr(spec, "ENGINES", ["E1 nir2smt", "E3 bmc"]):
        engines.setdefault(e, []).append(pid)
man = dict(
    version=1,
    setup_cmd="./check --setup",
    hooks=dict(guard="TRANSACTRON_VERIF", enable="no source hooks are needed: checks import transactron from /repo's working tree (editable install in /venv) and read Amaranth's netlist IR; the guard variable is exported by ./check but nothing in /repo reads it",
               baseline_off_cmd="cd /repo && /venv/bin/python -m pytest -ra -q -p no:cacheprovider --timeout=900 --continue-on-collection-errors", source_commits=[], add_only=True),
    engines=[dict(name=k, path="/verif/vf", serves_properties=v, kind_free_text=k) for k, v in engines.items()],
    checks=checks,
    notes="All checks: ./check <ID> quick|thorough. Exit 0 = held on everything explored; 1 = replay-confirmed violation (VIOLATION line); 3 = harness error (never a verdict). known_findings.json lists recorded/fixed defects.",
    not_applicable=na,
)
json.dump(man, open(os.path.join(HERE, "MANIFEST.json"), "w"), indent=1)
print("MANIFEST: checks", len(checks), "not_applicable", len(na))
